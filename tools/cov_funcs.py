"""Functions of a property's anchor files that the quick tier never entered (from .work/cov/<ID>.cov)."""
import ast, json, sys
import coverage

p = sys.argv[1]
prop = next(json.loads(l) for l in open('/verif/properties.jsonl') if json.loads(l)['id'] == p)
cov = coverage.Coverage(data_file=f'/verif/.work/cov/{p}.cov')
cov.load()
data = cov.get_data()
for f in prop['anchors']['files']:
    if not f.endswith('.py'):
        continue
    path = '/repo/' + f
    lines = set(data.lines(path) or [])
    tree = ast.parse(open(path).read())
    missed = []
    for node in ast.walk(tree):
        if isinstance(node, (ast.FunctionDef, ast.AsyncFunctionDef)):
            body = [n.lineno for n in node.body if not (isinstance(n, ast.Expr) and isinstance(getattr(n, 'value', None), ast.Constant))]
            if body and not any(b in lines for b in body):
                if node.name in ('__repr__', '__str__') or any(isinstance(n, ast.Expr) and isinstance(n.value, ast.Constant) and n.value.value is Ellipsis for n in node.body):
                    continue
                missed.append(f"{node.name}:{node.lineno}")
    print(f, '->', ', '.join(missed) if missed else '(all entered)')
