#!/bin/sh
# usage: tools/seed_done.sh <PROP> [offset]: import the two seeded changes of a finished sub-agent, remove its
# worktree, run both against the property's check
p="$1"; off="${2:-0}"
cd /verif
tools/import_seed.sh "$p" "$off" >/dev/null
git -C /repo worktree remove --force /tmp/wt/$p 2>/dev/null; git -C /repo worktree prune
rm -f /tmp/wt/${p}_*
for k in 1 2; do
  n=$((off+k))
  echo "== $p-$n: $(python3 -c "import json;print((json.load(open('/verif/seeded/$p-$n/meta.json'))['breaks'] or '')[:160])")"
  tools/run_seeded.sh $p-$n $p quick 2>&1 | grep -E "demo exit|^\[|PATCH FAILED" 
done
