#!/bin/sh
# usage: tools/benign_done.sh <PROP> [all]: import the harmless changes of a finished sub-agent as
# benign/<PROP>-b<k>/, remove its worktree, run the property's check (or all 20) against each: must stay quiet
p="$1"; cd /verif
for k in 1 2 3; do
  [ -f /tmp/wt/${p}b_${k}.patch.diff ] || continue
  d=benign/${p}-b$k; mkdir -p $d
  cp /tmp/wt/${p}b_${k}.patch.diff $d/patch.diff
  python3 - "$p" "$k" <<'PY'
import json,sys
p,k=sys.argv[1],int(sys.argv[2])
m=json.load(open(f'/tmp/wt/{p}b_meta.json'))
e=m[k-1] if isinstance(m,list) else m
json.dump({"property":p,"what":e.get("what"),"why_harmless":e.get("why_harmless"),"source":"independent sub-agent given only the property text and a scratch worktree; asked for changes that keep the property","ran":[]},open(f'/verif/benign/{p}-b{k}/meta.json','w'),indent=1)
PY
done
git -C /repo worktree remove --force /tmp/wt/${p}b 2>/dev/null; git -C /repo worktree prune
rm -f /tmp/wt/${p}b_*
for k in 1 2 3; do
  [ -d benign/${p}-b$k ] && tools/run_benign.sh ${p}-b$k ${2:-auto:$p}
done
