#!/bin/sh
# Regression over every seeded change: each must give a VIOLATION of its own property's check.
# usage: tools/run_all_seeded.sh [pattern]   → .work/seeded_regression.txt
cd /verif
out=.work/seeded_regression.txt; : > $out
for d in $(ls seeded | grep "${1:-.}"); do
  p=${d%-*}
  r=$(tools/run_seeded.sh $d $p quick 2>&1 | grep -E "^\[|PATCH FAILED" | tail -1)
  case "$r" in
    *"violations=0 "*|*PATCH*|"") echo "NOT-CAUGHT $d $r" | tee -a $out ;;
    *) echo "caught $d" >> $out ;;
  esac
done
echo "done: $(grep -c '^caught' $out) caught, $(grep -c NOT-CAUGHT $out) not caught"
