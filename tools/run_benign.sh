#!/bin/sh
# usage: tools/run_benign.sh <benign-dir> <prop>|all [tier]: apply benign/<dir>/patch.diff to a scratch copy of /repo
# and run the check(s) against it; every line must say violations=0
d="$1"; props="$2"; tier="${3:-quick}"
case "$props" in auto:*) props=$(python3 - "$d" "${props#auto:}" <<'PY'
import json,re,sys
d,own=sys.argv[1],sys.argv[2]
touched=set(re.findall(r'^\+\+\+ b/(\S+)', open(f'/verif/benign/{d}/patch.diff').read(), flags=re.M))
out=[own]
for l in open('/verif/properties.jsonl'):
    q=json.loads(l)
    if q['id']!=own and touched & set(q['anchors']['files']): out.append(q['id'])
print(' '.join(sorted(set(out))))
PY
);; esac
[ "$props" = all ] && props="C01 C02 C03 C04 C05 C06 C07 C08 C09 C10 C11 C12 C13 C14 C15 C16 C17 C18 C19 C20"
rc=$(mktemp -d /tmp/benrc.XXXXXX)
rsync -a --exclude .git --exclude target /repo/ "$rc/"
( cd "$rc" && patch -p1 -s < "/verif/benign/$d/patch.diff" ) || { echo "PATCH FAILED $d"; rm -rf "$rc"; exit 3; }
for prop in $props; do
  r=$( cd /verif && HUGR_REPO="$rc" ./check "$prop" --tier "$tier" 2>&1 | grep -E "^\[|^VIOLATION" | tr '\n' ' ')
  case "$r" in *"violations=0 "*) echo "quiet  $d $prop";; *) echo "ALARM  $d $prop :: $r";; esac
done
rm -rf "$rc"
