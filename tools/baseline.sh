#!/bin/sh
# Runs the pinned test suite of /repo (guard off) and checks that every test of BASELINE.stable_pass passes.
out=$(mktemp -d)
cd "${1:-/repo}" && env -u HUGR_PY_VERIF /venv/bin/python -m pytest -ra -q -p no:cacheprovider --timeout=900 --continue-on-collection-errors --junitxml=$out/j.xml >$out/log 2>&1
python3 - "$out/j.xml" <<'PY'
import json, sys, xml.etree.ElementTree as ET
base = json.load(open('/root/.vp/BASELINE.json'))
passed = set(); failed=set()
for tc in ET.parse(sys.argv[1]).getroot().iter('testcase'):
    tid = (tc.get('classname') or '') + '::' + (tc.get('name') or '')
    if tc.find('failure') is not None or tc.find('error') is not None: failed.add(tid)
    elif tc.find('skipped') is not None: pass
    else: passed.add(tid)
passed -= failed
missing = [t for t in base['stable_pass'] if t not in passed]
print(f"baseline: {len(base['stable_pass'])-len(missing)}/{len(base['stable_pass'])} stable tests pass")
for t in missing: print("  NOT PASSING:", t)
sys.exit(1 if missing else 0)
PY
rc=$?
rm -rf "$out"
exit $rc
