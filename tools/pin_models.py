#!/venv/bin/python
"""usage: tools/pin_models.py — writes harness/model_pins.json: per property, a fingerprint of the normalised AST
(docstrings, comments, formatting and positions removed) of every file the property is anchored in, taken from /repo's
current working tree.  Run after every commit to /repo; NEVER run by ./check (a check only READS the pins: a source that
differs from its pin raises the sampling budget of that run, it is not a failure)."""
import json, sys
sys.path.insert(0, "/verif/harness")
import core
pins = {}
for l in open("/verif/properties.jsonl"):
    q = json.loads(l)
    pins[q["id"]] = {f: core.source_fingerprint(core.REPO / f) for f in q["anchors"]["files"]}
# every Python file of the package, for every property: a change in a shared helper (utils, node_port, tys, ops,
# _serialization, …) reaches most properties through code paths no anchor list names
pins["*"] = {str(p.relative_to(core.REPO)): core.source_fingerprint(p)
             for p in sorted((core.REPO / "hugr-py" / "src" / "hugr").rglob("*.py"))}
json.dump(pins, open("/verif/harness/model_pins.json", "w"), indent=1, sort_keys=True)
print("pinned", sum(len(v) for v in pins.values()), "files")
