#!/usr/bin/env python3
"""usage: tools/mark_seed.py <seed-id> first|after [note]: record the outcome of a seeded change in its meta.json"""
import json, sys
k, how = sys.argv[1], sys.argv[2]
note = sys.argv[3] if len(sys.argv) > 3 else ""
f = f"/verif/seeded/{k}/meta.json"
m = json.load(open(f))
m["ran"] = [{"check": k.split("-")[0] + " quick", "result": "VIOLATION",
             "detected": "caught at first run" if how == "first" else "caught after strengthening",
             "note": note, "baseline": "180 passed (agent-verified)"}]
json.dump(m, open(f, "w"), indent=1)
