#!/bin/sh
# usage: tools/run_seed_list.sh <jobs> <seed-id>…  → .work/seed_list.txt (caught / NOT-CAUGHT per seeded change)
cd /verif; mkdir -p .work; jobs="$1"; shift; : > .work/seed_list.txt
printf '%s\n' "$@" | xargs -P "$jobs" -I{} sh -c '
  d={}; p=${d%-*}
  r=$(tools/run_seeded.sh $d $p quick 2>&1 | grep -E "^\[|PATCH FAILED" | tail -1)
  case "$r" in
    *"violations=0 "*|*PATCH*|"") echo "NOT-CAUGHT $d $r" >> .work/seed_list.txt ;;
    *) echo "caught $d" >> .work/seed_list.txt ;;
  esac'
echo "done: $(grep -c "^caught" .work/seed_list.txt) caught, $(grep -c NOT-CAUGHT .work/seed_list.txt) not caught"
