#!/bin/sh
# usage: tools/multi_seed.sh "<seeds>" [props…]: every quick check on the unchanged tree under several VERIF_SEED values;
# prints one line per run that is not clean (exit status != 0 or a VIOLATION line)
seeds="$1"; shift
props="${*:-C01 C02 C03 C04 C05 C06 C07 C08 C09 C10 C11 C12 C13 C14 C15 C16 C17 C18 C19 C20}"
cd /verif
for sd in $seeds; do for p in $props; do
  out=$(VERIF_SEED=$sd ./check $p --tier quick 2>&1); rc=$?
  line=$(echo "$out" | grep -E '^\[' | tail -1)
  if [ $rc -ne 0 ] || echo "$out" | grep -q '^VIOLATION'; then echo "NOT-CLEAN seed=$sd $p rc=$rc $line"; else echo "clean seed=$sd $p"; fi
done; done
