#!/usr/bin/env python3
"""usage: tools/mk_seed_prompt.py <PROP>: creates the scratch worktree /tmp/wt/<PROP> of /repo and the prompt
/tmp/wt/<PROP>.prompt.txt for an independent seeding sub-agent (property text only, nothing from /verif)."""
import json, subprocess, sys, os
p = sys.argv[1]
extra = ('\nOther testers have already tried the first ideas that come to mind for this property. Spend some time reading the '
         'anchor files and their callers first, and prefer mechanisms, code paths and clauses of the property that are NOT the most '
         'obvious targets (less travelled branches, equivalent entry points, helper functions shared with other features, interactions '
         'between two features).\n') if len(sys.argv) > 2 and sys.argv[2] in ('deep', 'wide') else ''
if len(sys.argv) > 2 and sys.argv[2] == 'wide':
    extra += ('Stale caches / memoisation, one-shot iterators consumed twice, and "same change as an obvious one but in another place" '
              'have been done many times already: do NOT use those. Prefer instead: boundary conditions (empty rows, zero, the last '
              'index, a single element), a wrong field or wrong direction in a rarely taken branch, ordering changes (sorted/reversed/'
              'set iteration) that only matter for particular shapes, aliasing of mutable arguments or defaults, equality vs identity, '
              'bool-vs-int or str-vs-enum confusions, changed error classes or checks moved after a mutation, default arguments, '
              'and interactions between two public features that are each fine alone.\n')
if len(sys.argv) > 2 and sys.argv[2] == 'clauses':
    extra = ('\nOther testers have already covered the obvious targets of this property many times (stale caches, iterators consumed '
             'twice, off-by-one in the most visible function). Work differently: first split the property statement and its quantifier '
             'into their individual clauses and list, for each clause, the functions and branches of the code that implement it (follow '
             'callers and helpers beyond the anchor files where needed). Then choose the TWO clauses that a typical test or a random '
             'generator of ordinary inputs is LEAST likely to exercise (rarely used entry points named in the quantifier, unusual but '
             'legal argument shapes, configurations off the default, interactions of two features), and break each of them in a way '
             'that leaves every other clause intact. The two changes must be in different functions and of different nature.\n')
if len(sys.argv) > 2 and sys.argv[2] == 'helpers':
    extra = ('\nOther testers have already changed the functions of the anchor files many times. Work differently: trace the code '
             'paths the property depends on OUTSIDE the anchor files and outside the most obvious function — shared helpers '
             '(hugr/utils.py, hugr/hugr/node_port.py, hugr/tys.py, hugr/ops.py, hugr/_serialization/*, hugr/ext.py, hugr/build/base.py, '
             'hugr/std/*), base classes, dunder methods (__eq__, __hash__, __iter__, __getitem__, __post_init__), properties and '
             'default arguments that the anchored code relies on — and place each change THERE, so that the anchored functions '
             'themselves stay textually untouched. If the property has a single small anchor file with no such dependencies, choose '
             'the least visited branches of it instead. The two changes must be in different files or classes. Do not use '
             '`git stash` (the stash is shared between worktrees): keep your patches as files.\n')
if len(sys.argv) > 2 and sys.argv[2] == 'lifecycle':
    extra = ('\nOther testers have already broken this property many times on freshly constructed objects given ordinary arguments. '
             'Work differently: make each change manifest only on objects WITH A HISTORY or on LEGAL BUT UNUSUAL ARGUMENT FORMS. '
             'Histories: an object that was loaded from JSON / an envelope rather than built; serialised, exported or rendered once '
             'and then edited and used again; inserted into another HUGR and then edited on either side; resolved against a registry; '
             'copied (copy.copy / copy.deepcopy / pickle / dataclasses.replace); a builder that is used again after to_json(); a node '
             'whose operation object is shared with another node or replaced in place; indices reused after deletions; the same call '
             'made twice. Argument forms: every overload and optional parameter of the public entry points the property names, the '
             'protocols they accept (a Node where a port is expected, any Iterable or Mapping where a list or dict is usual, '
             'subclasses, keyword instead of positional arguments), negative / zero / very large numbers, empty rows and empty '
             'strings, non-ASCII and white-space-edged text, bool where int is allowed. First list which of these the property\'s '
             'quantifier covers, then pick two that an automated generator of ordinary API calls is least likely to produce and break '
             'the code ONLY there. The two changes must be of different nature and in different functions. Do not use `git stash`.\n')
prop = next(json.loads(l) for l in open('/verif/properties.jsonl') if json.loads(l)['id'] == p)
os.makedirs('/tmp/wt', exist_ok=True)
wt = f'/tmp/wt/{p}'
if not os.path.isdir(wt):
    subprocess.check_call(['git', '-C', '/repo', 'worktree', 'add', '--detach', wt, 'HEAD'], stdout=subprocess.DEVNULL)
text = (f"{p} — {prop['title']}\n\nStatement: {prop['statement']}\n\nQuantifier: {prop['quantifier']['text']}\n\n"
        f"Anchor files: {', '.join(prop['anchors']['files'])}\n")
open(f'/tmp/wt/{p}.property.txt', 'w').write(text)
tmpl = f"""You are a careful adversarial tester of the open-source Python package CQCL/hugr (hugr-py). You have your own scratch git worktree of the repository at {wt} (a detached checkout; work ONLY there; never touch /repo, and do NOT read anything under /verif). The package source is under {wt}/hugr-py/src/hugr and is used with `PYTHONPATH={wt}/hugr-py/src /venv/bin/python` (Python 3.12; the package is NOT installed, so always set PYTHONPATH). The repository's test suite is run with `cd {wt} && /venv/bin/python -m pytest -q -p no:cacheprovider --timeout=900 --continue-on-collection-errors` — on the unchanged tree it reports exactly `29 failed, 180 passed, 1 skipped, 10 errors` (the failures/errors are pre-existing: they need a `hugr` validator binary that is absent offline). "Passing the existing tests" below means: the same 180 tests still pass and no additional test fails.

Here is a semantic property that hugr-py is supposed to satisfy (file /tmp/wt/{p}.property.txt contains the same text):

{text}

Your task: produce TWO independent, realistic changes to the hugr-py source (each a small patch a plausible refactoring/optimisation/"fix" could introduce) such that each change, on its own,
  (a) BREAKS the property above,
  (b) still compiles/imports and still passes the existing test suite (same 180 passing, nothing new failing),
  (c) needs something SPECIFIC to manifest — a particular multi-step sequence of operations, an unusual input or configuration, an interleaving of calls, or two cooperating sites that each look fine alone — NOT something ordinary use or the simplest smoke test would expose at once. Subtle > blatant. The two changes should be of different nature / touch different mechanisms.
For each change write a small demonstration program (plain Python script that exits 0 when the property holds on its scenario and exits 1 with an explanatory message when it is violated) that FAILS with the change applied and PASSES on the unchanged tree.

Procedure for each change k = 1, 2:
  1. edit files in {wt}; run the test suite (must still be 180 passed and no new failures); run your demo (must fail);
  2. save the patch: `cd {wt} && git diff > /tmp/wt/{p}_k.patch.diff`, save the demo as /tmp/wt/{p}_k_demo.py (it must take the source root from the environment: `sys.path.insert(0, os.environ.get("HUGR_SRC", "{wt}/hugr-py/src"))`);
  3. `git -C {wt} checkout -- .` to restore, then run the demo on the unchanged tree (must pass, exit 0).
Finally write /tmp/wt/{p}_meta.json: a list of two objects {{"patch": "...", "demo": "...", "breaks": "<which clause of the property is broken>", "needs": "<what specific sequence/input/configuration is needed for it to manifest>", "why_tests_pass": "..."}}.
Leave {wt} clean (`git status --short` empty) at the end. Report briefly what the two changes are.
{extra}"""
open(f'/tmp/wt/{p}.prompt.txt', 'w').write(tmpl)
print(f'/tmp/wt/{p}.prompt.txt')
