#!/usr/bin/env python3
"""Regenerate MANIFEST.json from tools/claims.json (+ tools/not_applicable.json)."""
import json
from pathlib import Path

V = Path(__file__).resolve().parent.parent
props = [json.loads(l) for l in (V / "properties.jsonl").read_text().splitlines() if l.strip()]
claims = json.loads((V / "tools" / "claims.json").read_text())
na_file = V / "tools" / "not_applicable.json"
na = json.loads(na_file.read_text()) if na_file.exists() else {}
m = {
    "version": 1,
    "setup_cmd": "./check --setup",
    "hooks": {
        "guard": "HUGR_PY_VERIF",
        "enable": "no source hooks are needed: the harness imports /repo/hugr-py/src in-process and reads state by introspection; checks export HUGR_PY_VERIF=1 for uniformity",
        "baseline_off_cmd": "cd /repo && /venv/bin/python -m pytest -ra -q -p no:cacheprovider --timeout=900 --continue-on-collection-errors",
        "source_commits": [],
        "add_only": True,
    },
    "engines": [
        {
            "name": "lean-proof+correspondence",
            "path": "check",
            "serves_properties": sorted(claims),
            "kind_free_text": "Lean 4 theorems about executable models (lean/HugrVerif), tied to /repo on every run by a line-protocol differential check (harness/) and by translators that regenerate data terms from the source",
        }
    ],
    "checks": [],
    "notes": "See DESIGN.md. Exit 0 = held on everything explored, 1 = VIOLATION line printed, 2 = infrastructure error or timeout.",
    "not_applicable": [],
}
for p in props:
    i = p["id"]
    if i in claims:
        c = claims[i]
        m["checks"].append(
            {
                "property_id": i,
                "quick_cmd": f"./check {i} --tier quick",
                "thorough_cmd": f"./check {i} --tier thorough",
                "evidence_file": f"evidence/{i}.json",
                "replay_cmd_template": f"./check {i} --replay {{path}}",
                "engine": "lean-proof+correspondence",
                "level_claimed": {"category": "proof", "text": c["text"], "design_ref": c["design_ref"]},
                "level_note": c["note"],
                "technique": c["technique"],
            }
        )
    else:
        m["not_applicable"].append(
            {
                "property_id": i,
                "reason": na.get(
                    i,
                    "check not built yet (DESIGN.md §5 gives the planned model and theorems); nothing is claimed for this property at this commit",
                ),
            }
        )
(V / "MANIFEST.json").write_text(json.dumps(m, indent=1) + "\n")
print("claimed:", sorted(claims), "not claimed:", [x["property_id"] for x in m["not_applicable"]])
