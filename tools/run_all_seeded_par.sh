#!/bin/sh
# Regression over every seeded change, N at a time: each must give a VIOLATION of its own property's check.
# usage: tools/run_all_seeded_par.sh [jobs] [pattern]   → .work/seeded_regression.txt
cd /verif
mkdir -p .work
out=.work/seeded_regression.txt; : > $out
ls seeded | grep "${2:-.}" | xargs -P "${1:-5}" -I{} sh -c '
  d={}; p=${d%-*}
  r=$(VERIF_EXTRA_ROUNDS=${VERIF_EXTRA_ROUNDS:-3} tools/run_seeded.sh $d $p quick 2>&1 | grep -E "^\[|PATCH FAILED" | tail -1)
  case "$r" in
    *"violations=0 "*|*PATCH*|"") echo "NOT-CAUGHT $d $r" >> .work/seeded_regression.txt ;;
    *) echo "caught $d" >> .work/seeded_regression.txt ;;
  esac'
echo "done: $(grep -c '^caught' $out) caught, $(grep -c NOT-CAUGHT $out) not caught"
