"""Coverage probe (development aid, not a registered check): which lines of the anchored hugr-py files does the
quick tier of a check execute?  usage (from /verif):
  VERIF_JOBS=1 /venv/bin/python -m coverage run --data-file=.work/cov/<ID>.cov --include='/repo/hugr-py/src/hugr/*' tools/cov_main.py <ID>
  /venv/bin/python -m coverage report --data-file=.work/cov/<ID>.cov -m --include='<anchor files>'
"""
import sys

sys.path.insert(0, "harness")
import core  # noqa: E402

sys.exit(core.main())
