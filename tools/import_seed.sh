#!/bin/sh
# usage: tools/import_seed.sh <PROP> [offset]  (takes /tmp/wt/<PROP>_{1,2}.patch.diff, _demo.py, _meta.json;
#        stored as seeded/<PROP>-<offset+k>, offset 0 for the first round, 2 for the second, …)
p="$1"; off="${2:-0}"
for k in 1 2; do
  [ -f /tmp/wt/${p}_${k}.patch.diff ] || continue
  d=/verif/seeded/${p}-$((off+k))
  mkdir -p $d
  cp /tmp/wt/${p}_${k}.patch.diff $d/patch.diff
  cp /tmp/wt/${p}_${k}_demo.py $d/demo.py
  python3 - "$p" "$k" "$off" <<'PY'
import json,sys
p,k,off=sys.argv[1],int(sys.argv[2]),int(sys.argv[3])
m=json.load(open(f'/tmp/wt/{p}_meta.json'))
e=m[k-1] if isinstance(m,list) else m
out={"property":p,"breaks":e.get("breaks"),"needs":e.get("needs"),"why_tests_pass":e.get("why_tests_pass"),"source":"independent sub-agent given only the property text and a scratch worktree","ran":[]}
json.dump(out,open(f'/verif/seeded/{p}-{off+k}/meta.json','w'),indent=1)
PY
done
ls /verif/seeded | grep "^$p"
