#!/bin/sh
# usage: tools/cov_all.sh ID...   → .work/cov/<ID>.txt (missing lines of the property's anchor files)
cd /verif
for p in "$@"; do
  VERIF_JOBS=1 HUGR_PY_VERIF=1 /venv/bin/python -m coverage run --data-file=.work/cov/$p.cov --include='/repo/hugr-py/src/hugr/*' tools/cov_main.py $p > .work/cov/$p.log 2>&1
  inc=$(python3 - "$p" <<'PY'
import json,sys
p=sys.argv[1]
for l in open('/verif/properties.jsonl'):
    d=json.loads(l)
    if d['id']==p:
        print(','.join('/repo/'+f for f in d['anchors']['files'] if f.endswith('.py')))
PY
)
  /venv/bin/python -m coverage report --data-file=.work/cov/$p.cov -m --include="$inc" > .work/cov/$p.txt 2>&1
  tail -1 .work/cov/$p.log; tail -1 .work/cov/$p.txt
done
