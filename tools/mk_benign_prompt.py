#!/usr/bin/env python3
"""usage: tools/mk_benign_prompt.py <PROP>: scratch worktree /tmp/wt/<PROP>b of /repo and the prompt
/tmp/wt/<PROP>b.prompt.txt for an independent sub-agent that produces HARMLESS changes (the property still
holds): the checks must stay quiet on them (false-alarm side of the evaluation)."""
import json, subprocess, sys, os
p = sys.argv[1]
prop = next(json.loads(l) for l in open('/verif/properties.jsonl') if json.loads(l)['id'] == p)
os.makedirs('/tmp/wt', exist_ok=True)
wt = f'/tmp/wt/{p}b'
if not os.path.isdir(wt):
    subprocess.check_call(['git', '-C', '/repo', 'worktree', 'add', '--detach', wt, 'HEAD'], stdout=subprocess.DEVNULL)
text = (f"{p} — {prop['title']}\n\nStatement: {prop['statement']}\n\nQuantifier: {prop['quantifier']['text']}\n\n"
        f"Anchor files: {', '.join(prop['anchors']['files'])}\n")
tmpl = f"""You are an experienced maintainer of the open-source Python package CQCL/hugr (hugr-py). You have your own scratch git worktree of the repository at {wt} (a detached checkout; work ONLY there; never touch /repo, and do NOT read anything under /verif). The package source is under {wt}/hugr-py/src/hugr and is used with `PYTHONPATH={wt}/hugr-py/src /venv/bin/python` (Python 3.12; the package is NOT installed, so always set PYTHONPATH). The repository's test suite is run with `cd {wt} && /venv/bin/python -m pytest -q -p no:cacheprovider --timeout=900 --continue-on-collection-errors` — on the unchanged tree it reports exactly `29 failed, 180 passed, 1 skipped, 10 errors` (the failures/errors are pre-existing: they need a `hugr` validator binary that is absent offline). "Passing the existing tests" below means: the same 180 tests still pass and no additional test fails.

Here is a semantic property that hugr-py satisfies and must KEEP satisfying:

{text}

Your task: produce THREE independent, realistic, NON-TRIVIAL changes to the code this property is anchored in (and its helpers), of the kind that lands in such a project every week, each of which KEEPS the property true for every input and keeps all public behaviour the property talks about — but changes HOW the code does it, so that a verification harness that is too tightly coupled to today's implementation details would raise a false alarm. Make them substantial (tens of lines), of different nature, e.g.:
  * an internal refactoring: private helpers renamed / split / inlined, loops rewritten (comprehension <-> loop, recursion <-> explicit stack), private attributes renamed or their representation changed (list <-> dict, tuple <-> dataclass) with every user updated consistently;
  * a CORRECT optimisation (e.g. a cache that is properly invalidated / keyed, an early exit that is really equivalent, avoiding a copy where no aliasing can be observed);
  * a harmless extension: a new optional keyword argument with the old behaviour as default, a new public helper method, better error MESSAGES (same exception classes), extra docstrings/type hints, a new `__repr__`, additional validation that only rejects inputs that were already rejected;
  * reordering of independent statements, or of definitions within a module.
Do NOT change: exception classes raised for a given misuse, the serialised JSON / bytes produced for any input, return values of public methods, iteration orders of public iterators, or anything else the property statement mentions. When in doubt whether something is observable, keep it.
For each change k = 1, 2, 3:
  1. edit files in {wt}; run the test suite (must still be 180 passed and no new failures);
  2. convince yourself (by reasoning and by a quick script exercising the touched code on a few dozen varied inputs, comparing with the unchanged tree in /repo via `PYTHONPATH=/repo/hugr-py/src`) that behaviour is unchanged;
  3. save the patch: `cd {wt} && git diff > /tmp/wt/{p}b_k.patch.diff`, then `git -C {wt} checkout -- .` (and remove any new untracked files after including them in the diff with `git add -N`).
Finally write /tmp/wt/{p}b_meta.json: a list of three objects {{"patch": "...", "what": "<what was changed>", "why_harmless": "<why the property and public behaviour are unchanged>"}}.
Leave {wt} clean (`git status --short` empty) at the end. Report briefly what the three changes are.
"""
open(f'/tmp/wt/{p}b.prompt.txt', 'w').write(tmpl)
print(f'/tmp/wt/{p}b.prompt.txt')
