#!/bin/sh
# usage: tools/run_seeded.sh <seeded-dir> <prop> [tier]
# Applies seeded/<dir>/patch.diff to a scratch copy of /repo (outside /repo and /verif), runs the
# demonstration and the check against the copy (HUGR_REPO), removes the copy.
d="$1"; prop="$2"; tier="${3:-quick}"
rc=$(mktemp -d /tmp/seedrc.XXXXXX)
rsync -a --exclude .git --exclude target /repo/ "$rc/"
( cd "$rc" && patch -p1 -s < "/verif/seeded/$d/patch.diff" ) || { echo "PATCH FAILED"; rm -rf "$rc"; exit 3; }
echo "--- demo (expected to fail with the change):"
HUGR_SRC="$rc/hugr-py/src" /venv/bin/python "/verif/seeded/$d/demo.py" >/dev/null 2>&1; echo "demo exit=$?"
echo "--- check $prop ($tier):"
( cd /verif && HUGR_REPO="$rc" ./check "$prop" --tier "$tier" 2>&1 | tail -4 )
rm -rf "$rc"
