"""S-expression printer/parser matching lean/HugrVerif/Sexp.lean."""
from __future__ import annotations


class A(str):
    """Bare atom (printed unquoted)."""

    __slots__ = ()


def _esc(s: str) -> str:
    return (
        s.replace("\\", "\\\\")
        .replace('"', '\\"')
        .replace("\n", "\\n")
        .replace("\t", "\\t")
        .replace("\r", "\\r")
    )


def dumps(x) -> str:
    if isinstance(x, A):
        return str(x)
    if isinstance(x, bool):
        return "true" if x else "false"
    if isinstance(x, int):
        return str(x)
    if isinstance(x, str):
        return '"' + _esc(x) + '"'
    if isinstance(x, (list, tuple)):
        return "(" + " ".join(dumps(e) for e in x) + ")"
    if x is None:
        return "none"
    raise TypeError(f"cannot print {type(x)} as sexp")


def loads(s: str):
    """Parse into nested lists; atoms -> A, quoted -> str."""
    pos = 0
    n = len(s)

    def skip():
        nonlocal pos
        while pos < n and s[pos] == " ":
            pos += 1

    def one():
        nonlocal pos
        skip()
        if pos >= n:
            raise ValueError("eof")
        c = s[pos]
        if c == "(":
            pos += 1
            out = []
            while True:
                skip()
                if pos >= n:
                    raise ValueError("eof in list")
                if s[pos] == ")":
                    pos += 1
                    return out
                out.append(one())
        if c == ")":
            raise ValueError("unexpected )")
        if c == '"':
            pos += 1
            buf = []
            while True:
                if pos >= n:
                    raise ValueError("eof in string")
                ch = s[pos]
                if ch == '"':
                    pos += 1
                    return "".join(buf)
                if ch == "\\":
                    nx = s[pos + 1]
                    buf.append({"n": "\n", "t": "\t", "r": "\r"}.get(nx, nx))
                    pos += 2
                else:
                    buf.append(ch)
                    pos += 1
        start = pos
        while pos < n and s[pos] not in ' ()"':
            pos += 1
        return A(s[start:pos])

    v = one()
    skip()
    if pos != n:
        raise ValueError("trailing input")
    return v
