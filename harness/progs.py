"""Builder programs: a JSON-able command language over the public builders of `hugr.build`, an
interpreter that drives the REAL builders, and the s-expression printer for the Lean driver
(stream `build.run`, lean/HugrVerif/Bridge/Prog.lean).

A program is a list of commands; a command is a JSON list `[name, arg…]`.  Builders and nodes are named by
strings chosen by the program (a command that returns a builder / node says under which name it is kept).

  T, R, A, P, SUM, SIG, POLY, OP, V   as in harness/bridge.py (`build_type`, `build_op`, `build_value`, …)
  OP additionally:  ["@std", "Not"] | ["@std", "DivMod", width]            (the helpers of hugr.std)
  META ::= null | {key: json}
  NR (node reference) ::= "n3" | ["n", "n3"]            node variable
        | ["b", B]          the builder itself used as a node (`ToNode`: its current `parent_node`)
        | ["input", B] | ["output", B]                  `B.input_node` / `B.output_node`
        | ["entry", C] | ["exit", C]                    `Cfg.entry` / `Cfg.exit`
        | ["root", B]                                   `B.hugr.root`
        | ["cond_node", I]                              `If/Else.conditional_node`
        | ["raw", idx]                                  `Node(idx)`
  W (wire) ::= ["out", NR, k]      `NR.out(k)`  (k may be negative: the port is taken literally)
        | ["idx", NR, k]           `NR[k]`      (checked against the handle's known number of outputs)
        | ["in", B, k]             `B.inputs()[k]`
        | ["node", NR]             the node itself used as a wire (port 0)
  CW ::= W | int                   (int: index of a tracked wire)

Commands (B… builder names, n… node names):
  standalone builders
    ["Dfg", B, [T…]]  ["Function", B, name, [T…], [P…]]  ["Module", B]  ["Cfg", B, [T…]]
    ["Conditional", B, SUM, [T…]]  ["TailLoop", B, [T…], [T…]]  ["TrackedDfg", B, [T…], bool]
  dataflow builders
    ["add_op", B, n, OP, [W…], META]            ["add", B, n, OP, [CW…], META]
    ["extend", B, [n…], [[OP, [CW…]]…]]
    ["load", B, n, ["val", V, NR|null]]         ["load", B, n, ["const", NR]]
    ["add_const", B, n, V, NR|null]             ["add_alias_defn", B, n, name, T, NR|null]
    ["call", B, n, NR, [W…], SIG|null, [A…]|null]      ["load_function", B, n, NR, SIG|null, [A…]|null]
    ["add_nested", B, B2, [W…]]                 ["insert_nested", B, n, B2, [W…]]
    ["add_cfg", B, C, [W…]]                     ["insert_cfg", B, n, C, [W…]]
    ["add_conditional", B, C, W, [W…]]          ["insert_conditional", B, n, C, W, [W…]]
    ["add_if", B, I, W, [W…]]                   ["add_else", I, E]
    ["add_tail_loop", B, T, [W…], [W…]]         ["insert_tail_loop", B, n, T, [W…], [W…]]
    ["define_function", B, F, name, [T…], [T…]|null, [P…]|null, NR|null]
    ["declare_outputs", F, [T…]]                ["add_state_order", B, NR, NR]
    ["set_outputs", B, [W…]]  ["set_block_outputs", B, W, [W…]]  ["set_single_succ_outputs", B, [W…]]
    ["set_loop_outputs", B, W, [W…]]
  module
    ["define_main", M, F, [T…]]  ["declare_function", M, n, name, POLY]  ["add_alias_decl", M, n, name, B]
  control flow
    ["add_entry", C, B]  ["add_block", C, B, [T…]]  ["add_successor", C, B, W]  ["branch", C, W, NR]
    ["branch_exit", C, W]
  conditional
    ["add_case", C, B, k]  ["exit_conditional", C]        (`with`-exit: `C.__exit__(None, None, None)`)
  tracked
    ["track_wire", B, W]  ["track_wires", B, [W…]]  ["track_inputs", B]  ["untrack_wire", B, i]
    ["tracked_wire", B, i]  ["set_indexed_outputs", B, [CW…]]  ["set_tracked_outputs", B]
  ["to_json", B]                                  `B.hugr.to_json()` (collected in "docs")

`run_program(prog)` -> {"outcomes": [["ok", RESULT] | ["err", class]], "docs": [json…]}; execution stops at the
first raising command.  RESULT ::= ["none"] | ["node", idx, nout|null] | ["nodes", [[idx, nout|null]…]]
  | ["df", kind, [p, pn], [i, in], [o, on]] | ["cfg", [p, pn], [entry, en], [exit, xn]]
  | ["cond", [p, pn], [[case, cn]…]] | ["module", [root, rn]] | ["int", i] | ["ints", [i…]] | ["wire", node, off]
  | ["doc", k]   (k = index into "docs")

A program that uses a method its builder class does not have, an unbound name, etc. is not a program of the
language: `ProgError` (the Lean side answers `!unsupported`).
"""
from __future__ import annotations

import json

import bridge
from sexp import A, dumps


class ProgError(Exception):
    """The program is outside the language (ill-kinded use of a name)."""


ERR_CLASSES = (
    "NoSiblingAncestor", "NotInSameCfg", "ConditionalError", "MismatchedExit", "NoConcreteFunc",
    "IncompleteOp", "InvalidPort", "ParentBeforeChild", "ValidationError", "IndexError", "KeyError", "ValueError",
    "AssertionError",
)


def exc_name(e: BaseException) -> str:
    """Most specific class the builders' docs name, else "Exception"."""
    import pydantic

    from hugr import ops
    from hugr.build.cond_loop import ConditionalError
    from hugr.exceptions import MismatchedExit, NoSiblingAncestor, NotInSameCfg, ParentBeforeChild

    table = (
        (NoSiblingAncestor, "NoSiblingAncestor"), (NotInSameCfg, "NotInSameCfg"),
        (ConditionalError, "ConditionalError"), (MismatchedExit, "MismatchedExit"),
        (ops.NoConcreteFunc, "NoConcreteFunc"), (ops.IncompleteOp, "IncompleteOp"),
        (ops.InvalidPort, "InvalidPort"), (ParentBeforeChild, "ParentBeforeChild"),
        (pydantic.ValidationError, "ValidationError"),
        (IndexError, "IndexError"), (KeyError, "KeyError"), (ValueError, "ValueError"),
        (AssertionError, "AssertionError"),
    )
    for cls, name in table:
        if isinstance(e, cls):
            return name
    return "Exception"


# ----------------------------------------------------------------------------- operations


def build_prog_op(s):
    """Op spec (bridge op specs + the std helpers) -> a FRESH real operation object."""
    if isinstance(s, list) and s and s[0] == "@std":
        if s[1] == "Not":
            from hugr.std.logic import _NotOp

            return _NotOp()
        if s[1] == "DivMod":
            from hugr.std.int import _DivModDef

            return _DivModDef(s[2])
        raise ProgError(f"unknown std op {s}")
    return bridge.build_op(s)


def prog_op_spec(s):
    """The op spec the model is given: std helpers as the `ExtOp` they stand for (`AsExtOp.ext_op`)."""
    if isinstance(s, list) and s and s[0] == "@std":
        return bridge.op_to_spec(build_prog_op(s).ext_op)
    return s


# ----------------------------------------------------------------------------- interpreter


class Env:
    def __init__(self):
        self.b = {}
        self.n = {}

    def builder(self, name, *classes):
        if name not in self.b:
            raise ProgError(f"unbound builder {name}")
        o = self.b[name]
        if classes and not isinstance(o, classes):
            raise ProgError(f"builder {name} is a {type(o).__name__}")
        return o

    def node(self, name):
        if name not in self.n:
            raise ProgError(f"unbound node {name}")
        return self.n[name]


def _classes():
    from hugr.build.cfg import Block, Cfg
    from hugr.build.cond_loop import Case, Conditional, Else, If, TailLoop
    from hugr.build.dfg import DefinitionBuilder, DfBase, Dfg, Function
    from hugr.build.function import Module
    from hugr.build.tracked_dfg import TrackedDfg

    return dict(Block=Block, Cfg=Cfg, Case=Case, Conditional=Conditional, Else=Else, If=If, TailLoop=TailLoop,
                DefinitionBuilder=DefinitionBuilder, DfBase=DfBase, Dfg=Dfg, Function=Function, Module=Module,
                TrackedDfg=TrackedDfg)


def node_ref(env: Env, r):
    """NR -> a real `ToNode` (a Node, or the builder object itself)."""
    from hugr.hugr.node_port import Node

    C = _classes()
    if isinstance(r, str):
        return env.node(r)
    k = r[0]
    if k == "n":
        return env.node(r[1])
    if k == "b":
        return env.builder(r[1], C["DfBase"], C["Cfg"], C["Conditional"])
    if k == "input":
        return env.builder(r[1], C["DfBase"]).input_node
    if k == "output":
        return env.builder(r[1], C["DfBase"]).output_node
    if k == "entry":
        return env.builder(r[1], C["Cfg"]).entry
    if k == "exit":
        return env.builder(r[1], C["Cfg"]).exit
    if k == "root":
        return env.builder(r[1]).hugr.root
    if k == "cond_node":
        return env.builder(r[1], C["If"], C["Else"]).conditional_node
    if k == "raw":
        return Node(r[1])
    raise ProgError(f"bad node reference {r}")


def wire_ref(env: Env, w):
    C = _classes()
    if isinstance(w, bool) or not isinstance(w, list):
        raise ProgError(f"bad wire {w}")
    k = w[0]
    if k == "out":
        return node_ref(env, w[1]).out(w[2])
    if k == "idx":
        return node_ref(env, w[1])[w[2]]
    if k == "in":
        return env.builder(w[1], C["DfBase"]).inputs()[w[2]]
    if k == "node":
        return node_ref(env, w[1])
    raise ProgError(f"bad wire {w}")


def com_wire(env: Env, w):
    if isinstance(w, int) and not isinstance(w, bool):
        return w
    return wire_ref(env, w)


def _h(n):
    n = n.to_node()
    return [n.idx, n._num_out_ports]


def builder_result(b):
    C = _classes()
    if isinstance(b, C["Module"]):
        return ["module", _h(b.hugr.root)]
    if isinstance(b, C["Cfg"]):
        return ["cfg", _h(b.parent_node), _h(b.entry), _h(b.exit)]
    if isinstance(b, C["Conditional"]):
        return ["cond", _h(b.parent_node), [_h(c.parent_node) for c, _ in b._case_builders]]
    kind = {
        "Dfg": "dfg", "Function": "function", "Case": "case", "If": "if", "Else": "else", "Block": "block",
        "TailLoop": "tailloop", "TrackedDfg": "tracked",
    }[type(b).__name__]
    return ["df", kind, _h(b.parent_node), _h(b.input_node), _h(b.output_node)]


def _types(ts):
    return [bridge.build_type(t) for t in ts]


def _opt(f, x):
    return None if x is None else f(x)


def _meta(m):
    return None if m is None else json.loads(json.dumps(m))


def _mk_com(op, args):
    """the Command `op(*args)` as user code writes it (`DataflowOp.__call__`); operation classes with a `__call__` of
    their own (fixed arity) get the Command built directly, so that a program may give them any number of wires"""
    from hugr import ops

    if getattr(type(op), "__call__", None) is ops.DataflowOp.__call__:
        return op(*args)
    return ops.Command(op, list(args))


def _shared_coms(env, c, at, make):
    """the Command objects of an `add` / `extend`; a trailing `{"obj": key}` makes every command with that key use
    the SAME Command objects (a layer of gates prepared once and applied several times)"""
    key = c[at].get("obj") if len(c) > at and isinstance(c[at], dict) else None
    if key is None:
        return make()
    store = env.__dict__.setdefault("coms", {})
    text = json.dumps(c[3:4] if at == 4 else c[3:5], sort_keys=True, default=str)  # operation(s) and arguments as written
    if key not in store or store[key][0] != text:  # an edited copy of the command is a command of its own
        store[key] = (text, make())
    return store[key][1]


def exec_cmd(env: Env, c, docs: list):
    """Execute one command on the real builders; returns RESULT.  Exceptions of the builders propagate."""
    from hugr import ops, tys

    C = _classes()
    DfBase = C["DfBase"]
    k = c[0]

    def bind_b(name, b):
        env.b[name] = b
        return builder_result(b)

    def bind_n(name, n):
        env.n[name] = n
        return ["node", *_h(n)]

    # ---- standalone builders
    if k == "Dfg":
        return bind_b(c[1], C["Dfg"](*_types(c[2])))
    if k == "Function":
        return bind_b(c[1], C["Function"](c[2], _types(c[3]), [bridge.build_param(p) for p in c[4]]))
    if k == "Module":
        return bind_b(c[1], C["Module"]())
    if k == "Cfg":
        return bind_b(c[1], C["Cfg"](*_types(c[2])))
    if k == "Conditional":
        return bind_b(c[1], C["Conditional"](bridge.build_sum(c[2]), _types(c[3])))
    if k == "TailLoop":
        return bind_b(c[1], C["TailLoop"](_types(c[2]), _types(c[3])))
    if k == "TrackedDfg":
        return bind_b(c[1], C["TrackedDfg"](*_types(c[2]), track_inputs=bool(c[3])))

    # ---- dataflow
    if k == "add_op":
        b = env.builder(c[1], DfBase)
        op = build_prog_op(c[3])
        ws = [wire_ref(env, w) for w in c[4]]
        return bind_n(c[2], b.add_op(op, *ws, metadata=_meta(c[5])))
    if k == "add":
        b = env.builder(c[1], DfBase)
        com = _shared_coms(env, c, 6, lambda: [_mk_com(build_prog_op(c[3]), [com_wire(env, w) for w in c[4]])])[0]
        return bind_n(c[2], b.add(com, metadata=_meta(c[5])))
    if k == "extend":
        b = env.builder(c[1], DfBase)
        if len(c[2]) != len(c[3]):
            raise ProgError("extend: names/commands mismatch")
        coms = _shared_coms(
            env, c, 4, lambda: [_mk_com(build_prog_op(o), [com_wire(env, w) for w in ws]) for o, ws in c[3]]
        )
        ns = b.extend(*coms)
        for name, n in zip(c[2], ns):
            env.n[name] = n
        return ["nodes", [_h(n) for n in ns]]
    if k == "load":
        b = env.builder(c[1], DfBase)
        src = c[3]
        if src[0] == "val":
            v = bridge.build_value(src[1])
            p = _opt(lambda r: node_ref(env, r), src[2])
            return bind_n(c[2], b.load(v, p))
        if src[0] == "const":
            return bind_n(c[2], b.load(node_ref(env, src[1])))
        raise ProgError("load: bad source")
    if k == "add_const":
        b = env.builder(c[1], C["DefinitionBuilder"])
        v = bridge.build_value(c[3])
        return bind_n(c[2], b.add_const(v, _opt(lambda r: node_ref(env, r), c[4])))
    if k == "add_alias_defn":
        b = env.builder(c[1], C["DefinitionBuilder"])
        t = bridge.build_type(c[4])
        return bind_n(c[2], b.add_alias_defn(c[3], t, _opt(lambda r: node_ref(env, r), c[5])))
    if k == "add_alias_decl":
        b = env.builder(c[1], C["Module"])
        return bind_n(c[2], b.add_alias_decl(c[3], bridge._mk_b(c[4])))
    if k == "call":
        b = env.builder(c[1], DfBase)
        f = node_ref(env, c[3])
        ws = [wire_ref(env, w) for w in c[4]]
        inst = _opt(bridge.build_type, c[5])
        targs = _opt(lambda a: [bridge.build_arg(x) for x in a], c[6])
        return bind_n(c[2], b.call(f, *ws, instantiation=inst, type_args=targs))
    if k == "load_function":
        b = env.builder(c[1], DfBase)
        f = node_ref(env, c[3])
        inst = _opt(bridge.build_type, c[4])
        targs = _opt(lambda a: [bridge.build_arg(x) for x in a], c[5])
        return bind_n(c[2], b.load_function(f, instantiation=inst, type_args=targs))
    if k == "add_nested":
        b = env.builder(c[1], DfBase)
        ws = [wire_ref(env, w) for w in c[3]]
        return bind_b(c[2], b.add_nested(*ws))
    if k in ("insert_nested", "insert_cfg"):
        b = env.builder(c[1], DfBase)
        o = env.builder(c[3], DfBase, C["Cfg"], C["Conditional"])
        ws = [wire_ref(env, w) for w in c[4]]
        return bind_n(c[2], (b.insert_nested if k == "insert_nested" else b.insert_cfg)(o, *ws))
    if k == "add_cfg":
        b = env.builder(c[1], DfBase)
        ws = [wire_ref(env, w) for w in c[3]]
        return bind_b(c[2], b.add_cfg(*ws))
    if k == "add_conditional":
        b = env.builder(c[1], DfBase)
        w0 = wire_ref(env, c[3])
        ws = [wire_ref(env, w) for w in c[4]]
        return bind_b(c[2], b.add_conditional(w0, *ws))
    if k == "insert_conditional":
        b = env.builder(c[1], DfBase)
        o = env.builder(c[3], DfBase, C["Cfg"], C["Conditional"])
        w0 = wire_ref(env, c[4])
        ws = [wire_ref(env, w) for w in c[5]]
        return bind_n(c[2], b.insert_conditional(o, w0, *ws))
    if k == "add_if":
        b = env.builder(c[1], DfBase)
        w0 = wire_ref(env, c[3])
        ws = [wire_ref(env, w) for w in c[4]]
        return bind_b(c[2], b.add_if(w0, *ws))
    if k == "add_else":
        b = env.builder(c[1], C["If"])
        return bind_b(c[2], b.add_else())
    if k == "add_tail_loop":
        b = env.builder(c[1], DfBase)
        ji = [wire_ref(env, w) for w in c[3]]
        rest = [wire_ref(env, w) for w in c[4]]
        return bind_b(c[2], b.add_tail_loop(ji, rest))
    if k == "insert_tail_loop":
        b = env.builder(c[1], DfBase)
        o = env.builder(c[3], DfBase, C["Cfg"], C["Conditional"])
        ji = [wire_ref(env, w) for w in c[4]]
        rest = [wire_ref(env, w) for w in c[5]]
        return bind_n(c[2], b.insert_tail_loop(o, ji, rest))
    if k == "define_function":
        b = env.builder(c[1], C["DefinitionBuilder"])
        ins = _types(c[4])
        outs = _opt(_types, c[5])
        params = _opt(lambda ps: [bridge.build_param(p) for p in ps], c[6])
        parent = _opt(lambda r: node_ref(env, r), c[7])
        return bind_b(c[2], b.define_function(c[3], ins, outs, params, parent))
    if k == "define_main":
        b = env.builder(c[1], C["Module"])
        return bind_b(c[2], b.define_main(_types(c[3])))
    if k == "declare_function":
        b = env.builder(c[1], C["Module"])
        return bind_n(c[2], b.declare_function(c[3], bridge.build_type(c[4])))
    if k == "declare_outputs":
        b = env.builder(c[1], C["Function"])
        b.declare_outputs(_types(c[2]))
        return ["none"]
    if k == "add_state_order":
        b = env.builder(c[1], DfBase)
        s, d = node_ref(env, c[2]), node_ref(env, c[3])
        b.add_state_order(s, d)
        return ["none"]
    if k == "set_outputs":
        b = env.builder(c[1], DfBase)
        b.set_outputs(*[wire_ref(env, w) for w in c[2]])
        return ["none"]
    if k == "set_block_outputs":
        b = env.builder(c[1], C["Block"])
        w0 = wire_ref(env, c[2])
        b.set_block_outputs(w0, *[wire_ref(env, w) for w in c[3]])
        return ["none"]
    if k == "set_single_succ_outputs":
        b = env.builder(c[1], C["Block"])
        b.set_single_succ_outputs(*[wire_ref(env, w) for w in c[2]])
        return ["none"]
    if k == "set_loop_outputs":
        b = env.builder(c[1], C["TailLoop"])
        w0 = wire_ref(env, c[2])
        b.set_loop_outputs(w0, *[wire_ref(env, w) for w in c[3]])
        return ["none"]

    # ---- control flow
    if k == "add_entry":
        return bind_b(c[2], env.builder(c[1], C["Cfg"]).add_entry())
    if k == "add_block":
        return bind_b(c[2], env.builder(c[1], C["Cfg"]).add_block(*_types(c[3])))
    if k == "add_successor":
        b = env.builder(c[1], C["Cfg"])
        return bind_b(c[2], b.add_successor(wire_ref(env, c[3])))
    if k == "branch":
        b = env.builder(c[1], C["Cfg"])
        w = wire_ref(env, c[2])
        b.branch(w, node_ref(env, c[3]))
        return ["none"]
    if k == "branch_exit":
        b = env.builder(c[1], C["Cfg"])
        b.branch_exit(wire_ref(env, c[2]))
        return ["none"]

    # ---- conditional
    if k == "add_case":
        b = env.builder(c[1], C["Conditional"])
        return bind_b(c[2], b.add_case(c[3]))
    if k == "exit_conditional":
        env.builder(c[1], C["Conditional"]).__exit__(None, None, None)
        return ["none"]

    # ---- tracked
    if k == "track_wire":
        b = env.builder(c[1], C["TrackedDfg"])
        return ["int", b.track_wire(wire_ref(env, c[2]))]
    if k == "track_wires":
        b = env.builder(c[1], C["TrackedDfg"])
        ws = [wire_ref(env, w) for w in c[2]]
        # `track_wires(wires: Iterable[Wire])`: a list, a tuple or a one-shot iterator, chosen by the command text
        style = len(json.dumps(c[2])) % 3
        return ["ints", b.track_wires(ws if style == 0 else tuple(ws) if style == 1 else iter(ws))]
    if k == "track_inputs":
        return ["ints", env.builder(c[1], C["TrackedDfg"]).track_inputs()]
    if k in ("untrack_wire", "tracked_wire"):
        b = env.builder(c[1], C["TrackedDfg"])
        if not isinstance(c[2], int) or c[2] < 0:
            raise ProgError("negative tracked index")
        p = (b.untrack_wire if k == "untrack_wire" else b.tracked_wire)(c[2]).out_port()
        return ["wire", p.node.idx, p.offset]
    if k == "set_indexed_outputs":
        b = env.builder(c[1], C["TrackedDfg"])
        b.set_indexed_outputs(*[com_wire(env, w) for w in c[2]])
        return ["none"]
    if k == "set_tracked_outputs":
        env.builder(c[1], C["TrackedDfg"]).set_tracked_outputs()
        return ["none"]

    if k == "to_json":
        b = env.builder(c[1])
        docs.append(json.loads(b.hugr.to_json()))
        return ["doc", len(docs) - 1]
    raise ProgError(f"unknown command {k}")


def run_program(prog, env: Env | None = None):
    """Run `prog` on the real builders.  -> {"outcomes": […], "docs": […]}; raises ProgError for programs
    outside the language."""
    env = env or Env()
    outcomes, docs = [], []
    for c in prog:
        try:
            r = exec_cmd(env, c, docs)
        except ProgError:
            raise
        except Exception as e:  # noqa: BLE001
            outcomes.append(["err", exc_name(e)])
            break
        outcomes.append(["ok", r])
    return {"outcomes": outcomes, "docs": docs, "env": env}


def observation(prog) -> str:
    """Canonical observation string of the real builders (JSON text; compared as a JSON value)."""
    try:
        r = run_program(prog)
    except ProgError as e:
        return "outside:" + str(e)
    return json.dumps({"outcomes": r["outcomes"], "docs": r["docs"]}, sort_keys=True, ensure_ascii=False)


# ----------------------------------------------------------------------------- s-expression form


def _sx_types(ts):
    return [bridge.spec_to_sx(t) for t in ts]


def _sx_nr(r):
    if isinstance(r, str):
        return [A("n"), r]
    if r[0] == "raw":
        return [A("raw"), r[1]]
    return [A(r[0]), r[1]]


def _sx_wire(w):
    k = w[0]
    if k in ("out", "idx"):
        return [A(k), _sx_nr(w[1]), w[2]]
    if k == "in":
        return [A("in"), w[1], w[2]]
    if k == "node":
        return [A("node"), _sx_nr(w[1])]
    raise ProgError(f"bad wire {w}")


def _sx_cw(w):
    if isinstance(w, int) and not isinstance(w, bool):
        return [A("t"), w]
    return _sx_wire(w)


def _sx_opt(f, x):
    return A("none") if x is None else f(x)


def _sx_meta(m):
    return A("none") if m is None else [[str(k), bridge.json_to_sx(v)] for k, v in m.items()]


def _sx_op(o):
    """The operation as the model sees it: `(ok O)`, or `(raise Cls)` when its constructor raises."""
    try:
        spec = prog_op_spec(o)
        if isinstance(spec, list) and spec and spec[0] == "@const":
            spec = ["@const", bridge.value_to_spec(bridge.build_value(spec[1]))]
        return [A("ok"), bridge.op_to_sx(spec)]
    except ProgError:
        raise
    except Exception as e:  # noqa: BLE001
        return [A("raise"), A(exc_name(e))]


def _sx_value(v):
    """The constant as the plain value the model holds (std classes via `to_value()`)."""
    return bridge.value_to_sx(bridge.value_to_spec(bridge.build_value(v)))


def _sx_args(a):
    return [bridge.spec_to_sx(x) for x in a]


def cmd_sx(c):
    k = c[0]
    a = A(k)
    if k in ("Dfg", "Cfg"):
        return [a, c[1], _sx_types(c[2])]
    if k == "Function":
        return [a, c[1], c[2], _sx_types(c[3]), [bridge.spec_to_sx(p) for p in c[4]]]
    if k == "Module":
        return [a, c[1]]
    if k == "Conditional":
        return [a, c[1], bridge.spec_to_sx(c[2]), _sx_types(c[3])]
    if k == "TailLoop":
        return [a, c[1], _sx_types(c[2]), _sx_types(c[3])]
    if k == "TrackedDfg":
        return [a, c[1], _sx_types(c[2]), A("true" if c[3] else "false")]
    if k == "add_op":
        return [a, c[1], c[2], _sx_op(c[3]), [_sx_wire(w) for w in c[4]], _sx_meta(c[5])]
    if k == "add":
        return [a, c[1], c[2], _sx_op(c[3]), [_sx_cw(w) for w in c[4]], _sx_meta(c[5])]
    if k == "extend":
        return [a, c[1], list(c[2]), [[_sx_op(o), [_sx_cw(w) for w in ws]] for o, ws in c[3]]]
    if k == "load":
        src = c[3]
        if src[0] == "val":
            return [a, c[1], c[2], [A("val"), _sx_value(src[1]), _sx_opt(_sx_nr, src[2])]]
        return [a, c[1], c[2], [A("const"), _sx_nr(src[1])]]
    if k == "add_const":
        return [a, c[1], c[2], _sx_value(c[3]), _sx_opt(_sx_nr, c[4])]
    if k == "add_alias_defn":
        return [a, c[1], c[2], c[3], bridge.spec_to_sx(c[4]), _sx_opt(_sx_nr, c[5])]
    if k == "add_alias_decl":
        return [a, c[1], c[2], c[3], bridge.spec_to_sx(c[4])]
    if k == "call":
        return [a, c[1], c[2], _sx_nr(c[3]), [_sx_wire(w) for w in c[4]], _sx_opt(bridge.spec_to_sx, c[5]),
                _sx_opt(_sx_args, c[6])]
    if k == "load_function":
        return [a, c[1], c[2], _sx_nr(c[3]), _sx_opt(bridge.spec_to_sx, c[4]), _sx_opt(_sx_args, c[5])]
    if k in ("add_nested", "add_cfg"):
        return [a, c[1], c[2], [_sx_wire(w) for w in c[3]]]
    if k in ("insert_nested", "insert_cfg"):
        return [a, c[1], c[2], c[3], [_sx_wire(w) for w in c[4]]]
    if k in ("add_conditional", "add_if"):
        return [a, c[1], c[2], _sx_wire(c[3]), [_sx_wire(w) for w in c[4]]]
    if k == "insert_conditional":
        return [a, c[1], c[2], c[3], _sx_wire(c[4]), [_sx_wire(w) for w in c[5]]]
    if k == "add_else":
        return [a, c[1], c[2]]
    if k == "add_tail_loop":
        return [a, c[1], c[2], [_sx_wire(w) for w in c[3]], [_sx_wire(w) for w in c[4]]]
    if k == "insert_tail_loop":
        return [a, c[1], c[2], c[3], [_sx_wire(w) for w in c[4]], [_sx_wire(w) for w in c[5]]]
    if k == "define_function":
        return [a, c[1], c[2], c[3], _sx_types(c[4]), _sx_opt(_sx_types, c[5]),
                _sx_opt(lambda ps: [bridge.spec_to_sx(p) for p in ps], c[6]), _sx_opt(_sx_nr, c[7])]
    if k == "define_main":
        return [a, c[1], c[2], _sx_types(c[3])]
    if k == "declare_function":
        return [a, c[1], c[2], c[3], bridge.spec_to_sx(c[4])]
    if k == "declare_outputs":
        return [a, c[1], _sx_types(c[2])]
    if k == "add_state_order":
        return [a, c[1], _sx_nr(c[2]), _sx_nr(c[3])]
    if k in ("set_outputs", "set_single_succ_outputs"):
        return [a, c[1], [_sx_wire(w) for w in c[2]]]
    if k in ("set_block_outputs", "set_loop_outputs"):
        return [a, c[1], _sx_wire(c[2]), [_sx_wire(w) for w in c[3]]]
    if k == "add_entry":
        return [a, c[1], c[2]]
    if k == "add_block":
        return [a, c[1], c[2], _sx_types(c[3])]
    if k == "add_successor":
        return [a, c[1], c[2], _sx_wire(c[3])]
    if k == "branch":
        return [a, c[1], _sx_wire(c[2]), _sx_nr(c[3])]
    if k == "branch_exit":
        return [a, c[1], _sx_wire(c[2])]
    if k == "add_case":
        return [a, c[1], c[2], c[3]]
    if k in ("exit_conditional", "track_inputs", "set_tracked_outputs", "to_json"):
        return [a, c[1]]
    if k == "track_wire":
        return [a, c[1], _sx_wire(c[2])]
    if k == "track_wires":
        return [a, c[1], [_sx_wire(w) for w in c[2]]]
    if k in ("untrack_wire", "tracked_wire"):
        return [a, c[1], c[2]]
    if k == "set_indexed_outputs":
        return [a, c[1], [_sx_cw(w) for w in c[2]]]
    raise ProgError(f"unknown command {k}")


def encoder() -> str:
    from hugr import __version__

    return f"hugr-py v{__version__}"


def prog_sx(prog):
    return [encoder(), [cmd_sx(c) for c in prog]]


def prog_sexp(prog) -> str:
    """Payload of stream `build.run`: ("encoder" (cmd…))."""
    return dumps(prog_sx(prog))


def norm_json(x):
    """floats that are integral compare equal to ints (JSON numbers)"""
    if isinstance(x, float) and x == int(x):
        return int(x)
    if isinstance(x, list):
        return [norm_json(v) for v in x]
    if isinstance(x, dict):
        return {k: norm_json(v) for k, v in x.items()}
    return x


def same_observation(a: str, b: str) -> bool:
    try:
        return norm_json(json.loads(a)) == norm_json(json.loads(b))
    except Exception:  # noqa: BLE001
        return False
