"""Check driver shared by all properties (DESIGN.md §3.3).

A property module `harness/props/<ID>.py` provides:

  PROP            "C18"
  TITLE           one line
  LEAN_TARGETS    lake targets that carry the property theorems (Props.<ID> first)
  RULE            text: how cases are generated and which count as non-trivial
  TRUSTED         list of trusted-base strings (property specific)
  translate(repo, gen_dir) -> list[str]     (optional) regenerate Gen/*.lean; returns problems
  corpus() -> list[spec]                     (optional) fixed regression cases, run first
  cases(rng, tier) -> iterable[spec]         JSON-able case specs
  payload(spec) -> (stream, sexp-string) | None   what the Lean driver is asked (None: no model stream)
  run_impl(spec) -> str                      canonical observation of the real code
  oracle(spec) -> list[Failure]              property evaluated directly on the real code
  nontrivial(spec, obs) -> bool
  stats(spec, obs, counters)                 (optional) update input-distribution counters
  shrink(spec, pred) -> spec                 (optional)
  compare(spec, impl_obs, model_obs) -> bool (optional; default string equality)
  exhaustive(tier) -> bool                   (optional)
"""
from __future__ import annotations

import argparse
import collections
import dataclasses
import fcntl
import hashlib
import importlib
import json
import os
import random
import re
import subprocess
import sys
import time
from pathlib import Path

VERIF = Path(__file__).resolve().parent.parent
LEAN = VERIF / "lean"
REPO = Path(os.environ.get("HUGR_REPO", "/repo"))
SRC = REPO / "hugr-py" / "src"
GEN = LEAN / "HugrVerif" / "Gen"
ALLOWED_AXIOMS = {"propext", "Classical.choice", "Quot.sound"}
FORBIDDEN = re.compile(
    r"\b(sorry|admit|native_decide|bv_decide|implemented_by|unsafe)\b|^\s*axiom\s|maxHeartbeats\s+0\b"
)

if str(SRC) not in sys.path:
    sys.path.insert(0, str(SRC))
if str(VERIF / "harness") not in sys.path:
    sys.path.insert(0, str(VERIF / "harness"))


class InfraError(Exception):
    pass


@dataclasses.dataclass
class Failure:
    """A property failure observed on the implementation."""

    site: str  # failing call site, e.g. "Hugr.delete_link"
    cls: str  # discrepancy class, e.g. "linked_ports-misses-live-link"
    detail: str = ""

    def key(self):
        return (self.site, self.cls)


def source_fingerprint(path) -> str:
    """Fingerprint of a source file that ignores formatting, comments, docstrings and positions (Python: the AST dump;
    other files: the text with blank lines and surrounding whitespace removed)."""
    import ast

    try:
        text = Path(path).read_text()
    except OSError:
        return "missing"
    if str(path).endswith(".py"):
        try:
            tree = ast.parse(text)
        except SyntaxError:
            return "unparsable"
        for node in ast.walk(tree):
            body = getattr(node, "body", None)
            if (isinstance(body, list) and body and isinstance(body[0], ast.Expr)
                    and isinstance(body[0].value, ast.Constant) and isinstance(body[0].value.value, str)):
                node.body = body[1:] or [ast.Pass()]
        text = ast.dump(tree, annotate_fields=False, include_attributes=False)
    else:
        text = "\n".join(x.strip() for x in text.splitlines() if x.strip())
    return hashlib.sha256(text.encode()).hexdigest()[:20]


def sources_changed(prop: str) -> list[str]:
    """Anchor files of the property whose source differs from the pinned fingerprint (harness/model_pins.json,
    DESIGN §3.1).  Not a failure: it only raises the sampling budget of this run."""
    try:
        allpins = json.loads((VERIF / "harness" / "model_pins.json").read_text())
    except (OSError, ValueError):
        return []
    pins = {**allpins.get("*", {}), **allpins.get(prop, {})}
    changed = {f for f, fp in pins.items() if source_fingerprint(REPO / f) != fp}
    # a file added to the package is a change as well
    known = set(allpins.get("*", {}))
    if known:
        changed |= {str(p.relative_to(REPO)) for p in (REPO / "hugr-py" / "src" / "hugr").rglob("*.py")
                    if str(p.relative_to(REPO)) not in known}
    return sorted(changed)


EXTRA_ROUNDS = int(os.environ.get("VERIF_EXTRA_ROUNDS", "3"))


def log(*a):
    print(*a, file=sys.stderr, flush=True)


# --------------------------------------------------------------------------- lean side


def _lake_lock():
    f = open(VERIF / ".lake.lock", "w")
    fcntl.flock(f, fcntl.LOCK_EX)
    return f


def lake_build(targets: list[str], timeout=3600) -> tuple[bool, str]:
    lock = _lake_lock()
    try:
        p = subprocess.run(
            ["lake", "build", *targets],
            cwd=LEAN,
            capture_output=True,
            text=True,
            timeout=timeout,
        )
    except subprocess.TimeoutExpired as e:
        raise InfraError(f"lake build timed out: {e}") from e
    finally:
        lock.close()
    return p.returncode == 0, (p.stdout + p.stderr)


def _strip_comments(text: str) -> str:
    # remove /- ... -/ (nested not used here) and -- line comments
    text = re.sub(r"/-.*?-/", "", text, flags=re.S)
    text = re.sub(r"--.*", "", text)
    # drop string literals (embedded data such as schema text may contain any word)
    text = re.sub(r'"(\\.|[^"\\])*"', '""', text)
    return text


def forbidden_tokens() -> list[str]:
    hits = []
    for f in sorted(LEAN.glob("HugrVerif/**/*.lean")):
        if f.name == "AuditCmd.lean":
            continue
        for i, line in enumerate(_strip_comments(f.read_text()).splitlines(), 1):
            if FORBIDDEN.search(line):
                hits.append(f"{f.relative_to(LEAN)}:{i}: {line.strip()[:80]}")
    return hits


def audit(prop: str) -> tuple[dict[str, list[str]], str]:
    """theorem name -> axioms, for every theorem in namespace HugrVerif.Props.<prop>."""
    audit_file = LEAN / "Audit" / f"{prop}.lean"
    audit_file.parent.mkdir(exist_ok=True)
    want = (
        "import HugrVerif.AuditCmd\n"
        f"import HugrVerif.Props.{prop}\n"
        f"#audit_module HugrVerif.Props.{prop}\n"
    )
    if not audit_file.exists() or audit_file.read_text() != want:
        audit_file.write_text(want)
    p = subprocess.run(
        ["lake", "env", "lean", str(audit_file.relative_to(LEAN))],
        cwd=LEAN,
        capture_output=True,
        text=True,
        timeout=1800,
    )
    out = p.stdout + p.stderr
    res = {}
    for m in re.finditer(r"AUDIT (\S+) \|(.*)", out):
        name = m.group(1)
        if name.startswith(f"HugrVerif.Props.{prop}."):
            res[name] = m.group(2).split()
    return res, out


def import_closure(prop: str) -> list[str]:
    """Modules of this library that `HugrVerif.Props.<prop>` depends on (itself included), by the import lines."""
    seen, todo = [], [f"HugrVerif.Props.{prop}"]
    while todo:
        m = todo.pop()
        if m in seen:
            continue
        f = LEAN / (m.replace(".", "/") + ".lean")
        if not f.exists():
            continue
        seen.append(m)
        for imp in re.findall(r"^import\s+(HugrVerif\.[\w.]+)", f.read_text(), flags=re.M):
            todo.append(imp)
    return sorted(seen)


def leanchecker(prop: str) -> tuple[bool, dict]:
    """Thorough tier: the toolchain's independent re-checker replays every declaration of the property module
    and of every module of this library it depends on through the kernel again (compiled .olean files)."""
    mods = import_closure(prop)
    t = time.time()
    try:
        p = subprocess.run(["lake", "env", "leanchecker", *mods], cwd=LEAN, capture_output=True, text=True, timeout=3600)
        ok, out = p.returncode == 0, (p.stdout + p.stderr)[-1500:]
    except subprocess.TimeoutExpired:
        ok, out = False, "timeout"
    return ok, {"modules": len(mods), "seconds": round(time.time() - t, 1), "accepted": ok, "output": "" if ok else out}


def count_theorems_in_source(prop: str) -> list[str]:
    f = LEAN / "HugrVerif" / "Props" / f"{prop}.lean"
    if not f.exists():
        return []
    return re.findall(r"^\s*theorem\s+(\S+)", _strip_comments(f.read_text()), flags=re.M)


def run_driver(lines: list[str], prop: str, timeout=3600) -> dict[str, str]:
    """Pipe request lines to the Lean driver of `prop`, return case-id -> observation."""
    if not lines:
        return {}
    jobs = int(os.environ.get("VERIF_JOBS", os.cpu_count() or 1))
    if len(lines) >= 400 and jobs > 1:
        import concurrent.futures as cf

        k = min(jobs, max(1, len(lines) // 100))
        parts = [lines[i::k] for i in range(k)]
        out: dict[str, str] = {}
        with cf.ThreadPoolExecutor(k) as ex:
            for r in ex.map(lambda part: _run_driver_one(part, prop, timeout), parts):
                out.update(r)
        return out
    return _run_driver_one(lines, prop, timeout)


def _run_driver_one(lines: list[str], prop: str, timeout=3600) -> dict[str, str]:
    inp = "\n".join(lines) + "\n"
    try:
        p = subprocess.run(
            ["lake", "env", "lean", "--run", f"Drivers/{prop}.lean"],
            cwd=LEAN,
            input=inp,
            capture_output=True,
            text=True,
            timeout=timeout,
        )
    except subprocess.TimeoutExpired as e:
        raise InfraError(f"driver timed out: {e}") from e
    if p.returncode != 0:
        raise InfraError("driver failed: " + (p.stderr or p.stdout)[-2000:])
    out = {}
    for line in p.stdout.splitlines():
        if "\t" not in line:
            continue
        cid, obs = line.split("\t", 1)
        out[cid] = obs
    return out


# --------------------------------------------------------------------------- helpers for modules


def exc_class(e: BaseException, named: tuple[type, ...] = ()) -> str:
    """Most specific class the property/docstring names, else 'Exception'."""
    for c in named:
        if isinstance(e, c):
            return c.__name__
    return "Exception"


def ddmin(items: list, fails) -> list:
    """Delta debugging on a list: smallest sublist (w.r.t. chunk removal) on which `fails` holds."""
    items = list(items)
    n = 2
    while len(items) >= 2:
        chunk = max(1, len(items) // n)
        reduced = False
        for i in range(0, len(items), chunk):
            cand = items[:i] + items[i + chunk :]
            try:
                if cand != items and fails(cand):
                    items = cand
                    n = max(n - 1, 2)
                    reduced = True
                    break
            except Exception:  # noqa: BLE001
                continue
        if not reduced:
            if chunk == 1:
                break
            n = min(len(items), n * 2)
    return items


# --------------------------------------------------------------------------- known findings


def load_known() -> list[dict]:
    f = VERIF / "known_findings.json"
    if not f.exists():
        return []
    return json.loads(f.read_text()).get("findings", [])


# --------------------------------------------------------------------------- main flow


def write_replay(prop, seed, n, body) -> Path:
    d = VERIF / "replays" / prop
    d.mkdir(parents=True, exist_ok=True)
    p = d / f"{seed}-{n}.json"
    body = dict(body)
    body["property"] = prop
    body["command"] = f"./check {prop} --replay {p.relative_to(VERIF)}"
    p.write_text(json.dumps(body, indent=1, default=str))
    return p


def evaluate_case(mod, spec):
    """Run implementation observation + oracle for one spec."""
    # An exception that escapes a property's own adapter or oracle comes, on a tree whose checks ran clean before, from
    # the implementation behaving in a way the adapter did not foresee (a query raising where it never raised): it is an
    # observation and an oracle failure with the case as its replay — not a reason to stop the whole check (a seeded
    # change making `len(hugr)` negative ended the C04 check with an infrastructure error instead of a violation).
    try:
        obs = mod.run_impl(spec)
    except Exception as e:  # noqa: BLE001
        obs = f"!adapter-raised:{type(e).__name__}"
    try:
        fails = mod.oracle(spec)
    except Exception as e:  # noqa: BLE001
        fails = [Failure(f"{getattr(mod, 'PROP', '?')} oracle", "evaluating-the-case-raises", repr(e)[:300])]
    return obs, fails


def safe_impl(mod, spec) -> str:
    """`mod.run_impl(spec)`; an exception escaping the adapter is an observation (see evaluate_case)"""
    try:
        return mod.run_impl(spec)
    except Exception as e:  # noqa: BLE001
        return f"!adapter-raised:{type(e).__name__}"


def safe_oracle(mod, spec):
    """`mod.oracle(spec)`; an exception escaping it is a failure of the case (see evaluate_case)"""
    try:
        return list(mod.oracle(spec))
    except Exception as e:  # noqa: BLE001
        return [Failure(f"{getattr(mod, 'PROP', '?')} oracle", "evaluating-the-case-raises", repr(e)[:300])]


_WORKER_MOD = None


def _worker(args):
    prop, chunk = args
    global _WORKER_MOD
    if _WORKER_MOD is None or _WORKER_MOD.PROP != prop:
        _WORKER_MOD = importlib.import_module(f"props.{prop}")
    return [evaluate_case(_WORKER_MOD, spec) for spec in chunk]


def parallel_eval(prop, specs, jobs=None):
    """Evaluate all specs (implementation observation + oracle), in worker processes when it pays."""
    jobs = jobs or int(os.environ.get("VERIF_JOBS", os.cpu_count() or 1))
    mod = importlib.import_module(f"props.{prop}")
    if jobs <= 1 or len(specs) < 64 or getattr(mod, "SERIAL", False):
        return [evaluate_case(mod, s) for s in specs]
    import multiprocessing as mp

    n = max(1, min(len(specs) // 16, 200))
    chunks = [(prop, specs[i : i + n]) for i in range(0, len(specs), n)]
    with mp.get_context("fork").Pool(jobs) as pool:
        out = pool.map(_worker, chunks)
    return [r for ch in out for r in ch]


def run_check(prop: str, tier: str, seed: int, replay: str | None) -> int:
    t0 = time.time()
    mod = importlib.import_module(f"props.{prop}")
    rng = random.Random(seed)
    violations: list[str] = []
    known_lines: list[str] = []
    notes: list[str] = []
    nrep = 0

    # 1. translate
    problems = []
    if hasattr(mod, "translate"):
        GEN.mkdir(exist_ok=True)
        problems = list(mod.translate(REPO, GEN) or [])
        # a translator that could not read a fact off the syntax and obtained it by running the code instead says so
        notes += [p for p in problems if p.startswith("note: ")]
        problems = [p for p in problems if not p.startswith("note: ")]

    # 2. build
    infra = list(getattr(mod, "DRIVE_TARGETS", [])) + ["HugrVerif.Drive.Loop", "HugrVerif.AuditCmd"]
    targets = list(mod.LEAN_TARGETS) + infra
    ok, build_out = lake_build(targets)
    build_err = ""
    if not ok:
        # distinguish: did the property theorems fail, or shared infrastructure?
        ok_infra, infra_out = lake_build(infra)
        if not ok_infra:
            raise InfraError("lean infrastructure does not build:\n" + infra_out[-3000:])
        build_err = "\n".join(
            l for l in build_out.splitlines() if l.startswith("error") or "error:" in l
        )[:4000] or build_out[-3000:]

    # 3. audit
    theorem_names = count_theorems_in_source(prop)
    discharged = 0
    bad_axioms = {}
    if ok:
        ax, audit_out = audit(prop)
        if not ax:
            raise InfraError("audit produced no theorems:\n" + audit_out[-2000:])
        theorem_names = sorted(ax)
        for name, axs in ax.items():
            extra = set(axs) - ALLOWED_AXIOMS
            if extra:
                bad_axioms[name] = sorted(extra)
            else:
                discharged += 1
    recheck = None
    if ok and tier == "thorough" and not replay:
        rc_ok, recheck = leanchecker(prop)
        if not rc_ok:
            problems.append("leanchecker rejected the compiled modules: " + recheck["output"][-400:])
    forb = forbidden_tokens()
    obligations = len(theorem_names)
    obligations_ok = ok and not bad_axioms and not forb and not problems and obligations > 0

    # 4.-6. cases
    known = [k for k in load_known() if k["property"] == prop and k.get("status") == "open"]
    counters = collections.Counter()
    specs: list = []
    if replay:
        body = json.loads(Path(replay).read_text())
        specs = [body["spec"]] if body.get("spec") is not None else []
    else:
        specs.extend(k["replay"] for k in known if k.get("replay") is not None)
        ncorpus = len(specs)
        if hasattr(mod, "corpus"):
            specs.extend(mod.corpus())
        cdir = VERIF / "corpus" / prop
        if cdir.is_dir():
            for f in sorted(cdir.glob("*.json")):
                specs.append(json.loads(f.read_text())["spec"])
        specs.extend(mod.cases(rng, tier))
        changed = sources_changed(prop)
        if changed and tier == "quick" and EXTRA_ROUNDS > 0:
            # the code the model mirrors is not the code it was written against: look harder (same generators,
            # fresh seeds); agreement on the larger sample is still only agreement — nothing is reported for the change
            for k in range(1, EXTRA_ROUNDS + 1):
                specs.extend(mod.cases(random.Random(seed * 7919 + k), tier))
            notes.append(f"note: source differs from the pinned fingerprint in {', '.join(changed)}: "
                         f"{EXTRA_ROUNDS} extra rounds of generated cases")

    lines = []
    impl_obs: dict[str, str] = {}
    oracle_fail: list[tuple[int, list[Failure]]] = []
    seen = set()
    distinct_nontrivial = 0
    results = parallel_eval(prop, specs)
    for i, spec in enumerate(specs):
        obs, fails = results[i]
        cid = str(i)
        impl_obs[cid] = obs
        pl = mod.payload(spec)
        if pl is not None:
            stream, text = pl
            lines.append(f"{cid}\t{stream}\t{text}")
        if fails:
            oracle_fail.append((i, fails))
        h = hashlib.sha1(json.dumps(spec, sort_keys=True, default=str).encode()).digest()
        if h not in seen:
            seen.add(h)
            if mod.nontrivial(spec, obs):
                distinct_nontrivial += 1
        if hasattr(mod, "stats"):
            mod.stats(spec, obs, counters)

    model_obs = run_driver(lines, prop)
    compare = getattr(mod, "compare", lambda s, a, b: a == b)
    divergences = []
    unsupported = 0
    agreed = 0
    for line in lines:
        cid = line.split("\t", 1)[0]
        mo = model_obs.get(cid)
        if mo is None:
            raise InfraError(f"driver gave no reply for case {cid}")
        if mo.startswith("!unsupported"):
            unsupported += 1
            continue
        if mo.startswith("!"):
            raise InfraError(f"driver protocol error on case {cid}: {mo}: {line[:300]}")
        if compare(specs[int(cid)], impl_obs[cid], mo):
            agreed += 1
        else:
            divergences.append(int(cid))

    # ---- decide
    def attribute(fails: list[Failure]):
        """Split failures into (known entries hit, unknown failures)."""
        hit, unknown = [], []
        for f in fails:
            m = [k for k in known if (k["site"], k["cls"]) == f.key()]
            (hit if m else unknown).append((f, m[0] if m else None))
        return hit, unknown

    shrink = getattr(mod, "shrink", None)
    reported_known = set()
    reported_keys = set()
    for i, fails in oracle_fail:
        hit, unknown = attribute(fails)
        for f, k in hit:
            if k["id"] not in reported_known:
                reported_known.add(k["id"])
                known_lines.append(f"KNOWN-FINDING: property={prop} {k['id']} {k['what']}")
        if unknown:
            spec = specs[i]
            f0 = unknown[0][0]
            if shrink:
                try:
                    spec = shrink(
                        spec, lambda s: any(x.key() == f0.key() for x in safe_oracle(mod, s))
                    )
                except Exception as e:  # noqa: BLE001
                    notes.append(f"shrink failed: {e!r}")
            if f0.key() in reported_keys:
                continue
            reported_keys.add(f0.key())
            if spec is not specs[i]:
                refails = [x for x in safe_oracle(mod, spec)]
            else:
                refails = [u[0] for u in unknown]
            nrep += 1
            p = write_replay(
                prop, seed, nrep,
                {
                    "kind": "impl-violates-property",
                    "tier": tier, "seed": seed, "spec": spec,
                    "failures": [dataclasses.asdict(x) for x in refails],
                    "impl_observation": safe_impl(mod, spec)[:4000],
                },
            )
            violations.append(f"VIOLATION property={prop} replay={p.relative_to(VERIF)}")
            if len(violations) >= 4:
                break

    failing_found = bool(violations)
    if divergences and not failing_found:
        # Broken correspondence: not by itself a violation.  Search for a failing input with the
        # oracle on the thorough budget, starting from the disagreeing cases (already evaluated:
        # they had no oracle failure, otherwise failing_found would be set).
        found = None
        if not replay:
            srng = random.Random(seed ^ 0x5EED)
            for spec in mod.cases(srng, "search"):
                fs = safe_oracle(mod, spec)
                _, unknown = attribute(fs)
                if unknown:
                    found = (spec, unknown)
                    break
        if found:
            spec, unknown = found
            f0 = unknown[0][0]
            if shrink:
                spec = shrink(spec, lambda s: any(x.key() == f0.key() for x in safe_oracle(mod, s)))
            nrep += 1
            p = write_replay(
                prop, seed, nrep,
                {"kind": "impl-violates-property", "tier": tier, "seed": seed, "spec": spec,
                 "failures": [dataclasses.asdict(u[0]) for u in unknown],
                 "found_by": "search after model/implementation divergence"},
            )
            violations.append(f"VIOLATION property={prop} replay={p.relative_to(VERIF)}")
        else:
            i = divergences[0]
            spec = specs[i]
            if shrink:
                def still(s):
                    pl = mod.payload(s)
                    if pl is None:
                        return False
                    mo = run_driver([f"0\t{pl[0]}\t{pl[1]}"], prop).get("0", "")
                    return not mo.startswith("!") and not compare(s, safe_impl(mod, s), mo)
                try:
                    spec = shrink(spec, still)
                except Exception as e:  # noqa: BLE001
                    notes.append(f"shrink failed: {e!r}")
            pl = mod.payload(spec)
            mo = run_driver([f"0\t{pl[0]}\t{pl[1]}"], prop).get("0", "")
            nrep += 1
            p = write_replay(
                prop, seed, nrep,
                {"kind": "model-impl-divergence", "tier": tier, "seed": seed, "spec": spec,
                 "stream": pl[0], "payload": pl[1],
                 "model_observation": mo[:4000], "impl_observation": safe_impl(mod, spec)[:4000],
                 "divergent_cases": len(divergences),
                 "note": "the correspondence between the Lean model and the implementation no longer "
                         "checks; the property theorems are about the model only"},
            )
            violations.append(
                f"VIOLATION property={prop} replay={p.relative_to(VERIF)} no-failing-input-found"
            )

    if not obligations_ok and not failing_found and not violations:
        # Broken proof obligation: search for a failing input (oracle, thorough budget).
        found = None
        if not replay:
            srng = random.Random(seed ^ 0x0B11)
            for spec in mod.cases(srng, "search"):
                fs = safe_oracle(mod, spec)
                _, unknown = attribute(fs)
                if unknown:
                    found = (spec, unknown)
                    break
        body = {
            "kind": "obligation-unchecked", "tier": tier, "seed": seed,
            "lean_errors": build_err, "translator_problems": problems,
            "axioms_outside_trusted_base": bad_axioms, "forbidden_tokens": forb,
            "theorems": theorem_names, "spec": None,
        }
        if hasattr(mod, "obligation_search"):
            # property-specific search for a concrete witness (e.g. a distinguishing document)
            w = mod.obligation_search(build_err, problems)
            if w is not None:
                found = (w["spec"], [(Failure(w["site"], w["cls"], w.get("detail", "")), None)])
        nrep += 1
        if found:
            spec, unknown = found
            body.update(kind="impl-violates-property", spec=spec,
                        failures=[dataclasses.asdict(u[0]) for u in unknown])
            p = write_replay(prop, seed, nrep, body)
            violations.append(f"VIOLATION property={prop} replay={p.relative_to(VERIF)}")
        else:
            p = write_replay(prop, seed, nrep, body)
            violations.append(
                f"VIOLATION property={prop} replay={p.relative_to(VERIF)} no-failing-input-found"
            )

    wall = time.time() - t0
    evidence = {
        "property_id": prop,
        "tier": "thorough" if tier == "thorough" else "quick",
        "seed": seed,
        "level": "proof",
        "coverage": {
            "obligations": obligations,
            "discharged": discharged,
            "checker_cmd": f"cd lean && lake build {' '.join(mod.LEAN_TARGETS)} && lake env lean Audit/{prop}.lean",
            "trusted_base": [
                "Lean 4.33 kernel; axioms of every property theorem within {propext, Classical.choice, Quot.sound} (audited this run)",
                "hand-written Lean model tied to /repo by differential execution on the cases counted below",
                *getattr(mod, "TRUSTED", []),
            ],
            "theorems": theorem_names,
            "evaluations": len(specs),
            "distinct_nontrivial": distinct_nontrivial,
            "rule": mod.RULE,
            "samples": specs[len(known) : len(known) + 3] or specs[:3],
            "traces_validated_against_impl": agreed,
            "model_impl_divergences": len(divergences),
            "model_unsupported": unsupported,
            "oracle_failures": len(oracle_fail),
            "known_findings_seen": sorted(reported_known),
            "exhaustive": bool(getattr(mod, "exhaustive", lambda t: False)(tier)),
            "input_distribution": dict(counters),
            "translator_problems": problems,
            "leanchecker": recheck if recheck is not None else "thorough tier only",
            "notes": notes,
        },
        "assumptions": list(getattr(mod, "ASSUMPTIONS", [])),
        "wall_s": round(wall, 2),
        "violations": len(violations),
    }
    if not replay:
        # evidence describes runs against /repo itself; runs against a scratch copy (HUGR_REPO, used
        # for seeded changes) are kept apart and never committed
        edir = VERIF / "evidence" if REPO == Path("/repo") else VERIF / ".work" / "evidence-scratch"
        edir.mkdir(parents=True, exist_ok=True)
        (edir / f"{prop}.json").write_text(json.dumps(evidence, indent=1, default=str))
    for l in known_lines:
        print(l)
    for l in violations:
        print(l)
    log(
        f"[{prop}] tier={tier} seed={seed} obligations={discharged}/{obligations} cases={len(specs)} "
        f"agreed={agreed} divergences={len(divergences)} oracle_failures={len(oracle_fail)} "
        f"violations={len(violations)} wall={wall:.1f}s"
    )
    return 1 if violations else 0


def setup() -> int:
    """Regenerate every Gen file and build the Lean targets of every property that has a check module."""
    GEN.mkdir(exist_ok=True)
    targets = ["HugrVerif.Drive.Loop", "HugrVerif.AuditCmd"]
    mods = []
    for f in sorted((VERIF / "harness" / "props").glob("C*.py")):
        try:
            mod = importlib.import_module(f"props.{f.stem}")
        except Exception as e:  # noqa: BLE001
            log(f"[setup] cannot import props.{f.stem}: {e!r}")
            continue
        mods.append(mod)
        if hasattr(mod, "translate"):
            try:
                probs = mod.translate(REPO, GEN)
            except Exception as e:  # noqa: BLE001
                probs = [repr(e)]
            if probs:
                log(f"[setup] translator problems for {f.stem}: {probs}")
    rc = 0
    try:
        claimed = {c["property_id"] for c in json.loads((VERIF / "MANIFEST.json").read_text())["checks"]}
    except Exception:  # noqa: BLE001
        claimed = None
    for mod in mods:
        t = list(getattr(mod, "LEAN_TARGETS", [])) + list(getattr(mod, "DRIVE_TARGETS", []))
        ok, out = lake_build(t + targets)
        if not ok:
            log(f"[setup] lean targets of {mod.PROP} do not build:\n" + out[-3000:])
            if claimed is None or mod.PROP in claimed:
                rc = 2
        else:
            log(f"[setup] {mod.PROP}: built")
    return rc


def main(argv=None) -> int:
    ap = argparse.ArgumentParser()
    ap.add_argument("prop", nargs="?")
    ap.add_argument("--tier", default=os.environ.get("VERIF_TIER", "quick"))
    ap.add_argument("--replay")
    ap.add_argument("--setup", action="store_true")
    a = ap.parse_args(argv)
    try:
        if a.setup:
            return setup()
        if not a.prop:
            ap.error("property id required")
        seed = int(os.environ.get("VERIF_SEED", "0"))
        return run_check(a.prop, a.tier, seed, a.replay)
    except InfraError as e:
        log(f"INFRASTRUCTURE ERROR: {e}")
        return 2


if __name__ == "__main__":
    sys.exit(main())
