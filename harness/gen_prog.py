"""Type-directed generator of WELL-FORMED builder programs (DESIGN §4.2, discipline W1–W8 of §5 C01), the
injection of exactly one inconsistency (C13) and program shrinking.

`gen_wf_program(rng, size, opts)` -> program (list of commands of harness/progs.py)

Every open dataflow region keeps a pool of available wires (reference, type, used flag for linear ones).
A command is chosen by weight among the applicable ones; nested regions are generated depth-first, so a wire of
an enclosing region that a nested region uses (Ext) was produced before the nested container (W4); only
copyable wires leave their region (W3/W5), never across a FuncDefn; blocks may additionally use copyable wires
of the blocks that dominate them (Dom); a region is closed by one `set_outputs` after every linear wire has
been consumed (W6); constants are built from the type they are loaded at (W7); every command carries a fresh
operation spec (W8).  All random choices come from `rng`.

opts (all optional):
  family   "dfg" | "function" | "module" | "cfg" | "conditional" | "tailloop" | "tracked" | None (random)
  depth    nesting budget (default 3)
  to_json  emit `to_json` of every top-level builder at the end (default True)
  types    "all" | "simple"       (simple: Bool, Unit, Qubit, USize, int<5>)
  meta     probability of metadata on add_op/add (default 0.2)
  bias     {action: weight multiplier} for the actions custom std tuple noop tag load order call nested
           conditional tail_loop cfg  (e.g. {"cfg": 6} for CFG-rich programs)
"""
from __future__ import annotations

import collections
import copy
import json

import bridge
import progs

BOOL = ["@unit", 2]
UNIT = ["@unit", 1]
QUBIT = "@qubit"
USIZE = "@usize"
EXT = "verif.ext"
OPAQUE_C = ["@opaque", "ctype", "@C", [], EXT]
OPAQUE_A = ["@opaque", "ltype", "@A", [["@nat", 3]], EXT]


def INT(w=5):
    return bridge.std_type("int", ["@nat", w])


def FLOAT():
    return bridge.std_type("float64")


def TUPLE(*ts):
    return ["@sum", [list(ts)]]


def OPTION(*ts):
    return ["@sum", [[], list(ts)]]


def FN(ins, outs):
    return ["@fn", list(ins), list(outs), []]


def teq(a, b):
    return json.dumps(a) == json.dumps(b)


def copyable(t) -> bool:
    if t == QUBIT:
        return False
    if t == USIZE:
        return True
    k = t[0]
    if k == "@unit":
        return True
    if k == "@sum":
        return all(copyable(x) for r in t[1] for x in r)
    if k in ("@var", "@rowvar"):
        return t[2] == "@C"
    if k in ("@fn", "@poly"):
        return True
    if k == "@ext":
        b = t[1][5]
        return b[0] == "@explicit" and b[1] == "@C"
    if k == "@opaque":
        return t[2] == "@C"
    if k == "@alias":
        return t[2] == "@C"
    raise ValueError(t)


def sum_rows(t):
    """rows of a sum type spec, or None"""
    if isinstance(t, list) and t[0] == "@unit":
        return [[] for _ in range(t[1])]
    if isinstance(t, list) and t[0] == "@sum":
        return t[1]
    return None


def subst(t, args):
    """substitute type variables by the types `args[i]`"""
    if isinstance(t, list):
        if t[0] == "@var":
            return args[t[1]]
        if t[0] == "@sum":
            return ["@sum", [[subst(x, args) for x in r] for r in t[1]]]
        if t[0] == "@fn":
            return ["@fn", [subst(x, args) for x in t[1]], [subst(x, args) for x in t[2]], t[3]]
    return t


class Wire:
    __slots__ = ("w", "t", "used", "lin")

    def __init__(self, w, t):
        self.w, self.t, self.used, self.lin = w, t, False, not copyable(t)


class Region:
    def __init__(self, b, kind, in_types, parent=None, boundary=False, tyvars=(), doms=()):
        self.b = b
        self.kind = kind  # dfg function case block tailloop tracked
        self.pool = [Wire(["in", b, k], t) for k, t in enumerate(in_types)]
        self.parent = parent
        self.boundary = boundary
        self.tyvars = list(tyvars)
        self.doms = list(doms)  # dominating block regions (Dom wires)
        self.order_nodes = []  # NRs of nodes with order ports, in creation order
        self.consts = []  # (NR of a Const node, type)
        self.depth = 0 if parent is None else parent.depth + 1
        # calls refer to function nodes of the module's HUGR: only regions of that HUGR may call them
        self.calls = parent.calls if parent is not None else False

    def visible(self):
        """wires that may be consumed here: own (unused if linear), Ext and Dom copyable ones"""
        out = [w for w in self.pool if not (w.lin and w.used)]
        r = self
        while r.parent is not None and not r.boundary:
            r = r.parent
            out.extend(w for w in r.pool if not w.lin)
        for d in self.doms:
            out.extend(w for w in d.pool if not w.lin)
        return out

    def nonlocal_(self, w):
        return w not in self.pool


class Gen:
    def __init__(self, rng, size, opts=None):
        self.rng = rng
        self.opts = dict(opts or {})
        self.prog = []
        self.budget = max(1, size)
        self.nb = 0
        self.nn = 0
        self.funcs = []  # module-level functions: dict(nr, params, ins, outs, callable)
        self.mod = None
        self.tops = []
        self.stats = collections.Counter()
        self.depth_budget = self.opts.get("depth", 3)
        self.simple = self.opts.get("types", "all") == "simple"

    # ------------------------------------------------------------------ names / emit
    def fb(self):
        self.nb += 1
        return f"b{self.nb}"

    def fn(self):
        self.nn += 1
        return f"n{self.nn}"

    def emit(self, c):
        self.prog.append(c)
        self.budget -= 1
        self.stats["cmd:" + c[0]] += 1

    # ------------------------------------------------------------------ types
    def gen_type(self, tyvars=(), depth=2, copy_only=False):
        rng = self.rng
        for _ in range(20):
            t = self._gen_type(tyvars, depth)
            if not copy_only or copyable(t):
                return t
        return BOOL

    def _gen_type(self, tyvars, depth):
        rng = self.rng
        r = rng.random()
        if self.simple:
            return rng.choice([BOOL, BOOL, UNIT, QUBIT, USIZE, INT(5)])
        if depth <= 0 or r < 0.55:
            base = [BOOL, BOOL, UNIT, QUBIT, QUBIT, USIZE, INT(5), INT(rng.choice([3, 6])), FLOAT(), OPAQUE_C, OPAQUE_A,
                    ["@unit", 3]]
            if tyvars and rng.random() < 0.4:
                return rng.choice(tyvars)
            return rng.choice(base)
        if r < 0.67:
            return TUPLE(*[self._gen_type(tyvars, depth - 1) for _ in range(rng.randint(0, 3))])
        if r < 0.77:
            return OPTION(*[self._gen_type(tyvars, depth - 1) for _ in range(rng.randint(1, 2))])
        if r < 0.9:
            return ["@sum", [[self._gen_type(tyvars, depth - 1) for _ in range(rng.randint(0, 2))]
                             for _ in range(rng.randint(2, 3))]]
        return FN([self._gen_type(tyvars, depth - 1) for _ in range(rng.randint(0, 2))],
                  [self._gen_type(tyvars, depth - 1) for _ in range(rng.randint(0, 2))])

    def gen_row(self, tyvars=(), lo=0, hi=3, copy_only=False):
        return [self.gen_type(tyvars, 2, copy_only) for _ in range(self.rng.randint(lo, hi))]

    # ------------------------------------------------------------------ constants
    def const_of(self, t, depth=3):
        """a value spec of type `t`, or None"""
        rng = self.rng
        if t == USIZE or t == QUBIT:
            return None
        k = t[0]
        if k == "@unit":
            if t[1] == 0:
                return None
            if t[1] == 2 and rng.random() < 0.5:
                return ["@bool", rng.random() < 0.5]
            if t[1] == 1 and rng.random() < 0.5:
                return "@unit"
            return ["@unitsum", rng.randrange(t[1]), t[1]]
        if k == "@ext":
            name = t[1][2]
            if name == "int":
                w = t[2][0][1]
                return ["@int", rng.randrange(0, 1 << min(1 << w, 16)), w]
            if name == "float64":
                return ["@float", rng.choice(["0.0", "1.5", "-2.25", "3.0"])]
            return None
        if k == "@sum" and depth > 0:
            rows = t[1]
            order = list(range(len(rows)))
            rng.shuffle(order)
            for i in order:
                vals = [self.const_of(x, depth - 1) for x in rows[i]]
                if all(v is not None for v in vals):
                    if len(rows) == 1 and rng.random() < 0.5:
                        return ["@vtuple", vals]
                    if len(rows) == 2 and rng.random() < 0.5:
                        # the Either / Option helpers (which take iterables of values and of types)
                        if rows[0] == [] and rng.random() < 0.5:
                            return ["@some", vals] if i == 1 else ["@none", rows[1]]
                        return ["@left", vals, rows[1]] if i == 0 else ["@right", rows[0], vals]
                    return ["@vsum", i, t, vals]
            return None
        if k == "@fn" and not t[3]:
            if teq(t[1], t[2]) and all(x[0] != "@var" if isinstance(x, list) else True for x in t[1]):
                return ["@fndfg", t[1], list(range(len(t[1]))), []]
        return None

    def meta(self):
        rng = self.rng
        if rng.random() < self.opts.get("meta", 0.2):
            return rng.choice([{"k": 1}, {"name": "x", "v": [1, 2]}, {"a": {"b": None}}, {"é": "ü"}, {}])
        return None

    # ------------------------------------------------------------------ wires
    def out_ref(self, nr, k, nout=None):
        """a reference to output k of node nr (sometimes through the checked `idx` form)"""
        if nout is not None and self.rng.random() < 0.35:
            return ["idx", nr, k]
        return ["out", nr, k]

    def use(self, region, w):
        if w.lin:
            w.used = True
        if region.nonlocal_(w):
            self.stats["nonlocal-wires"] += 1
        return w.w

    def candidates(self, region, pred=None):
        return [w for w in region.visible() if pred is None or pred(w.t)]

    def pick(self, region, pred=None):
        c = self.candidates(region, pred)
        return self.rng.choice(c) if c else None

    def push(self, region, w, t):
        region.pool.append(Wire(w, t))

    def materialize(self, region, t):
        """a wire of type t in `region` (an existing one, a loaded constant, or a source operation)"""
        rng = self.rng
        c = self.candidates(region, lambda x: teq(x, t))
        if c and rng.random() < 0.8:
            return self.use(region, rng.choice(c))
        if copyable(t) and rng.random() < 0.6:
            v = self.const_of(t)
            if v is not None:
                n = self.fn()
                self.emit(["load", region.b, n, ["val", v, None]])
                self.note_node(region, n, order=True)
                return self.out_ref(n, 0, 1)
        n = self.fn()
        self.emit_op(region, n, self.custom([], [t]), [])
        self.note_node(region, n, order=True)
        return self.out_ref(n, 0, 1)

    def note_node(self, region, n, order):
        if order:
            region.order_nodes.append(n)

    def custom(self, ins, outs, name=None):
        rng = self.rng
        return ["@custom", name or rng.choice(["op", "f", "g.h", "é"]), ["@fn", ins, outs, rng.choice([[], [], [EXT]])],
                rng.choice(["", "desc"]), EXT, []]

    def emit_op(self, region, n, op, wires):
        """add_op or add (Command form)"""
        if self.rng.random() < 0.5:
            self.emit(["add_op", region.b, n, op, wires, self.meta()])
        else:
            self.emit(["add", region.b, n, op, wires, self.meta()])

    def sink(self, region):
        """consume every unused linear wire of the region"""
        rest = [w for w in region.pool if w.lin and not w.used]
        self.rng.shuffle(rest)
        while rest:
            chunk, rest = rest[:3], rest[3:]
            n = self.fn()
            self.emit_op(region, n, self.custom([w.t for w in chunk], [], "sink"), [self.use(region, w) for w in chunk])
            self.note_node(region, n, True)

    # ------------------------------------------------------------------ actions inside a region
    def act_custom(self, region):
        rng = self.rng
        k = rng.choice([0, 1, 1, 2, 2, 3])
        ws = []
        for _ in range(k):
            w = self.pick(region)
            if w is None:
                break
            ws.append(w)
            if w.lin:
                w.used = True
        ws_refs = [self.use(region, w) for w in ws]
        outs = self.gen_row(region.tyvars, 0, 3)
        n = self.fn()
        self.emit_op(region, n, self.custom([w.t for w in ws], outs), ws_refs)
        self.note_node(region, n, True)
        for j, t in enumerate(outs):
            self.push(region, self.out_ref(n, j, len(outs)), t)
        if len(outs) > 1:
            self.stats["multi-output-ops"] += 1

    def act_std(self, region):
        rng = self.rng
        b = self.pick(region, lambda t: teq(t, BOOL))
        i5 = self.candidates(region, lambda t: isinstance(t, list) and t[0] == "@ext" and t[1][2] == "int")
        n = self.fn()
        if b is not None and (not i5 or rng.random() < 0.5):
            self.emit_op(region, n, ["@std", "Not"], [self.use(region, b)])
            self.push(region, self.out_ref(n, 0, 1), BOOL)
        elif i5:
            a = rng.choice(i5)
            same = [w for w in i5 if teq(w.t, a.t)]
            c = rng.choice(same)
            wd = a.t[2][0][1]
            self.emit_op(region, n, ["@std", "DivMod", wd], [self.use(region, a), self.use(region, c)])
            self.push(region, self.out_ref(n, 0, 2), a.t)
            if rng.random() < 0.5:  # partially used multi-output op otherwise
                self.push(region, self.out_ref(n, 1, 2), a.t)
            else:
                self.stats["partially-used-outputs"] += 1
        else:
            return self.act_custom(region)
        self.note_node(region, n, True)

    def act_tuple(self, region):
        rng = self.rng
        tup = self.pick(region, lambda t: isinstance(t, list) and ((t[0] == "@sum" and len(t[1]) == 1) or t == UNIT))
        n = self.fn()
        if tup is not None and rng.random() < 0.5:
            row = sum_rows(tup.t)[0]
            self.emit_op(region, n, ["@unpacktuple", "@none"], [self.use(region, tup)])
            for j, t in enumerate(row):
                self.push(region, self.out_ref(n, j, len(row)), t)
        else:
            ws = []
            for _ in range(rng.randint(0, 3)):
                w = self.pick(region)
                if w is None:
                    break
                if w.lin:
                    w.used = True
                ws.append(w)
            self.emit_op(region, n, ["@maketuple", "@none"], [self.use(region, w) for w in ws])
            self.push(region, self.out_ref(n, 0, 1), TUPLE(*[w.t for w in ws]))
        self.note_node(region, n, True)

    def act_noop(self, region):
        w = self.pick(region)
        if w is None:
            return self.act_custom(region)
        n = self.fn()
        self.emit_op(region, n, ["@noop", "@none"], [self.use(region, w)])
        self.push(region, self.out_ref(n, 0, 1), w.t)
        self.note_node(region, n, True)

    def act_tag(self, region):
        rng = self.rng
        ws = []
        for _ in range(rng.randint(0, 2)):
            w = self.pick(region)
            if w is None:
                break
            if w.lin:
                w.used = True
            ws.append(w)
        row = [w.t for w in ws]
        form = rng.random()
        n = self.fn()
        refs = [self.use(region, w) for w in ws]
        if form < 0.2:
            op, t = ["@some", row], OPTION(*row)
        elif form < 0.35:
            other = self.gen_row(region.tyvars, 0, 2)
            op, t = ["@left", row, other], ["@sum", [row, other]]
        elif form < 0.5:
            other = self.gen_row(region.tyvars, 0, 2)
            op, t = ["@right", other, row], ["@sum", [other, row]]
        else:
            nrows = rng.randint(1, 3)
            k = rng.randrange(nrows)
            rows = [row if i == k else self.gen_row(region.tyvars, 0, 2) for i in range(nrows)]
            op, t = ["@tag", k, ["@gsum", rows]], ["@sum", rows]
        self.emit_op(region, n, op, refs)
        self.push(region, self.out_ref(n, 0, 1), t)
        self.note_node(region, n, True)

    def act_load(self, region):
        rng = self.rng
        for _ in range(6):
            t = self.gen_type((), 2, copy_only=True)
            v = self.const_of(t)
            if v is not None:
                break
        else:
            t, v = BOOL, ["@bool", True]
        n = self.fn()
        r = rng.random()
        if r < 0.25:
            c = self.fn()
            self.emit(["add_const", region.b, c, v, ["b", region.b]])
            region.consts.append((c, t))
            self.emit(["load", region.b, n, ["const", c]])
        elif r < 0.4 and region.parent is not None and not region.boundary:
            self.emit(["load", region.b, n, ["val", v, ["b", region.parent.b]]])
        else:
            self.emit(["load", region.b, n, ["val", v, None]])
        # the type of the loaded wire is the type the VALUE reports
        self.push(region, self.out_ref(n, 0, 1), value_type(v, t))
        self.note_node(region, n, True)

    def act_order(self, region):
        rng = self.rng
        ns = region.order_nodes
        r = rng.random()
        if len(ns) >= 2 and r < 0.6:
            i, j = sorted(rng.sample(range(len(ns)), 2))
            self.emit(["add_state_order", region.b, ns[i], ns[j]])
        elif ns and r < 0.8:
            self.emit(["add_state_order", region.b, ["input", region.b], rng.choice(ns)])
        elif ns:
            self.emit(["add_state_order", region.b, rng.choice(ns), ["output", region.b]])
        else:
            self.emit(["add_state_order", region.b, ["input", region.b], ["output", region.b]])
        self.stats["order-edges"] += 1

    def act_call(self, region):
        rng = self.rng
        fs = [f for f in self.funcs if f["callable"]]
        if not fs:
            return self.act_custom(region)
        f = rng.choice(fs)
        params = f["params"]
        targs = None
        inst = None
        ins, outs = f["ins"], f["outs"]
        if params:
            tys_ = [self.gen_type(region.tyvars, 1, copy_only=(p[1] == "@C")) for p in params if p[0] == "@ptype"]
            targs = [["@ty", t] for t in tys_] + [
                ["@str", rng.choice(["s", "é"])] if p == "@pstr" else ["@nat", rng.choice([0, 3, 7])]
                for p in params if p[0] != "@ptype"]
            ins = [subst(t, tys_) for t in ins]
            outs = [subst(t, tys_) for t in outs]
            inst = FN(ins, outs)
            self.stats["polymorphic-calls"] += 1
        n = self.fn()
        if rng.random() < 0.75:
            args = [self.materialize(region, t) for t in ins]
            self.emit(["call", region.b, n, f["nr"], args, inst, targs])
            self.note_node(region, n, True)
            for j, t in enumerate(outs):
                self.push(region, self.out_ref(n, j, len(outs)), t)
        else:
            self.emit(["load_function", region.b, n, f["nr"], inst, targs])
            self.note_node(region, n, True)
            ft = FN(ins, outs)
            if rng.random() < 0.6:
                args = [self.materialize(region, t) for t in ins]
                m = self.fn()
                self.emit_op(region, m, ["@callind", "@none"], [["out", n, 0], *args])
                self.note_node(region, m, True)
                for j, t in enumerate(outs):
                    self.push(region, self.out_ref(m, j, len(outs)), t)
            else:
                self.push(region, ["out", n, 0], ft)

    def take_args(self, region, lo=0, hi=3, pred=None):
        ws = []
        for _ in range(self.rng.randint(lo, hi)):
            w = self.pick(region, pred)
            if w is None:
                break
            if w.lin:
                w.used = True
            ws.append(w)
        return ws

    def act_nested(self, region):
        rng = self.rng
        if rng.random() < 0.3:
            # a standalone Dfg inserted afterwards (no Ext wires: it is a separate HUGR)
            ins = self.gen_row(region.tyvars, 0, 2)
            b = self.fb()
            self.emit(["Dfg", b, ins])
            inner = Region(b, "dfg", ins, None, True, region.tyvars)
            self.fill(inner, rng.randint(0, 3))
            outs = self.close(inner)
            args = [self.materialize(region, t) for t in ins]
            n = self.fn()
            self.emit(["insert_nested", region.b, n, b, args])
            self.note_node(region, n, True)
            for j, t in enumerate(outs):
                self.push(region, self.out_ref(n, j, len(outs)), t)
            return
        ws = self.take_args(region)
        b = self.fb()
        self.emit(["add_nested", region.b, b, [self.use(region, w) for w in ws]])
        inner = Region(b, "dfg", [w.t for w in ws], region, False, region.tyvars)
        self.fill(inner, rng.randint(0, 4))
        outs = self.close(inner)
        self.note_node(region, ["b", b], True)
        for j, t in enumerate(outs):
            self.push(region, self.out_ref(["b", b], j, len(outs)), t)

    def act_conditional(self, region):
        rng = self.rng
        sw = self.pick(region, lambda t: sum_rows(t) is not None and 1 <= len(sum_rows(t)) <= 3)
        if sw is None:
            # make a sum first
            self.act_tag(region)
            sw = self.pick(region, lambda t: sum_rows(t) is not None and 1 <= len(sum_rows(t)) <= 3)
            if sw is None:
                return
        if sw.lin:
            sw.used = True
        rows = sum_rows(sw.t)
        other = self.take_args(region, 0, 2)
        out_row = self.gen_row(region.tyvars, 0, 2)
        refs = [self.use(region, sw)] + [self.use(region, w) for w in other]
        if len(rows) == 2 and rng.random() < 0.5:
            # if / else
            i = self.fb()
            self.emit(["add_if", region.b, i, refs[0], refs[1:]])
            r1 = Region(i, "case", rows[1] + [w.t for w in other], region, False, region.tyvars)
            self.fill(r1, rng.randint(0, 2))
            self.close(r1, out_row)
            e = self.fb()
            self.emit(["add_else", i, e])
            r0 = Region(e, "case", rows[0] + [w.t for w in other], region, False, region.tyvars)
            self.fill(r0, rng.randint(0, 2))
            self.close(r0, out_row)
            nr = ["cond_node", e]
            self.stats["if-else"] += 1
        else:
            c = self.fb()
            standalone = rng.random() < 0.2
            if standalone:
                sm = ["@usum", sw.t[1]] if sw.t[0] == "@unit" else ["@gsum", rows]
                self.emit(["Conditional", c, sm, [w.t for w in other]])
            else:
                self.emit(["add_conditional", region.b, c, refs[0], refs[1:]])
            order = list(range(len(rows)))
            rng.shuffle(order)
            for k in order:
                cb = self.fb()
                self.emit(["add_case", c, cb, k])
                rk = Region(cb, "case", rows[k] + [w.t for w in other], None if standalone else region, standalone,
                            region.tyvars)
                self.fill(rk, rng.randint(0, 2))
                self.close(rk, out_row)
            self.emit(["exit_conditional", c])
            if standalone:
                n = self.fn()
                self.emit(["insert_conditional", region.b, n, c, refs[0], refs[1:]])
                nr = n
            else:
                nr = ["b", c]
            self.stats["conditionals"] += 1
        self.note_node(region, nr, True)
        for j, t in enumerate(out_row):
            self.push(region, self.out_ref(nr, j, len(out_row)), t)

    def act_tail_loop(self, region):
        rng = self.rng
        ji = self.take_args(region, 0, 2)
        rest = self.take_args(region, 0, 2)
        jo = self.gen_row(region.tyvars, 0, 2)
        jit, rt = [w.t for w in ji], [w.t for w in rest]
        t = self.fb()
        standalone = rng.random() < 0.2
        a, b_ = [self.use(region, w) for w in ji], [self.use(region, w) for w in rest]
        if standalone:
            self.emit(["TailLoop", t, jit, rt])
        else:
            self.emit(["add_tail_loop", region.b, t, a, b_])
        body = Region(t, "tailloop", jit + rt, None if standalone else region, standalone, region.tyvars)
        self.fill(body, rng.randint(0, 3))
        # the control value Sum([just_inputs, just_outputs])
        k = rng.randrange(2)
        row = [jit, jo][k]
        ws = [self.materialize(body, x) for x in row]
        n = self.fn()
        op = ["@continue", jit, jo] if k == 0 else ["@break", jit, jo]
        if rng.random() < 0.5:
            op = ["@tag", k, ["@gsum", [jit, jo]]]
        self.emit_op(body, n, op, ws)
        self.note_node(body, n, True)
        restw = [self.materialize(body, x) for x in rt]
        self.sink(body)
        if rng.random() < 0.5:
            self.emit(["set_loop_outputs", t, ["out", n, 0], restw])
        else:
            self.emit(["set_outputs", t, [["out", n, 0], *restw]])
        if standalone:
            m = self.fn()
            self.emit(["insert_tail_loop", region.b, m, t, a, b_])
            nr = m
        else:
            nr = ["b", t]
        self.note_node(region, nr, True)
        outs = jo + rt
        for j, x in enumerate(outs):
            self.push(region, self.out_ref(nr, j, len(outs)), x)
        self.stats["tail-loops"] += 1

    # ------------------------------------------------------------------ CFG
    def act_cfg(self, region):
        rng = self.rng
        ws = self.take_args(region)
        c = self.fb()
        ins = [w.t for w in ws]
        standalone = rng.random() < 0.2
        refs = [self.use(region, w) for w in ws]
        if standalone:
            self.emit(["Cfg", c, ins])
        else:
            self.emit(["add_cfg", region.b, c, refs])
        exit_row = self.gen_row(region.tyvars, 0, 2)
        e = self.fb()
        self.emit(["add_entry", c, e])
        entry = Region(e, "block", ins, None if standalone else region, standalone, region.tyvars)
        self.gen_block(c, entry, rng.randint(0, 2), exit_row, [], [])
        if standalone:
            n = self.fn()
            self.emit(["insert_cfg", region.b, n, c, refs])
            nr = n
        else:
            nr = ["b", c]
        self.note_node(region, nr, True)
        for j, t in enumerate(exit_row):
            self.push(region, self.out_ref(nr, j, len(exit_row)), t)
        self.stats["cfgs"] += 1

    def gen_block(self, c, blk, level, exit_row, doms, ancestors):
        """fill block `blk`, set its outputs, and generate its successors (depth-first)"""
        rng = self.rng
        self.stats["blocks"] += 1
        self.fill(blk, rng.randint(0, 3))
        if level <= 0 or self.budget <= 0:
            ws = [self.materialize(blk, t) for t in exit_row]
            self.sink(blk)
            if rng.random() < 0.6:
                self.emit(["set_single_succ_outputs", blk.b, ws])
            else:
                u = self.materialize(blk, UNIT)
                self.emit(["set_block_outputs", blk.b, u, ws])
            self.emit_exit(c, ["out", ["b", blk.b], 0])
            return
        nsucc = rng.randint(1, 3)
        targets = []
        for _ in range(nsucc):
            r = rng.random()
            backs = [a for a in ancestors if a[2]]  # (name, input row, may-be-branched-to)
            if r < 0.25:
                targets.append(("exit", None))
            elif r < 0.4 and backs:
                targets.append(("back", rng.choice(backs)))
            else:
                targets.append(("new", None))
        if all(k == "back" for k, _ in targets):
            # every path must be able to reach the exit block (else the CFG never gets its outputs)
            targets[-1] = ("exit", None)
        fixed = [exit_row if k == "exit" else a[1] for k, a in targets if k != "new"]
        other = []
        if fixed:
            # a common suffix of the fixed successor rows may be passed as `other_outputs`
            n = 0
            while all(len(f) > n for f in fixed) and all(teq(f[-1 - n], fixed[0][-1 - n]) for f in fixed):
                n += 1
            take = rng.randint(0, n)
            other = fixed[0][len(fixed[0]) - take:] if take else []
        elif rng.random() < 0.4:
            other = self.gen_row(blk.tyvars, 0, 1)
        rows = []
        for k, a in targets:
            if k == "new":
                rows.append(self.gen_row(blk.tyvars, 0, 2))
            else:
                full = exit_row if k == "exit" else a[1]
                rows.append(full[: len(full) - len(other)])
        k = rng.randrange(nsucc)
        vals = [self.materialize(blk, t) for t in rows[k]]
        n = self.fn()
        self.emit_op(blk, n, ["@tag", k, ["@gsum", rows]], vals)
        self.note_node(blk, n, True)
        ows = [self.materialize(blk, t) for t in other]
        self.sink(blk)
        if rng.random() < 0.5:
            self.emit(["set_block_outputs", blk.b, ["out", n, 0], ows])
        else:
            self.emit(["set_outputs", blk.b, [["out", n, 0], *ows]])
        me = (blk.b, [w.t for w in blk.pool if w.w[0] == "in"], blk.kind == "block" and bool(ancestors))
        for i, (kind, a) in enumerate(targets):
            src = ["idx", ["b", blk.b], i] if rng.random() < 0.4 else ["out", ["b", blk.b], i]
            if kind == "exit":
                self.emit_exit(c, src)
            elif kind == "back":
                self.emit(["branch", c, src, ["b", a[0]]])
                self.stats["back-edges"] += 1
            else:
                nb = self.fb()
                row = rows[i] + other
                if rng.random() < 0.7:
                    self.emit(["add_successor", c, nb, src])
                else:
                    self.emit(["add_block", c, nb, row])
                    self.emit(["branch", c, src, ["b", nb]])
                sub = Region(nb, "block", row, blk.parent, blk.boundary, blk.tyvars, doms + [blk])
                self.gen_block(c, sub, level - 1, exit_row, doms + [blk], ancestors + [me])

    def emit_exit(self, c, src):
        if self.rng.random() < 0.6:
            self.emit(["branch_exit", c, src])
        else:
            self.emit(["branch", c, src, ["exit", c]])

    # ------------------------------------------------------------------ fill / close
    def fill(self, region, steps):
        rng = self.rng
        for _ in range(steps):
            if self.budget <= 0:
                break
            acts = [(self.act_custom, 5), (self.act_std, 2), (self.act_tuple, 2), (self.act_noop, 1),
                    (self.act_tag, 2), (self.act_load, 3), (self.act_order, 1)]
            if self.funcs and region.calls:
                acts.append((self.act_call, 4))
            if region.depth < self.depth_budget:
                acts += [(self.act_nested, 2), (self.act_conditional, 2), (self.act_tail_loop, 1), (self.act_cfg, 1)]
            bias = self.opts.get("bias")
            if bias:
                acts = [(f, w * bias.get(f.__name__[4:], 1)) for f, w in acts]
            tot = sum(w for _, w in acts)
            x = rng.random() * tot
            for f, w in acts:
                x -= w
                if x < 0:
                    f(region)
                    break

    def close(self, region, required=None):
        """consume the linear wires and set the outputs; returns the output row"""
        rng = self.rng
        if required is None:
            avail = [w for w in region.pool if not (w.lin and w.used)]
            rng.shuffle(avail)
            chosen = avail[: rng.randint(0, min(3, len(avail)))]
            for w in chosen:
                if w.lin:
                    w.used = True
            refs = [self.use(region, w) for w in chosen]
            row = [w.t for w in chosen]
        else:
            refs = [self.materialize(region, t) for t in required]
            row = list(required)
        self.sink(region)
        if rng.random() < 0.15:
            self.act_order(region)
        self.emit(["set_outputs", region.b, refs])
        return row

    # ------------------------------------------------------------------ families
    def top_dfg(self):
        b = self.fb()
        ins = self.gen_row((), 0, 3)
        self.emit(["Dfg", b, ins])
        r = Region(b, "dfg", ins, None, True)
        self.fill(r, max(1, self.budget))
        self.close(r)
        self.tops.append(b)

    def top_function(self):
        rng = self.rng
        b = self.fb()
        params = [["@ptype", rng.choice(["@C", "@A"])] for _ in range(rng.choice([0, 0, 1, 2]))]
        tv = [["@var", i, p[1]] for i, p in enumerate(params)]
        ins = self.gen_row(tv, 0, 3)
        self.emit(["Function", b, rng.choice(["f", "main", "g"]), ins, params])
        r = Region(b, "function", ins, None, True, tv)
        if rng.random() < 0.4:
            outs = self.gen_row(tv, 0, 2)
            self.emit(["declare_outputs", b, outs])
            self.fill(r, max(1, self.budget))
            self.close(r, outs)
        else:
            self.fill(r, max(1, self.budget))
            self.close(r)
        self.tops.append(b)

    def top_module(self):
        rng = self.rng
        m = self.fb()
        self.emit(["Module", m])
        self.mod = m
        nf = rng.randint(1, 4)
        pending = []
        per = max(2, self.budget // (nf + 1))
        for i in range(nf):
            r = rng.random()
            params = [["@ptype", rng.choice(["@C", "@A"])] for _ in range(rng.choice([0, 0, 0, 1, 2]))]
            tv = [["@var", j, p[1]] for j, p in enumerate(params)]
            if rng.random() < 0.2:
                # parameters that are not types (after the type parameters, so that the variable indices stand):
                # a natural number with or without an upper bound, a string
                params = params + [rng.choice([["@pnat", "@none"], ["@pnat", "@none"], ["@pnat", 7], "@pstr"])
                                   for _ in range(rng.randint(1, 2))]
            ins = self.gen_row(tv, 0, 2)
            if r < 0.2:
                outs = self.gen_row(tv, 0, 2)
                n = self.fn()
                self.emit(["declare_function", m, n, f"decl{i}", ["@poly", params, ins, outs, []]])
                self.funcs.append(dict(nr=n, params=params, ins=ins, outs=outs, callable=True))
                continue
            f = self.fb()
            declared = rng.random() < 0.6
            outs = self.gen_row(tv, 0, 2) if declared else None
            if not params and rng.random() < 0.25 and not declared:
                self.emit(["define_main", m, f, ins])
            else:
                self.emit(["define_function", m, f, f"fn{i}", ins, outs, params or None, None])
            rec = dict(nr=["b", f], params=params, ins=ins, outs=outs, callable=declared)
            self.funcs.append(rec)
            pending.append((f, ins, outs, tv, rec))
            if rng.random() < 0.3:
                c = self.fn()
                v = self.const_of(BOOL)
                self.emit(["add_const", m, c, v, None])
        rng.shuffle(pending)
        for f, ins, outs, tv, rec in pending:
            self.budget = max(self.budget, per)
            r = Region(f, "function", ins, None, True, tv)
            r.calls = True
            self.fill(r, rng.randint(1, per))
            row = self.close(r, outs)
            rec["outs"] = row
            rec["callable"] = True
        self.tops.append(m)

    def top_cfg(self):
        rng = self.rng
        c = self.fb()
        ins = self.gen_row((), 0, 2)
        self.emit(["Cfg", c, ins])
        exit_row = self.gen_row((), 0, 2)
        e = self.fb()
        self.emit(["add_entry", c, e])
        entry = Region(e, "block", ins, None, True)
        self.gen_block(c, entry, rng.randint(1, 3), exit_row, [], [])
        self.tops.append(c)

    def top_conditional(self):
        rng = self.rng
        c = self.fb()
        if rng.random() < 0.3:
            n = rng.randint(1, 3)
            sm, rows = ["@usum", n], [[] for _ in range(n)]
        else:
            rows = [self.gen_row((), 0, 2) for _ in range(rng.randint(1, 3))]
            sm = ["@gsum", rows]
        other = self.gen_row((), 0, 2)
        self.emit(["Conditional", c, sm, other])
        out_row = self.gen_row((), 0, 2)
        order = list(range(len(rows)))
        rng.shuffle(order)
        for k in order:
            cb = self.fb()
            self.emit(["add_case", c, cb, k])
            rk = Region(cb, "case", rows[k] + other, None, True)
            self.fill(rk, rng.randint(0, max(1, self.budget // len(rows))))
            self.close(rk, out_row)
        self.emit(["exit_conditional", c])
        self.tops.append(c)

    def top_tailloop(self):
        rng = self.rng
        t = self.fb()
        jit, rt, jo = self.gen_row((), 0, 2), self.gen_row((), 0, 2), self.gen_row((), 0, 2)
        self.emit(["TailLoop", t, jit, rt])
        body = Region(t, "tailloop", jit + rt, None, True)
        self.fill(body, max(1, self.budget))
        k = rng.randrange(2)
        ws = [self.materialize(body, x) for x in [jit, jo][k]]
        n = self.fn()
        self.emit_op(body, n, ["@tag", k, ["@gsum", [jit, jo]]], ws)
        restw = [self.materialize(body, x) for x in rt]
        self.sink(body)
        self.emit(["set_loop_outputs", t, ["out", n, 0], restw])
        self.tops.append(t)

    def top_tracked(self):
        rng = self.rng
        t = self.fb()
        ins = [rng.choice([QUBIT, QUBIT, BOOL, INT(5)]) for _ in range(rng.randint(1, 4))]
        ti = rng.random() < 0.7
        self.emit(["TrackedDfg", t, ins, ti])
        r = Region(t, "tracked", ins, None, True)
        tracked = [w if ti else None for w in r.pool] if ti else []
        if not ti and rng.random() < 0.7:
            self.emit(["track_inputs", t])
            tracked = list(r.pool)
        steps = max(1, self.budget)
        for _ in range(steps):
            live = [i for i, w in enumerate(tracked) if w is not None]
            x = rng.random()
            if x < 0.55 and live:
                k = rng.randint(1, min(2, len(live)))
                idxs = rng.sample(live, k)
                tys_ = [tracked[i].t for i in idxs]
                n = self.fn()
                extra = self.gen_row((), 0, 1, copy_only=True)
                op = self.custom(tys_, tys_ + extra, "gate")
                self.emit(["add", t, n, op, list(idxs), self.meta()])
                for pos, i in enumerate(idxs):
                    tracked[i].used = True
                    nw = Wire(["out", n, pos], tys_[pos])
                    r.pool.append(nw)
                    tracked[i] = nw
                for j, x_ in enumerate(extra):
                    self.push(r, ["out", n, len(tys_) + j], x_)
                r.order_nodes.append(n)
            elif x < 0.7:
                # generic commands must not consume the wires the tracked indices denote
                held = [w for w in tracked if w is not None and w.lin and not w.used]
                for w in held:
                    w.used = True
                self.fill(r, 1)
                for w in held:
                    w.used = False
            elif x < 0.8:
                c = [w for w in r.pool if not w.used and w not in tracked]
                if c:
                    w = rng.choice(c)
                    self.emit(["track_wire", t, w.w])
                    tracked.append(w)
            elif x < 0.9 and live:
                i = rng.choice(live)
                self.emit(["untrack_wire", t, i])
                tracked[i] = None
            else:
                if live:
                    self.emit(["tracked_wire", t, rng.choice(live)])
        # tracked wires are outputs; everything else linear is sunk
        for w in tracked:
            if w is not None and w.lin:
                w.used = True
        self.sink(r)
        if rng.random() < 0.5:
            self.emit(["set_tracked_outputs", t])
        else:
            live = [i for i, w in enumerate(tracked) if w is not None]
            self.emit(["set_indexed_outputs", t, live])
        self.tops.append(t)

    def run(self):
        fam = self.opts.get("family") or self.rng.choice(
            ["dfg", "dfg", "function", "module", "module", "cfg", "conditional", "tailloop", "tracked"])
        self.stats["family:" + fam] += 1
        getattr(self, "top_" + fam)()
        if self.opts.get("to_json", True):
            for b in self.tops:
                self.emit(["to_json", b])
        return self.prog


def value_type(v, t):
    """the type spec the loaded wire has: what the VALUE reports (`Value.type_()`), which for the sugar
    constructors is a particular spelling of `t`"""
    if v == "@unit":
        return UNIT
    k = v[0]
    if k == "@bool":
        return BOOL
    if k == "@unitsum":
        return ["@unit", v[2]]
    if k == "@vtuple":
        return TUPLE(*[value_type(x, None) for x in v[1]])
    if k == "@vsum":
        return v[2]
    if k == "@int":
        return INT(v[2])
    if k == "@float":
        return FLOAT()
    if k == "@fndfg":
        return FN(v[1], [v[1][i] for i in v[2]])
    if k == "@some":
        return OPTION(*[value_type(x, None) for x in v[1]])
    if k == "@none":
        return OPTION(*v[1])
    if k == "@left":
        return ["@sum", [[value_type(x, None) for x in v[1]], list(v[2])]]
    if k == "@right":
        return ["@sum", [list(v[1]), [value_type(x, None) for x in v[2]]]]
    return t


def gen_wf_program(rng, size, opts=None):
    g = Gen(rng, size, opts)
    return g.run()


def gen_wf_program_stats(rng, size, opts=None):
    g = Gen(rng, size, opts)
    p = g.run()
    return p, g.stats


# =============================================================================================
# C13: exactly one inconsistency
# =============================================================================================

CLASSES = [
    "no_sibling", "not_in_cfg", "case_outputs_differ", "case_out_of_range", "case_twice", "exit_unbuilt",
    "exit_mismatch", "declared_mismatch", "poly_no_inst", "poly_wrong_count", "non_function",
    "non_dataflow_port", "int_untracked", "untracked_index", "serialize_incomplete",
]

# the exception class(es) the builders document for each inconsistency
EXPECT = {
    "no_sibling": ["NoSiblingAncestor"],
    "not_in_cfg": ["NotInSameCfg"],
    "case_outputs_differ": ["ConditionalError"],
    "case_out_of_range": ["ConditionalError"],
    "case_twice": ["ConditionalError"],
    "exit_unbuilt": ["ConditionalError"],
    "exit_mismatch": ["MismatchedExit"],
    "declared_mismatch": ["ValueError"],
    "poly_no_inst": ["NoConcreteFunc"],
    "poly_wrong_count": ["NoConcreteFunc"],
    "non_function": ["ValueError", "InvalidPort"],
    "non_dataflow_port": ["ValueError", "InvalidPort"],
    "int_untracked": ["ValueError"],
    "untracked_index": ["IndexError"],
    "serialize_incomplete": ["IncompleteOp"],
}


def cmd_defs(c):
    """(builder names, node names) a command binds"""
    k = c[0]
    if k in ("Dfg", "Function", "Module", "Cfg", "Conditional", "TailLoop", "TrackedDfg"):
        return [c[1]], []
    if k in ("add_nested", "add_cfg", "add_conditional", "add_if", "add_else", "add_tail_loop", "define_function",
             "define_main", "add_entry", "add_block", "add_successor", "add_case"):
        return [c[2]], []
    if k in ("add_op", "add", "load", "add_const", "add_alias_defn", "add_alias_decl", "call", "load_function",
             "insert_nested", "insert_cfg", "insert_conditional", "insert_tail_loop", "declare_function"):
        return [], [c[2]]
    if k == "extend":
        return [], list(c[2])
    return [], []


def wire_list(c):
    """the list of plain wire arguments of a command that may be extended / edited freely, or None"""
    k = c[0]
    if k in ("add_op", "call", "insert_nested", "insert_cfg"):
        return c[4]
    if k == "add":
        return c[4]
    if k in ("add_nested", "add_cfg"):
        return c[3]
    if k in ("add_conditional", "add_if"):
        return c[4]
    if k == "insert_conditional":
        return c[5]
    if k in ("set_outputs", "set_single_succ_outputs"):
        return c[2]
    if k in ("set_block_outputs", "set_loop_outputs"):
        return c[3]
    return None


class Probe:
    """the WF program run on the real builders, with what is bound when"""

    def __init__(self, prog):
        self.prog = prog
        r = progs.run_program(prog)
        self.ok = all(o[0] == "ok" for o in r["outcomes"]) and len(r["outcomes"]) == len(prog)
        self.env = r["env"]
        self.bdef, self.ndef, self.nhugr = {}, {}, {}
        for i, c in enumerate(prog):
            bs, ns = cmd_defs(c)
            for b in bs:
                self.bdef.setdefault(b, i)
            for n in ns:
                self.ndef.setdefault(n, i)
                if c[1] in self.env.b and n in self.env.n:
                    self.nhugr[n] = self.env.b[c[1]].hugr

    def builder(self, name):
        return self.env.b.get(name)

    def kind(self, name):
        return type(self.env.b[name]).__name__

    def chain(self, hugr, idx):
        """idx and its ancestors"""
        from hugr.hugr.node_port import Node

        out = []
        cur = idx
        while cur is not None:
            out.append(cur)
            p = hugr[Node(cur)].parent
            cur = None if p is None else p.idx
        return out

    def nodes_before(self, i, hugr):
        return [n for n, j in self.ndef.items() if j < i and self.nhugr.get(n) is hugr and n in self.env.n]

    def has_value_out(self, hugr, n):
        from hugr.hugr.node_port import OutPort

        try:
            return hugr.port_type(OutPort(self.env.n[n].to_node(), 0)) is not None
        except Exception:  # noqa: BLE001
            return False


def _edit_wire(rng, c, new_wire):
    """replace a random plain wire argument of (a copy of) `c` by `new_wire`, or append it"""
    c = copy.deepcopy(c)
    ws = wire_list(c)
    cand = [j for j, w in enumerate(ws) if not isinstance(w, int)]
    if cand and rng.random() < 0.7:
        ws[rng.choice(cand)] = new_wire
    else:
        ws.insert(rng.randint(0, len(ws)), new_wire)
    return c


def _foreign_nodes(pr, i, b, in_cfg=None):
    """node variables bound before command i, in the HUGR of builder b, with a value output, that are not
    children of the target region or of one of its ancestors (no sibling-ancestor relation); with `in_cfg`
    additionally not inside that CFG node"""
    bo = pr.builder(b)
    H = bo.hugr
    tgt_chain = pr.chain(H, bo.parent_node.idx)
    out = []
    for n in pr.nodes_before(i, H):
        idx = pr.env.n[n].to_node().idx
        p = H[pr.env.n[n]].parent
        if p is None or p.idx in tgt_chain:
            continue
        if not pr.has_value_out(H, n):
            continue
        if in_cfg is not None and in_cfg in pr.chain(H, idx):
            continue
        out.append(n)
    return out


def _spent_index(pr, name):
    """index of the command that inserts the HUGR of builder `name` into another one (len(prog) if none):
    building on it afterwards is outside the model (W8)"""
    H = pr.env.b[name].hugr
    for i, c in enumerate(pr.prog):
        if c[0] in ("insert_nested", "insert_cfg", "insert_conditional", "insert_tail_loop") \
                and c[3] in pr.env.b and pr.env.b[c[3]].hugr is H:
            return i
    return len(pr.prog)


def _declared_function(pr, b, i):
    """does function builder b have declared outputs before command i"""
    for j, c in enumerate(pr.prog[:i]):
        if c[0] == "define_function" and c[2] == b and c[5] is not None:
            return True
        if c[0] == "declare_outputs" and c[1] == b:
            return True
    return False


def _lookalike_value(t):
    """a constant whose type differs from the sum type `t` only as a unit sum differs from a general sum with the same
    number of variants; None for other types"""
    from hugr import tys

    if not isinstance(t, tys.Sum) or not t.variant_rows:
        return None
    k = len(t.variant_rows)
    if all(len(r) == 0 for r in t.variant_rows):
        return ["@vsum", 0, ["@sum", [[BOOL]] + [[] for _ in range(k - 1)]], [["@bool", True]]]
    return ["@vsum", 0, ["@unit", k], []]


def _lookalike_output(pr, c):
    """(position, value spec) for one wire of the `set_outputs` command `c` whose type has a look-alike, or None"""
    try:
        bo = pr.builder(c[1])
        for j in range(len(c[2]) - 1, -1, -1):
            w = progs.wire_ref(pr.env, c[2][j])
            v = _lookalike_value(bo.hugr.port_type(w.out_port()))
            if v is not None:
                return j, v
    except Exception:  # noqa: BLE001
        return None
    return None


def inject_inconsistency(rng, prog, cls):
    """-> {"prog", "pos", "cls", "expect"} with exactly one inconsistency of class `cls` (command `pos` must
    raise), or None when the program offers no place for it."""
    try:
        pr = Probe(prog)
    except progs.ProgError:
        return None
    if not pr.ok:
        return None
    C = progs._classes()
    n = len(prog)

    def result(p, pos):
        return {"prog": p, "pos": pos, "cls": cls, "expect": EXPECT[cls]}

    def replace_at(i, c):
        return prog[:i] + [c] + prog[i + 1:]

    def insert_at(i, cs):
        return prog[:i] + list(cs) + prog[i:]

    if cls == "no_sibling" and rng.random() < 0.2:
        # the ROOT of the HUGR as the source of a wire (it has no parent, hence no sibling ancestor), once the root
        # operation is complete: after the `set_outputs` of a top-level dataflow builder with at least one output
        tops = []
        for i, c in enumerate(prog):
            if c[0] == "set_outputs" and c[1] in pr.env.b and c[2]:
                bo = pr.builder(c[1])
                if type(bo) is C["Dfg"] and bo.hugr.root == bo.parent_node and _spent_index(pr, c[1]) >= len(prog) - 1:
                    tops.append((i, c[1]))
        if tops:
            i, b = rng.choice(tops)
            j = i + 1
            bad = [rng.choice(["add_op", "add"]), b, "nroot_inj", ["@noop", "@none"], [["out", ["root", b], 0]], None]
            return result(insert_at(j, [bad]), j)

    if cls in ("no_sibling", "not_in_cfg"):
        cands = []
        for i, c in enumerate(prog):
            if wire_list(c) is None or c[1] not in pr.env.b:
                continue
            bo = pr.builder(c[1])
            if not isinstance(bo, C["DfBase"]):
                continue
            is_block = type(bo) is C["Block"]
            if (cls == "not_in_cfg") != is_block:
                continue
            if c[0] == "set_outputs" and isinstance(bo, C["Function"]) and _declared_function(pr, c[1], i):
                continue
            cfg = bo.hugr[bo.parent_node].parent.idx if is_block else None
            fs = _foreign_nodes(pr, i, c[1], cfg)
            if fs:
                cands.append((i, fs))
        if not cands:
            return None
        i, fs = rng.choice(cands)
        return result(replace_at(i, _edit_wire(rng, prog[i], ["out", rng.choice(fs), 0])), i)

    if cls in ("case_outputs_differ", "declared_mismatch"):
        cands = []
        if cls == "case_outputs_differ":
            groups = {}
            for i, c in enumerate(prog):
                if c[0] == "add_case":
                    groups.setdefault(c[1], []).append(c[2])
                if c[0] == "add_if":
                    groups.setdefault(("if", c[2]), []).append(c[2])
                if c[0] == "add_else":
                    groups.setdefault(("if", c[1]), []).append(c[2])
            for g, cases in groups.items():
                sets = [i for i, c in enumerate(prog) if c[0] == "set_outputs" and c[1] in cases]
                cands.extend(sets[1:])
        else:
            for i, c in enumerate(prog):
                if c[0] == "set_outputs" and c[1] in pr.env.b and type(pr.builder(c[1])) is C["Function"] \
                        and _declared_function(pr, c[1], i):
                    cands.append(i)
        if not cands:
            return None
        i = rng.choice(cands)
        c = copy.deepcopy(prog[i])
        if c[2] and rng.random() < 0.3:
            # a row of the SAME length that differs in one type only, and there only by a look-alike: a unit sum against a
            # general sum with as many variants (seeded change C13-13: an asymmetric `Sum.__eq__` taking that pair as equal)
            la = _lookalike_output(pr, c)
            if la is not None:
                j, vspec = la
                nx = "nla_inj"
                c[2] = c[2][:j] + [["out", nx, 0]] + c[2][j + 1:]
                pre = ["load", c[1], nx, ["val", vspec, None]]
                return result(prog[:i] + [pre, c] + prog[i + 1:], i + 1)
        if c[2] and rng.random() < 0.7:
            c[2] = c[2][:-1]
            return result(replace_at(i, c), i)
        nx = "nx_inj"
        c[2] = c[2] + [["out", nx, 0]]
        pre = ["load", c[1], nx, ["val", ["@vsum", 0, ["@unit", 7], []], None]]
        return result(prog[:i] + [pre, c] + prog[i + 1:], i + 1)

    if cls == "case_out_of_range":
        cands = [i for i, c in enumerate(prog) if c[0] == "add_case" and c[1] in pr.env.b]
        if not cands:
            return None
        i = rng.choice(cands)
        c = copy.deepcopy(prog[i])
        c[3] = len(pr.builder(c[1])._case_builders) + rng.choice([0, 0, 1, 5])
        return result(replace_at(i, c), i)

    if cls == "case_twice":
        cands = [i for i, c in enumerate(prog) if c[0] == "add_case"]
        if not cands:
            return None
        i = rng.choice(cands)
        j = rng.randint(i + 1, max(i + 1, _spent_index(pr, prog[i][1])))
        c = copy.deepcopy(prog[i])
        c[2] = c[2] + "_again"
        return result(insert_at(j, [c]), j)

    if cls == "exit_unbuilt":
        cands = []
        for name, i0 in pr.bdef.items():
            if name in pr.env.b and isinstance(pr.builder(name), C["Conditional"]):
                adds = [i for i, c in enumerate(prog) if c[0] == "add_case" and c[1] == name]
                if adds:
                    cands.append((name, i0, adds[-1]))
        if not cands:
            return None
        name, i0, last = rng.choice(cands)
        j = rng.randint(i0 + 1, last)
        return result(insert_at(j, [["exit_conditional", name]]), j)

    if cls == "exit_mismatch":
        cands = []
        for name, i0 in pr.bdef.items():
            bo = pr.env.b.get(name)
            if not isinstance(bo, C["Cfg"]):
                continue
            exits = [i for i, c in enumerate(prog)
                     if (c[0] == "branch_exit" and c[1] == name)
                     or (c[0] == "branch" and c[1] == name and c[3] == ["exit", name])]
            if not exits:
                continue
            X = bo._exit_op._cfg_outputs
            blocks = [c[2] for c in prog if c[0] in ("add_entry", "add_block", "add_successor") and c[1] == name]
            found = []
            for blk in blocks:
                bb = pr.env.b[blk]
                op = bo.hugr[bb.parent_node].op
                if op._sum is None:
                    continue
                setpos = [i for i, c in enumerate(prog) if c[1] == blk and c[0] in
                          ("set_outputs", "set_block_outputs", "set_single_succ_outputs")]
                for k in range(len(op._sum.variant_rows)):
                    if op.nth_outputs(k) != X:
                        found.append((blk, k, max(setpos[0], exits[0])))
            cands.append((name, exits[0], X, found))
        if not cands:
            return None
        name, e0, X, found = rng.choice(cands)
        if found and rng.random() < 0.8:
            blk, k, after = rng.choice(found)
            j = rng.randint(after + 1, max(after + 1, _spent_index(pr, name)))
            w = ["out", ["b", blk], k]
            # both ways of branching to the exit block: `branch_exit(w)` and `branch(w, cfg.exit)`
            bad = ["branch_exit", name, w] if rng.random() < 0.5 else ["branch", name, w, ["exit", name]]
            return result(insert_at(j, [bad]), j)
        # a fresh block whose single successor row differs from the exit row
        from hugr import tys

        j = rng.randint(e0 + 1, max(e0 + 1, _spent_index(pr, name)))
        ws = [] if X != [] else [["out", "nx_inj", 0]]
        pre = [["add_block", name, "bx_inj", []]]
        la = _lookalike_value(X[0]) if len(X) == 1 else None
        if la is not None and rng.random() < 0.7:
            # a one-element exit row against its look-alike (unit sum / general sum with as many variants)
            ws = [["out", "nx_inj", 0]]
            pre.append(["load", "bx_inj", "nx_inj", ["val", la, None]])
        elif ws:
            pre.append(["load", "bx_inj", "nx_inj", ["val", ["@bool", True], None]])
        pre.append(["set_single_succ_outputs", "bx_inj", ws])
        w = ["out", ["b", "bx_inj"], 0]
        bad = ["branch_exit", name, w] if rng.random() < 0.5 else ["branch", name, w, ["exit", name]]
        return result(insert_at(j, [*pre, bad]), j + len(pre))

    if cls in ("poly_no_inst", "poly_wrong_count"):
        cands = [i for i, c in enumerate(prog) if c[0] in ("call", "load_function")
                 and (c[5] if c[0] == "call" else c[4]) is not None]
        if not cands:
            return None
        i = rng.choice(cands)
        c = copy.deepcopy(prog[i])
        ii, ai = (5, 6) if c[0] == "call" else (4, 5)
        if cls == "poly_no_inst":
            c[ii] = None
            if rng.random() < 0.5:
                c[ai] = None
        else:
            r = rng.random()
            if r < 0.4:
                c[ai] = c[ai][:-1]
            elif r < 0.8:
                c[ai] = c[ai] + [["@ty", BOOL]]
            else:
                c[ai] = None if len(c[ai]) else c[ai] + [["@nat", 3]]
        return result(replace_at(i, c), i)

    if cls == "non_function":
        from hugr import tys
        from hugr.hugr.node_port import OutPort

        cands = [i for i, c in enumerate(prog) if c[0] in ("call", "load_function") and c[1] in pr.env.b]
        rng.shuffle(cands)
        for i in cands:
            bo = pr.builder(prog[i][1])
            H = bo.hugr
            opts_ = []
            for nm in pr.nodes_before(i, H):
                nd = pr.env.n[nm].to_node()
                try:
                    kd = H[nd].op.port_kind(OutPort(nd, 0))
                except Exception:  # noqa: BLE001
                    continue
                if not isinstance(kd, tys.FunctionKind):
                    opts_.append(nm)
            try:
                if len(bo._input_op().types) > 0:
                    opts_.append(["input", prog[i][1]])
            except Exception:  # noqa: BLE001
                pass
            if opts_:
                c = copy.deepcopy(prog[i])
                c[3] = rng.choice(opts_)
                return result(replace_at(i, c), i)
        return None

    if cls == "non_dataflow_port":
        from hugr import ops

        cands = []
        for i, c in enumerate(prog):
            if wire_list(c) is None or c[1] not in pr.env.b:
                continue
            bo = pr.builder(c[1])
            if not isinstance(bo, C["DfBase"]):
                continue
            H = bo.hugr
            sib = []
            for nm in pr.nodes_before(i, H):
                nd = pr.env.n[nm]
                p = H[nd].parent
                if p is not None and p.idx == bo.parent_node.idx:
                    op = H[nd].op
                    if isinstance(op, ops.Const):
                        sib.append(["out", nm, 0])
                    elif isinstance(op, ops.DataflowOp) or isinstance(op, ops.Call):
                        sib.append(["out", nm, -1])
            sib.append(["out", ["input", c[1]], -1])
            # the static (function) port of a function declaration / definition that the target can see (its parent is
            # the builder's region or an ancestor of it): a function is called or loaded, never wired as a value
            # (seeded change C13-14: `Hugr.port_type` answering for FuncDefn / FuncDecl nodes)
            chain = pr.chain(H, bo.parent_node.idx)
            fn = []
            for nm in pr.nodes_before(i, H):
                nd = pr.env.n[nm]
                p = H[nd].parent
                if isinstance(H[nd].op, (ops.FuncDecl, ops.FuncDefn)) and p is not None and p.idx in chain:
                    fn.append(["out", nm, 0])
            for nm, j in pr.bdef.items():
                fb = pr.env.b.get(nm)
                if j < i and type(fb) is C["Function"] and fb.hugr is H and fb.parent_node.idx != H.root.idx:
                    p = H[fb.parent_node].parent
                    if p is not None and p.idx in chain and fb.parent_node.idx not in chain:
                        fn.append(["out", ["b", nm], 0])
            if fn and rng.random() < 0.5:
                sib = fn
            cands.append((i, sib))
        if not cands:
            return None
        i, sib = rng.choice(cands)
        return result(replace_at(i, _edit_wire(rng, prog[i], rng.choice(sib))), i)

    if cls == "int_untracked":
        cands = []
        for i, c in enumerate(prog):
            if c[0] in ("add", "extend") and c[1] in pr.env.b and not isinstance(pr.builder(c[1]), C["TrackedDfg"]):
                cands.append(i)
        if not cands:
            return None
        i = rng.choice(cands)
        c = copy.deepcopy(prog[i])
        ws = c[4] if c[0] == "add" else rng.choice(c[3])[1]
        k = rng.choice([0, 0, 1, 3])
        if ws and rng.random() < 0.7:
            ws[rng.randrange(len(ws))] = k
        else:
            ws.insert(rng.randint(0, len(ws)), k)
        return result(replace_at(i, c), i)

    if cls == "untracked_index":
        cands = [i for i, c in enumerate(prog)
                 if c[0] in ("add", "set_indexed_outputs", "untrack_wire", "tracked_wire")
                 and c[1] in pr.env.b and isinstance(pr.builder(c[1]), C["TrackedDfg"])]
        if not cands:
            return None
        i = rng.choice(cands)
        # the tracked list just before command i
        pre = progs.run_program(prog[:i])
        tr = pre["env"].b[prog[i][1]].tracked
        holes = [k for k, w in enumerate(tr) if w is None]
        bad = rng.choice(holes) if holes and rng.random() < 0.6 else len(tr) + rng.choice([0, 0, 1, 4])
        c = copy.deepcopy(prog[i])
        if c[0] in ("untrack_wire", "tracked_wire"):
            c[2] = bad
        else:
            ws = c[4] if c[0] == "add" else c[2]
            ints = [j for j, w in enumerate(ws) if isinstance(w, int)]
            if ints and rng.random() < 0.7:
                ws[rng.choice(ints)] = bad
            else:
                ws.insert(rng.randint(0, len(ws)), bad)
        return result(replace_at(i, c), i)

    if cls == "serialize_incomplete":
        # positions j such that, after prog[:j], some HUGR holds an incomplete operation
        order = list(range(1, n))
        rng.shuffle(order)
        for j in order[:12]:
            pre = progs.run_program(prog[:j])
            env = pre["env"]
            names = [b for b in env.b if incomplete_hugr(env.b[b].hugr)]
            # … or, judged from the program alone: a dataflow builder that was opened and has not been given its outputs
            # yet — its Output node has no types, whatever the operation object says about itself (seeded change C13-16:
            # `Output._types` defaulting to the empty row, so that a function with declared outputs and an open body
            # serialises)
            closing = ("set_outputs", "set_block_outputs", "set_single_succ_outputs", "set_loop_outputs",
                       "set_indexed_outputs", "set_tracked_outputs")
            closed = {c[1] for c in prog[:j] if c[0] in closing}
            names += [b for b, i0 in pr.bdef.items()
                      if i0 < j and b in env.b and b not in closed and b not in names and isinstance(env.b[b], C["DfBase"])]
            if names:
                return result(insert_at(j, [["to_json", rng.choice(names)]]), j)
        return None

    raise ValueError(cls)


def incomplete_hugr(h) -> bool:
    """does the HUGR hold an operation with an unset (None) type field — read off the dataclass fields"""
    from hugr import ops

    for n in h:
        op = h[n].op
        for attr in ("_types", "_outputs", "_sum", "_other_outputs", "_cfg_outputs", "_typ", "_just_outputs",
                     "_signature", "_type"):
            if hasattr(op, attr) and getattr(op, attr) is None and not isinstance(op, ops.ExtOp):
                return True
    return False


def shrink_program(prog, pred, keep=()):
    """delta debugging on the command list; `pred(program)` must hold for the result.  Commands at the
    indices `keep` are never removed.  Programs that fall outside the language (unbound names) do not
    satisfy `pred`."""
    import core

    tagged = [(c, i in keep) for i, c in enumerate(prog)]

    def fails(items):
        if not all(any(x is y for y in items) for x in tagged if x[1]):
            return False
        try:
            return bool(pred([c for c, _ in items]))
        except progs.ProgError:
            return False

    out = core.ddmin(tagged, fails)
    return [c for c, _ in out]


# =============================================================================================
# C15: tracked circuits and their reference elaboration
# =============================================================================================


def gen_tracked_circuit(rng, width, ncmds, opts=None):
    """A `TrackedDfg` circuit of the given width: 1..ncmds commands with mixed int / wire arguments, untracked
    holes, per-node metadata, `extend`, ending in set_indexed_outputs / set_tracked_outputs and `to_json`.
    With probability opts["bad"] (default 0.04) one command names an index that is not tracked."""
    opts = dict(opts or {})
    g = Gen(rng, ncmds, {"meta": opts.get("meta", 0.6), "types": "simple"})
    t = "t"
    types = [rng.choice([QUBIT, QUBIT, BOOL, INT(5)]) for _ in range(width)]
    ti = rng.random() < 0.6
    prog = g.prog
    g.emit(["TrackedDfg", t, types, ti])
    r = Region(t, "tracked", types, None, True)
    table = list(r.pool) if ti else []
    for w in table:
        w.used = True  # held by the index table
    bad_at = rng.randrange(ncmds) if rng.random() < opts.get("bad", 0.04) else -1

    def bad_index():
        holes = [i for i, w in enumerate(table) if w is None]
        return rng.choice(holes) if holes and rng.random() < 0.6 else len(table) + rng.choice([0, 0, 1, 3])

    def free_wires(pred=None):
        return [w for w in r.pool if not (w.lin and w.used) and w not in table and (pred is None or pred(w.t))]

    def gate_args(k, pending=()):
        """k arguments: tracked indices (a copyable one possibly twice) and free wires, with their types (`pending`: nodes of the
        `extend` call being assembled — their outputs cannot be named yet)"""
        live = [i for i, w in enumerate(table) if w is not None]
        rng.shuffle(live)
        args, tys_ = [], []
        for _ in range(k):
            fw = free_wires()
            held = [w for w in table if w is not None and copyable(w.t) and not (w.w[0] == "out" and w.w[1] in pending)]
            dup = [a for a in args if isinstance(a, int) and copyable(table[a].t)]
            if dup and rng.random() < 0.2:
                # the same index again in one command (a copyable value used twice): both arguments denote the wire
                # tracked BEFORE the command, the index ends up at the output of the later position
                i = rng.choice(dup)
                args.append(i)
                tys_.append(table[i].t)
            elif held and rng.random() < 0.12:
                # a wire that is (also) tracked, passed EXPLICITLY: an ordinary use of a copyable value; the index
                # keeps denoting it
                w = rng.choice(held)
                args.append(w.w)
                tys_.append(w.t)
            elif live and (not fw or rng.random() < 0.7):
                i = live.pop()
                args.append(i)
                tys_.append(table[i].t)
            elif fw:
                w = rng.choice(fw)
                if w.lin:
                    w.used = True
                args.append(w.w)
                tys_.append(w.t)
        return args, tys_

    def after_add(n, args, outs, defer=None):
        """`defer`: collect the new free wires instead of making them available (inside one `extend` call the
        later commands cannot name the outputs of the earlier ones except through indices)"""
        sink_ = r.pool if defer is None else defer
        for pos, a in enumerate(args):
            nw = Wire(["out", n, pos], outs[pos])
            if isinstance(a, int):
                nw.used = True
                table[a] = nw
            sink_.append(nw)
        for pos in range(len(args), len(outs)):
            sink_.append(Wire(["out", n, pos], outs[pos]))

    def gate(args, tys_):
        extra = g.gen_row((), 0, 1, copy_only=True)
        # an output at an integer position keeps the type (the index keeps denoting a value of that type)
        outs = [ty if isinstance(a, int) or rng.random() < 0.6 else g.gen_type((), 0) for a, ty in zip(args, tys_)]
        return g.custom(tys_, outs + extra, rng.choice(["H", "CX", "Rz", "gate"])), outs + extra

    layers = []  # (key, kind, [(op, args, outs)]) — commands whose arguments are all indices, re-appliable

    def replay_layer():
        """the SAME Command objects applied once more (`layer = [H(0), CX(0, 1)]; extend(*layer); extend(*layer)`):
        every index denotes the wire most recently stored there, at each application"""
        key, kind, items = rng.choice(layers)
        for _, args, _ in items:
            if any(a >= len(table) or table[a] is None for a in args):
                return False
        if kind == "add":
            op, args, outs = items[0]
            if any(not teq(table[a].t, ty) for a, ty in zip(args, op_ins(op))):
                return False
            n = g.fn()
            g.emit(["add", t, n, op, list(args), g.meta(), {"obj": key}])
            after_add(n, args, outs)
        else:
            sim = list(table)
            for op, args, outs in items:
                if any(sim[a] is None or not teq(sim[a].t, ty) for a, ty in zip(args, op_ins(op))):
                    return False
            names, post = [], []
            for op, args, outs in items:
                n = g.fn()
                names.append(n)
                after_add(n, args, outs, post)
            g.emit(["extend", t, names, [[op, list(args)] for op, args, _ in items], {"obj": key}])
            r.pool.extend(post)
        return True

    def op_ins(op):
        return op[2][1] if op[0] == "@custom" else [BOOL]

    for step in range(ncmds):
        if step == bad_at:
            x = rng.random()
            b = bad_index()
            if x < 0.5:
                args, tys_ = gate_args(rng.randint(0, 2))
                args.insert(rng.randint(0, len(args)), b)
                g.emit(["add", t, g.fn(), g.custom([], []), args, None])
            elif x < 0.7:
                g.emit(["untrack_wire", t, b])
            elif x < 0.85:
                g.emit(["tracked_wire", t, b])
            else:
                g.emit(["set_indexed_outputs", t, [b]])
            return prog
        x = rng.random()
        live = [i for i, w in enumerate(table) if w is not None]
        if layers and rng.random() < 0.12 and replay_layer():
            pass
        elif x < 0.5:
            args, tys_ = gate_args(rng.randint(1, 3))
            op, outs = gate(args, tys_)
            n = g.fn()
            if args and all(isinstance(a, int) for a in args):
                key = f"L{len(layers)}"
                layers.append((key, "add", [(op, list(args), outs)]))
                g.emit(["add", t, n, op, args, g.meta(), {"obj": key}])
            else:
                g.emit(["add", t, n, op, args, g.meta()])
            after_add(n, args, outs)
        elif x < 0.6:
            coms, names, post, items = [], [], [], []
            for _ in range(rng.randint(1, 3)):
                args, tys_ = gate_args(rng.randint(1, 2), names)
                op, outs = gate(args, tys_)
                n = g.fn()
                names.append(n)
                coms.append([op, args])
                items.append((op, list(args), outs))
                after_add(n, args, outs, post)
            if all(args and all(isinstance(a, int) for a in args) for _, args, _ in items):
                key = f"L{len(layers)}"
                layers.append((key, "extend", items))
                g.emit(["extend", t, names, coms, {"obj": key}])
            else:
                g.emit(["extend", t, names, coms])
            r.pool.extend(post)
        elif x < 0.63:
            args, tys_ = gate_args(rng.randint(1, 3))
            if args:
                k = rng.randrange(len(args))  # outputs only for the first k arguments
                outs = list(tys_[:k])
                n = g.fn()
                g.emit(["add", t, n, g.custom(tys_, outs, rng.choice(["measure", "discard"])), args, g.meta()])
                for pos, a in enumerate(args):
                    if pos < k:
                        nw = Wire(["out", n, pos], outs[pos])
                        if isinstance(a, int):
                            nw.used = True
                            table[a] = nw
                        r.pool.append(nw)
                    elif isinstance(a, int) and table[a] is not None and a not in args[pos + 1:]:
                        # the index now names a port the node does not have: given up right away (an index given
                        # twice is judged at its LAST position, the one the rebinding loop leaves it at)
                        g.emit(["untrack_wire", t, a])
                        table[a] = None
        elif x < 0.68:
            b = [i for i in live if teq(table[i].t, BOOL)]
            if b:
                i = rng.choice(b)
                n = g.fn()
                g.emit(["add", t, n, ["@std", "Not"], [i], g.meta()])
                after_add(n, [i], [BOOL])
        elif x < 0.76:
            fw = free_wires()
            if fw:
                k = rng.randint(1, min(2, len(fw)))
                ws = rng.sample(fw, k)
                for w in ws:
                    w.used = True
                if k == 1 and rng.random() < 0.6:
                    g.emit(["track_wire", t, ws[0].w])
                else:
                    g.emit(["track_wires", t, [w.w for w in ws]])
                table.extend(ws)
        elif x < 0.78 and [i for i in live if copyable(table[i].t)]:
            # a copyable wire that is already tracked is tracked again: it gets a FRESH index (fan-out)
            i = rng.choice([i for i in live if copyable(table[i].t)])
            g.emit(["track_wire", t, table[i].w])
            table.append(table[i])
        elif x < 0.8 and not table and not ti:
            g.emit(["track_inputs", t])
            for w in r.pool[: len(types)]:
                w.used = True
                table.append(w)
        elif x < 0.805 and all(copyable(ty) for ty in types) and types:
            # the inputs tracked (again): fresh indices n..2n-1
            g.emit(["track_inputs", t])
            for w in r.pool[: len(types)]:
                w.used = True
                table.append(w)
        elif x < 0.9 and live:
            i = rng.choice(live)
            g.emit(["untrack_wire", t, i])
            table[i].used = False
            table[i] = None
        elif x < 0.94 and live:
            g.emit(["tracked_wire", t, rng.choice(live)])
        else:
            # an ordinary command with explicit wires
            fw = free_wires()
            ws = rng.sample(fw, min(len(fw), rng.randint(0, 2)))
            for w in ws:
                if w.lin:
                    w.used = True
            outs = g.gen_row((), 0, 2)
            n = g.fn()
            g.emit(["add_op", t, n, g.custom([w.t for w in ws], outs), [w.w for w in ws], g.meta()])
            for j, ty in enumerate(outs):
                r.pool.append(Wire(["out", n, j], ty))
    # consume the free linear wires, then the outputs
    rest = [w for w in r.pool if w.lin and not w.used and w not in table]
    if rest:
        n = g.fn()
        g.emit(["add_op", t, n, g.custom([w.t for w in rest], [], "sink"), [w.w for w in rest], None])
    live = [i for i, w in enumerate(table) if w is not None]
    if rng.random() < 0.5:
        g.emit(["set_tracked_outputs", t])
    else:
        outs = list(live)
        if rng.random() < 0.5:
            rng.shuffle(outs)
            lin = [i for i in live if table[i].lin]
            outs = lin + [i for i in outs if i not in lin and rng.random() < 0.7]
        fw = free_wires(copyable)
        for w in rng.sample(fw, min(len(fw), rng.randint(0, 2))):
            outs.insert(rng.randint(0, len(outs)), w.w)
        g.emit(["set_indexed_outputs", t, outs])
    g.emit(["to_json", t])
    _node_handles_as_wires(rng, prog)
    return prog


def _node_handles_as_wires(rng, prog):
    """A wire given as `n.out(0)` may equally be given as the node handle `n` itself (`ToNode` is a `Wire`: port 0);
    about a quarter of such arguments of `add` / `add_op` / `extend` are handed over that way, in place (seeded change
    C15-14: `DataflowOp.__call__` normalising handle arguments into a one-shot iterator, so that the rebinding pass of
    `TrackedDfg.add` sees nothing)."""
    def conv(ws):
        for j, w in enumerate(ws):
            if isinstance(w, list) and len(w) == 3 and w[0] == "out" and w[2] == 0 and isinstance(w[1], str) \
                    and rng.random() < 0.25:
                ws[j] = ["node", w[1]]

    for c in prog:
        if c[0] in ("add", "add_op"):
            conv(c[4])
        elif c[0] == "extend":
            for com in c[3]:
                conv(com[1])


def elaborate_tracked(prog):
    """REFERENCE elaboration (independent of the implementation): the program with every integer replaced by
    the wire reference it denotes — the most recent write to that index: track / rebinding by `add` at the
    argument's position / untrack => None for good — on a plain `Dfg`.
    -> (explicit program, index of the first command naming an untracked index or None, tables) where
    tables[k] is the index table (wire references / None) after command k."""
    tables = {}
    out = []
    history = []
    bad = None

    def resolve(t, cws):
        ws = []
        for w in cws:
            if isinstance(w, int) and not isinstance(w, bool):
                tb = tables[t]
                if w >= len(tb) or tb[w] is None:
                    raise IndexError(w)
                ws.append(tb[w])
            else:
                ws.append(w)
        return ws

    for k, c in enumerate(prog):
        name = c[0]
        try:
            if name == "TrackedDfg":
                tables[c[1]] = [["in", c[1], i] for i in range(len(c[2]))] if c[3] else []
                out.append(["Dfg", c[1], c[2]])
            elif name == "track_wire":
                tables[c[1]].append(c[2])
            elif name == "track_wires":
                tables[c[1]].extend(c[2])
            elif name == "track_inputs":
                b = c[1]
                n_in = next(len(d[2]) for d in prog if d[0] == "TrackedDfg" and d[1] == b)
                tables[b].extend(["in", b, i] for i in range(n_in))
            elif name in ("untrack_wire", "tracked_wire"):
                tb = tables[c[1]]
                if c[2] >= len(tb) or tb[c[2]] is None:
                    raise IndexError(c[2])
                if name == "untrack_wire":
                    tb[c[2]] = None
            elif name == "add" and c[1] in tables:
                ws = resolve(c[1], c[4])
                out.append(["add_op", c[1], c[2], c[3], ws, c[5]])
                for pos, w in enumerate(c[4]):
                    if isinstance(w, int) and not isinstance(w, bool):
                        tables[c[1]][w] = ["out", c[2], pos]
            elif name == "extend" and c[1] in tables:
                for n, (op, cws) in zip(c[2], c[3]):
                    ws = resolve(c[1], cws)
                    out.append(["add_op", c[1], n, op, ws, None])
                    for pos, w in enumerate(cws):
                        if isinstance(w, int) and not isinstance(w, bool):
                            tables[c[1]][w] = ["out", n, pos]
            elif name == "set_indexed_outputs":
                out.append(["set_outputs", c[1], resolve(c[1], c[2])])
            elif name == "set_tracked_outputs":
                out.append(["set_outputs", c[1], [w for w in tables[c[1]] if w is not None]])
            else:
                out.append(c)
        except IndexError:
            bad = k
            break
        history.append({b: list(tb) for b, tb in tables.items()})
    return out, bad, history
