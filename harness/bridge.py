"""Bridge between hugr-py objects / JSON values and the s-expression syntax of
lean/HugrVerif/Bridge/{Json,Tys}.lean.

Type specs (JSON-able, used in case specs) are the nested-list form of the s-expressions with
atoms written as strings prefixed by '@' (e.g. "@qubit", ["@var", 3, "@C"]); `spec_to_sexp` prints
them, `build_type(spec)` constructs the real hugr object, `type_to_spec(obj)` goes back.
"""
from __future__ import annotations

import json

from sexp import A, dumps

# ----------------------------------------------------------------------------- JSON values


def json_to_sx(v):
    """Python JSON value -> nested list for sexp.dumps (Bridge/Json.lean syntax)."""
    if v is None:
        return A("null")
    if v is True:
        return A("true")
    if v is False:
        return A("false")
    if isinstance(v, int):
        return [A("i"), v]
    if isinstance(v, float):
        if v == int(v) and abs(v) < 1e15:
            return [A("i"), int(v)]
        return [A("n"), repr(v)]
    if isinstance(v, str):
        return [A("s"), v]
    if isinstance(v, list):
        return [A("a")] + [json_to_sx(x) for x in v]
    if isinstance(v, dict):
        return [A("o")] + [[str(k), json_to_sx(x)] for k, x in v.items()]
    raise TypeError(type(v))


def json_sexp(v) -> str:
    return dumps(json_to_sx(v))


def canon_json(text_or_value) -> str:
    """Canonical JSON text (sorted keys) for comparing documents as JSON values."""
    v = json.loads(text_or_value) if isinstance(text_or_value, str) else text_or_value
    return json.dumps(v, sort_keys=True, ensure_ascii=False, separators=(",", ":"))


# ----------------------------------------------------------------------------- specs <-> sexp


def spec_to_sx(spec):
    """'@atom' strings -> atoms, other strings -> quoted strings."""
    if isinstance(spec, str):
        return A(spec[1:]) if spec.startswith("@") else spec
    if isinstance(spec, list):
        return [spec_to_sx(x) for x in spec]
    if spec is None:
        return A("none")
    return spec


def spec_sexp(spec) -> str:
    return dumps(spec_to_sx(spec))


# ----------------------------------------------------------------------------- hugr types


def _b(b):
    from hugr.tys import TypeBound

    return "@C" if b == TypeBound.Copyable else "@A"


def _mk_b(s):
    from hugr.tys import TypeBound

    return TypeBound.Copyable if s == "@C" else TypeBound.Any


def param_to_spec(p):
    from hugr import tys

    if isinstance(p, tys.TypeTypeParam):
        return ["@ptype", _b(p.bound)]
    if isinstance(p, tys.BoundedNatParam):
        return ["@pnat", "@none" if p.upper_bound is None else p.upper_bound]
    if isinstance(p, tys.StringParam):
        return "@pstr"
    if isinstance(p, tys.ListParam):
        return ["@plist", param_to_spec(p.param)]
    if isinstance(p, tys.TupleParam):
        return ["@ptuple", [param_to_spec(x) for x in p.params]]
    if isinstance(p, tys.ExtensionsParam):
        return "@pexts"
    raise TypeError(p)


def build_param(s):
    from hugr import tys

    if s == "@pstr":
        return tys.StringParam()
    if s == "@pexts":
        return tys.ExtensionsParam()
    k = s[0]
    if k == "@ptype":
        return tys.TypeTypeParam(_mk_b(s[1]))
    if k == "@pnat":
        return tys.BoundedNatParam(None if s[1] == "@none" else s[1])
    if k == "@plist":
        return tys.ListParam(build_param(s[1]))
    if k == "@ptuple":
        return tys.TupleParam([build_param(x) for x in s[1]])
    raise ValueError(s)


_EXT_CACHE: dict = {}


def build_typedef(s):
    """["@def", ext, name, desc, [params], ["@explicit", B] | ["@from", i...]] -> TypeDef owned by an Extension."""
    from hugr import ext as hext

    key = json.dumps(s)
    if key in _EXT_CACHE:
        return _EXT_CACHE[key]
    _, ename, name, desc, params, bound = s
    e = hext.Extension(ename, hext.Version(0, 1, 0))
    b = hext.ExplicitBound(_mk_b(bound[1])) if bound[0] == "@explicit" else hext.FromParamsBound(list(bound[1:]))
    td = hext.TypeDef(name=name, description=desc, params=[build_param(p) for p in params], bound=b)
    e.add_type_def(td)
    _EXT_CACHE[key] = td
    return td


def typedef_to_spec(td):
    from hugr import ext as hext

    b = td.bound
    bs = ["@explicit", _b(b.bound)] if isinstance(b, hext.ExplicitBound) else ["@from", *b.indices]
    return ["@def", td.get_extension().name, td.name, td.description, [param_to_spec(p) for p in td.params], bs]


def build_type(s):
    from hugr import tys

    if s == "@usize":
        return tys.USize()
    if s == "@qubit":
        return tys.Qubit
    k = s[0]
    if k == "@sum":
        return tys.Sum([[build_type(t) for t in row] for row in s[1]])
    if k == "@unit":
        return tys.UnitSum(s[1])
    if k == "@var":
        return tys.Variable(s[1], _mk_b(s[2]))
    if k == "@rowvar":
        return tys.RowVariable(s[1], _mk_b(s[2]))
    if k == "@alias":
        return tys.Alias(s[1], _mk_b(s[2]))
    if k == "@fn":
        return tys.FunctionType([build_type(t) for t in s[1]], [build_type(t) for t in s[2]], list(s[3]))
    if k == "@poly":
        return tys.PolyFuncType(
            [build_param(p) for p in s[1]],
            tys.FunctionType([build_type(t) for t in s[2]], [build_type(t) for t in s[3]], list(s[4])),
        )
    if k == "@ext":
        return tys.ExtType(build_typedef(s[1]), [build_arg(a) for a in s[2]])
    if k == "@opaque":
        return tys.Opaque(id=s[1], bound=_mk_b(s[2]), args=[build_arg(a) for a in s[3]], extension=s[4])
    raise ValueError(s)


def build_arg(s):
    from hugr import tys

    k = s[0]
    if k == "@ty":
        return tys.TypeTypeArg(build_type(s[1]))
    if k == "@nat":
        return tys.BoundedNatArg(s[1])
    if k == "@str":
        return tys.StringArg(s[1])
    if k == "@seq":
        return tys.SequenceArg([build_arg(a) for a in s[1]])
    if k == "@exts":
        return tys.ExtensionsArg(list(s[1]))
    if k == "@varg":
        return tys.VariableArg(s[1], build_param(s[2]))
    raise ValueError(s)


def type_to_spec(t):
    """Real hugr type object -> spec (inverse of build_type up to sugar classes)."""
    from hugr import tys

    if isinstance(t, tys.UnitSum):
        return ["@unit", t.size]
    if isinstance(t, tys.Sum):
        return ["@sum", [[type_to_spec(x) for x in row] for row in t.variant_rows]]
    if isinstance(t, tys.Variable):
        return ["@var", t.idx, _b(t.bound)]
    if isinstance(t, tys.RowVariable):
        return ["@rowvar", t.idx, _b(t.bound)]
    if isinstance(t, tys.USize):
        return "@usize"
    if isinstance(t, tys.Alias):
        return ["@alias", t.name, _b(t.bound)]
    if isinstance(t, tys.FunctionType):
        return ["@fn", [type_to_spec(x) for x in t.input], [type_to_spec(x) for x in t.output], list(t.runtime_reqs)]
    if isinstance(t, tys.PolyFuncType):
        return [
            "@poly", [param_to_spec(p) for p in t.params],
            [type_to_spec(x) for x in t.body.input], [type_to_spec(x) for x in t.body.output],
            list(t.body.runtime_reqs),
        ]
    if isinstance(t, tys.ExtType):
        return ["@ext", typedef_to_spec(t.type_def), [arg_to_spec(a) for a in t.args]]
    if isinstance(t, tys.Opaque):
        return ["@opaque", t.id, _b(t.bound), [arg_to_spec(a) for a in t.args], t.extension]
    if isinstance(t, tys._QubitDef):
        return "@qubit"
    raise TypeError(t)


def arg_to_spec(a):
    from hugr import tys

    if isinstance(a, tys.TypeTypeArg):
        return ["@ty", type_to_spec(a.ty)]
    if isinstance(a, tys.BoundedNatArg):
        return ["@nat", a.n]
    if isinstance(a, tys.StringArg):
        return ["@str", a.value]
    if isinstance(a, tys.SequenceArg):
        return ["@seq", [arg_to_spec(x) for x in a.elems]]
    if isinstance(a, tys.ExtensionsArg):
        return ["@exts", list(a.extensions)]
    if isinstance(a, tys.VariableArg):
        return ["@varg", a.idx, param_to_spec(a.param)]
    raise TypeError(a)


# ----------------------------------------------------------------------------- random types


NAMES = ["t", "Ty", "q.r", "é", "名"]
EXTS = ["e", "arithmetic.int.types", "ext.β"]


def gen_param(rng, depth=2):
    k = rng.randrange(6 if depth > 0 else 4)
    if k == 0:
        return ["@ptype", rng.choice(["@C", "@A"])]
    if k == 1:
        return ["@pnat", rng.choice(["@none", 0, 7, 64])]
    if k == 2:
        return "@pstr"
    if k == 3:
        return "@pexts"
    if k == 4:
        return ["@plist", gen_param(rng, depth - 1)]
    return ["@ptuple", [gen_param(rng, depth - 1) for _ in range(rng.randint(0, 3))]]


def gen_arg(rng, depth):
    k = rng.randrange(6)
    if k == 0 or depth <= 0 and k == 3:
        return ["@ty", gen_type(rng, depth - 1)]
    if k == 1:
        return ["@nat", rng.choice([0, 1, 5, 64, 2**40])]
    if k == 2:
        return ["@str", rng.choice(["", "s", "naïve", "a\"b\\c"])]
    if k == 3:
        return ["@seq", [gen_arg(rng, depth - 1) for _ in range(rng.randint(0, 3))]]
    if k == 4:
        return ["@exts", [rng.choice(EXTS) for _ in range(rng.randint(0, 2))]]
    return ["@varg", rng.randint(0, 3), gen_param(rng, 1)]


def gen_typedef(rng, nargs=None):
    nparams = rng.randint(0, 3) if nargs is None else nargs
    params = [gen_param(rng, 1) for _ in range(nparams)]
    if rng.random() < 0.4:
        bound = ["@explicit", rng.choice(["@C", "@A"])]
    else:
        # arbitrary index lists: repeated, negative, occasionally out of range
        n = rng.randint(0, 4)
        hi = max(nparams, 1)
        bound = ["@from"] + [
            rng.randrange(-hi, hi) if rng.random() < 0.92 else rng.choice([hi, hi + 2, -hi - 1]) for _ in range(n)
        ]
    return ["@def", rng.choice(EXTS), rng.choice(NAMES), rng.choice(["", "a type"]), params, bound]


def gen_row(rng, depth, maxlen=3):
    return [gen_type(rng, depth) for _ in range(rng.randint(0, maxlen))]


def gen_type(rng, depth=4):
    leaf = depth <= 0
    k = rng.randrange(7) if leaf else rng.randrange(12)
    if k == 0:
        return "@qubit"
    if k == 1:
        return "@usize"
    if k == 2:
        return ["@unit", rng.choice([0, 1, 2, 2, 3])]
    if k == 3:
        return ["@var", rng.randint(0, 3), rng.choice(["@C", "@A"])]
    if k == 4:
        return ["@rowvar", rng.randint(0, 3), rng.choice(["@C", "@A"])]
    if k == 5:
        return ["@alias", rng.choice(NAMES), rng.choice(["@C", "@A"])]
    if k == 6:
        return ["@opaque", rng.choice(NAMES), rng.choice(["@C", "@A"]), [], rng.choice(EXTS)]
    if k in (7, 8):
        return ["@sum", [gen_row(rng, depth - 1) for _ in range(rng.randint(0, 3))]]
    if k == 9:
        return ["@fn", gen_row(rng, depth - 1), gen_row(rng, depth - 1), [rng.choice(EXTS) for _ in range(rng.randint(0, 2))]]
    if k == 10:
        td = gen_typedef(rng)
        return ["@ext", td, [gen_arg(rng, depth - 1) for _ in range(len(td[4]))]]
    return ["@opaque", rng.choice(NAMES), rng.choice(["@C", "@A"]), [gen_arg(rng, depth - 1) for _ in range(rng.randint(0, 3))], rng.choice(EXTS)]
