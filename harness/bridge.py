"""Bridge between hugr-py objects / JSON values and the s-expression syntax of
lean/HugrVerif/Bridge/{Json,Tys}.lean.

Type specs (JSON-able, used in case specs) are the nested-list form of the s-expressions with
atoms written as strings prefixed by '@' (e.g. "@qubit", ["@var", 3, "@C"]); `spec_to_sexp` prints
them, `build_type(spec)` constructs the real hugr object, `type_to_spec(obj)` goes back.
"""
from __future__ import annotations

import json

from sexp import A, dumps

# ----------------------------------------------------------------------------- JSON values


def json_to_sx(v):
    """Python JSON value -> nested list for sexp.dumps (Bridge/Json.lean syntax)."""
    if v is None:
        return A("null")
    if v is True:
        return A("true")
    if v is False:
        return A("false")
    if isinstance(v, int):
        return [A("i"), v]
    if isinstance(v, float):
        if v == int(v) and abs(v) < 1e15:
            return [A("i"), int(v)]
        return [A("n"), repr(v)]
    if isinstance(v, str):
        return [A("s"), v]
    if isinstance(v, list):
        return [A("a")] + [json_to_sx(x) for x in v]
    if isinstance(v, dict):
        return [A("o")] + [[str(k), json_to_sx(x)] for k, x in v.items()]
    raise TypeError(type(v))


def json_sexp(v) -> str:
    return dumps(json_to_sx(v))


def canon_json(text_or_value) -> str:
    """Canonical JSON text (sorted keys) for comparing documents as JSON values."""
    v = json.loads(text_or_value) if isinstance(text_or_value, str) else text_or_value
    return json.dumps(v, sort_keys=True, ensure_ascii=False, separators=(",", ":"))


# ----------------------------------------------------------------------------- specs <-> sexp


def spec_to_sx(spec):
    """'@atom' strings -> atoms, other strings -> quoted strings."""
    if isinstance(spec, str):
        return A(spec[1:]) if spec.startswith("@") else spec
    if isinstance(spec, list):
        return [spec_to_sx(x) for x in spec]
    if spec is None:
        return A("none")
    return spec


def spec_sexp(spec) -> str:
    return dumps(spec_to_sx(spec))


# ----------------------------------------------------------------------------- hugr types


def _b(b):
    from hugr.tys import TypeBound

    return "@C" if b == TypeBound.Copyable else "@A"


def _mk_b(s):
    from hugr.tys import TypeBound

    return TypeBound.Copyable if s == "@C" else TypeBound.Any


def param_to_spec(p):
    from hugr import tys

    if isinstance(p, tys.TypeTypeParam):
        return ["@ptype", _b(p.bound)]
    if isinstance(p, tys.BoundedNatParam):
        return ["@pnat", "@none" if p.upper_bound is None else p.upper_bound]
    if isinstance(p, tys.StringParam):
        return "@pstr"
    if isinstance(p, tys.ListParam):
        return ["@plist", param_to_spec(p.param)]
    if isinstance(p, tys.TupleParam):
        return ["@ptuple", [param_to_spec(x) for x in p.params]]
    if isinstance(p, tys.ExtensionsParam):
        return "@pexts"
    raise TypeError(p)


def build_param(s):
    from hugr import tys

    if s == "@pstr":
        return tys.StringParam()
    if s == "@pexts":
        return tys.ExtensionsParam()
    k = s[0]
    if k == "@ptype":
        return tys.TypeTypeParam(_mk_b(s[1]))
    if k == "@pnat":
        return tys.BoundedNatParam(None if s[1] == "@none" else s[1])
    if k == "@plist":
        return tys.ListParam(build_param(s[1]))
    if k == "@ptuple":
        return tys.TupleParam([build_param(x) for x in s[1]])
    raise ValueError(s)


_EXT_CACHE: dict = {}


def build_typedef(s):
    """["@def", ext, name, desc, [params], ["@explicit", B] | ["@from", i...]] -> TypeDef owned by an Extension."""
    from hugr import ext as hext

    key = json.dumps(s)
    if key in _EXT_CACHE:
        return _EXT_CACHE[key]
    _, ename, name, desc, params, bound = s
    e = hext.Extension(ename, hext.Version(0, 1, 0))
    b = hext.ExplicitBound(_mk_b(bound[1])) if bound[0] == "@explicit" else hext.FromParamsBound(list(bound[1:]))
    td = hext.TypeDef(name=name, description=desc, params=[build_param(p) for p in params], bound=b)
    e.add_type_def(td)
    _EXT_CACHE[key] = td
    return td


def typedef_to_spec(td):
    from hugr import ext as hext

    b = td.bound
    bs = ["@explicit", _b(b.bound)] if isinstance(b, hext.ExplicitBound) else ["@from", *b.indices]
    return ["@def", td.get_extension().name, td.name, td.description, [param_to_spec(p) for p in td.params], bs]


def build_type(s):
    from hugr import tys

    if s == "@usize":
        return tys.USize()
    if s == "@qubit":
        return tys.Qubit
    k = s[0]
    if k == "@sum":
        return tys.Sum([[build_type(t) for t in row] for row in s[1]])
    if k == "@unit":
        return tys.UnitSum(s[1])
    if k == "@var":
        return tys.Variable(s[1], _mk_b(s[2]))
    if k == "@rowvar":
        return tys.RowVariable(s[1], _mk_b(s[2]))
    if k == "@alias":
        return tys.Alias(s[1], _mk_b(s[2]))
    if k == "@fn":
        return tys.FunctionType([build_type(t) for t in s[1]], [build_type(t) for t in s[2]], list(s[3]))
    if k == "@poly":
        return tys.PolyFuncType(
            [build_param(p) for p in s[1]],
            tys.FunctionType([build_type(t) for t in s[2]], [build_type(t) for t in s[3]], list(s[4])),
        )
    if k == "@ext":
        return tys.ExtType(build_typedef(s[1]), [build_arg(a) for a in s[2]])
    if k == "@opaque":
        return tys.Opaque(id=s[1], bound=_mk_b(s[2]), args=[build_arg(a) for a in s[3]], extension=s[4])
    raise ValueError(s)


def build_arg(s):
    from hugr import tys

    k = s[0]
    if k == "@ty":
        return tys.TypeTypeArg(build_type(s[1]))
    if k == "@nat":
        return tys.BoundedNatArg(s[1])
    if k == "@str":
        return tys.StringArg(s[1])
    if k == "@seq":
        return tys.SequenceArg([build_arg(a) for a in s[1]])
    if k == "@exts":
        return tys.ExtensionsArg(list(s[1]))
    if k == "@varg":
        return tys.VariableArg(s[1], build_param(s[2]))
    raise ValueError(s)


def type_to_spec(t):
    """Real hugr type object -> spec (inverse of build_type up to sugar classes)."""
    from hugr import tys

    if isinstance(t, tys.UnitSum):
        return ["@unit", t.size]
    if isinstance(t, tys.Sum):
        return ["@sum", [[type_to_spec(x) for x in row] for row in t.variant_rows]]
    if isinstance(t, tys.Variable):
        return ["@var", t.idx, _b(t.bound)]
    if isinstance(t, tys.RowVariable):
        return ["@rowvar", t.idx, _b(t.bound)]
    if isinstance(t, tys.USize):
        return "@usize"
    if isinstance(t, tys.Alias):
        return ["@alias", t.name, _b(t.bound)]
    if isinstance(t, tys.FunctionType):
        return ["@fn", [type_to_spec(x) for x in t.input], [type_to_spec(x) for x in t.output], list(t.runtime_reqs)]
    if isinstance(t, tys.PolyFuncType):
        return [
            "@poly", [param_to_spec(p) for p in t.params],
            [type_to_spec(x) for x in t.body.input], [type_to_spec(x) for x in t.body.output],
            list(t.body.runtime_reqs),
        ]
    if isinstance(t, tys.ExtType):
        return ["@ext", typedef_to_spec(t.type_def), [arg_to_spec(a) for a in t.args]]
    if isinstance(t, tys.Opaque):
        return ["@opaque", t.id, _b(t.bound), [arg_to_spec(a) for a in t.args], t.extension]
    if isinstance(t, tys._QubitDef):
        return "@qubit"
    raise TypeError(t)


def arg_to_spec(a):
    from hugr import tys

    if isinstance(a, tys.TypeTypeArg):
        return ["@ty", type_to_spec(a.ty)]
    if isinstance(a, tys.BoundedNatArg):
        return ["@nat", a.n]
    if isinstance(a, tys.StringArg):
        return ["@str", a.value]
    if isinstance(a, tys.SequenceArg):
        return ["@seq", [arg_to_spec(x) for x in a.elems]]
    if isinstance(a, tys.ExtensionsArg):
        return ["@exts", list(a.extensions)]
    if isinstance(a, tys.VariableArg):
        return ["@varg", a.idx, param_to_spec(a.param)]
    raise TypeError(a)


# ----------------------------------------------------------------------------- random types


# names and texts that begin / end with white space are legal and must come back as they are (seeded changes C05-13,
# C10-13: `str_strip_whitespace` in the shared model configuration)
NAMES = ["t", "Ty", "q.r", "é", "名", " pad ", "nl\n"]
EXTS = ["e", "arithmetic.int.types", "ext.β"]


def gen_param(rng, depth=2):
    k = rng.randrange(6 if depth > 0 else 4)
    if k == 0:
        return ["@ptype", rng.choice(["@C", "@A"])]
    if k == 1:
        return ["@pnat", rng.choice(["@none", 0, 7, 64])]
    if k == 2:
        return "@pstr"
    if k == 3:
        return "@pexts"
    if k == 4:
        return ["@plist", gen_param(rng, depth - 1)]
    return ["@ptuple", [gen_param(rng, depth - 1) for _ in range(rng.randint(0, 3))]]


def gen_arg(rng, depth):
    k = rng.randrange(6)
    if k == 0 or depth <= 0 and k == 3:
        return ["@ty", gen_type(rng, depth - 1)]
    if k == 1:
        return ["@nat", rng.choice([0, 1, 5, 64, 2**40])]
    if k == 2:
        return ["@str", rng.choice(["", "s", "naïve", "a\"b\\c", " x\t", "\n"])]
    if k == 3:
        return ["@seq", [gen_arg(rng, depth - 1) for _ in range(rng.randint(0, 3))]]
    if k == 4:
        return ["@exts", [rng.choice(EXTS) for _ in range(rng.randint(0, 2))]]
    return ["@varg", rng.randint(0, 3), gen_param(rng, 1)]


def gen_typedef(rng, nargs=None):
    nparams = rng.randint(0, 3) if nargs is None else nargs
    params = [gen_param(rng, 1) for _ in range(nparams)]
    if rng.random() < 0.4:
        bound = ["@explicit", rng.choice(["@C", "@A"])]
    else:
        # arbitrary index lists: repeated, negative, occasionally out of range
        n = rng.randint(0, 4)
        hi = max(nparams, 1)
        bound = ["@from"] + [
            rng.randrange(-hi, hi) if rng.random() < 0.92 else rng.choice([hi, hi + 2, -hi - 1]) for _ in range(n)
        ]
    return ["@def", rng.choice(EXTS), rng.choice(NAMES), rng.choice(["", "a type"]), params, bound]


def gen_row(rng, depth, maxlen=3):
    return [gen_type(rng, depth) for _ in range(rng.randint(0, maxlen))]


def gen_type(rng, depth=4):
    leaf = depth <= 0
    k = rng.randrange(7) if leaf else rng.randrange(12)
    if k == 0:
        return "@qubit"
    if k == 1:
        return "@usize"
    if k == 2:
        return ["@unit", rng.choice([0, 1, 2, 2, 3])]
    if k == 3:
        return ["@var", rng.randint(0, 3), rng.choice(["@C", "@A"])]
    if k == 4:
        return ["@rowvar", rng.randint(0, 3), rng.choice(["@C", "@A"])]
    if k == 5:
        return ["@alias", rng.choice(NAMES), rng.choice(["@C", "@A"])]
    if k == 6:
        return ["@opaque", rng.choice(NAMES), rng.choice(["@C", "@A"]), [], rng.choice(EXTS)]
    if k in (7, 8):
        return ["@sum", [gen_row(rng, depth - 1) for _ in range(rng.randint(0, 3))]]
    if k == 9:
        return ["@fn", gen_row(rng, depth - 1), gen_row(rng, depth - 1), [rng.choice(EXTS) for _ in range(rng.randint(0, 2))]]
    if k == 10:
        td = gen_typedef(rng)
        return ["@ext", td, [gen_arg(rng, depth - 1) for _ in range(len(td[4]))]]
    return ["@opaque", rng.choice(NAMES), rng.choice(["@C", "@A"]), [gen_arg(rng, depth - 1) for _ in range(rng.randint(0, 3))], rng.choice(EXTS)]


# ----------------------------------------------------------------------------- constant values (C14, C05)
#
# Value specs (JSON-able) are the nested-list form of the s-expressions of lean/HugrVerif/Bridge/Val.lean:
#   plain values  ["@vsum", tag, T, [V…]] | ["@vtuple", [V…]] | ["@vfn", [T…], [T…], [req…], ["@json", doc]]
#                 | ["@vext", name, T, ["@json", payload], [ext…]]
#   expressions   the same with expressions as children, the helpers (recorded as the helper used)
#                 ["@some", [E…]] | ["@none", [T…]] | ["@left", [E…], [T…]] | ["@right", [T…], [E…]]
#                 | ["@unitsum", tag, size] | ["@bool", b] | "@unit",
#                 the std classes ["@int", v, width] | ["@float", "repr"] | ["@string", s]
#                 | ["@array", [E…], T] | ["@list", [E…], T] | ["@sarray", [E…], T, name],
#                 and the function recipe ["@fndfg", [T…], perm, [req…]]: a `Dfg(*ins)` built with the real builder
#                 whose outputs are its inputs permuted by `perm` (printed as a `vfn` with the real body).
# JSON is wrapped as ["@json", value] because a JSON string may itself start with '@'.


def cjson(v):
    """Canonical JSON value: floats with an integral value (|v| < 1e15) as ints, non-finite as None."""
    if isinstance(v, float):
        if v != v or v in (float("inf"), float("-inf")):
            return None
        if v == int(v) and abs(v) < 1e15:
            return int(v)
        return v
    if isinstance(v, list):
        return [cjson(x) for x in v]
    if isinstance(v, dict):
        return {str(k): cjson(x) for k, x in v.items()}
    return v


def cjson_sx(v):
    """Canonical JSON -> sexp tree with sorted object keys (what the Lean drivers print via Json.canon)."""
    v = cjson(v)
    if isinstance(v, dict):
        return [A("o")] + [[k, cjson_sx(v[k])] for k in sorted(v)]
    if isinstance(v, list):
        return [A("a")] + [cjson_sx(x) for x in v]
    return json_to_sx(v)


def float_json(text: str):
    """JSON form of the Python float written `text` as pydantic dumps it (non-finite -> null)."""
    return cjson(float(text))


def fn_outs(s):
    """Output row (type specs) of the body signature of the recipe ["@fndfg", ins, perm, reqs, root?]:
    root "dfg" (default) / "func": the inputs permuted; root "loop": a standalone `TailLoop(just_inputs=ins)`
    whose body continues with all its inputs: [Sum([ins, []])]."""
    root = s[4] if len(s) > 4 else "dfg"
    if root == "loop":
        return [["@sum", [list(s[1]), []]]]
    return [s[1][i] for i in s[2]]


def fn_body(ins, perm, reqs=(), root="dfg"):
    """The real builder's HUGR for the recipe ["@fndfg", ins, perm, reqs, root?] -> Hugr."""
    from hugr.build.dfg import Dfg

    if root == "func":
        from hugr.build.function import Function

        f = Function("fv", [build_type(t) for t in ins])
        inputs = f.inputs()
        f.set_outputs(*[inputs[i] for i in perm])
        return f.hugr
    if root == "loop":
        from hugr import ops, tys
        from hugr.build.cond_loop import TailLoop

        its = [build_type(t) for t in ins]
        tl = TailLoop(its, [])
        c = tl.add(ops.Continue(tys.Either(its, []))(*tl.inputs()))
        tl.set_loop_outputs(c)
        return tl.hugr
    d = Dfg(*[build_type(t) for t in ins])
    if reqs:
        d.parent_op._extension_delta = list(reqs)
    inputs = d.inputs()
    d.set_outputs(*[inputs[i] for i in perm])
    if ins:
        # node metadata inside the body of a function value (part of the constant's payload)
        d.hugr[d.hugr.root].metadata["fn.arity"] = [len(ins), len(perm)]
        d.hugr[d.output_node].metadata["note"] = {"k": None, "é": "x"}
    return d.hugr


def _hugr_json(h):
    return json.loads(h._to_serial().model_dump_json())


def _iterable(s, xs):
    """Left/Right take `Iterable`s: hand them a list, a tuple or a one-shot iterator (chosen by the spec, so
    that a replay rebuilds the same call)."""
    style = len(repr(s)) % 3
    return xs if style == 0 else tuple(xs) if style == 1 else iter(xs)


def build_value(s):
    """Value/expression spec -> the real hugr-py object, built with the constructor the spec names."""
    from hugr import val

    if s == "@unit":
        return val.Unit
    k = s[0]
    if k == "@vsum":
        return val.Sum(s[1], build_type(s[2]), [build_value(x) for x in s[3]])
    if k == "@vtuple":
        return val.Tuple(*[build_value(x) for x in s[1]])
    if k == "@vfn":
        from hugr._serialization.serial_hugr import SerialHugr
        from hugr.hugr import Hugr

        return val.Function(Hugr._from_serial(SerialHugr(**s[4][1])))
    if k == "@fndfg":
        return val.Function(fn_body(s[1], s[2], s[3] if len(s) > 3 else (), s[4] if len(s) > 4 else "dfg"))
    if k == "@vext":
        return val.Extension(s[1], build_type(s[2]), s[3][1], list(s[4]))
    if k == "@some":
        return val.Some(*[build_value(x) for x in s[1]])
    if k == "@none":
        return val.None_(*[build_type(t) for t in s[1]])
    if k == "@left":
        return val.Left(_iterable(s, [build_value(x) for x in s[1]]), _iterable(s, [build_type(t) for t in s[2]]))
    if k == "@right":
        return val.Right(_iterable(s, [build_type(t) for t in s[1]]), _iterable(s, [build_value(x) for x in s[2]]))
    if k == "@unitsum":
        return val.UnitSum(s[1], s[2])
    if k == "@bool":
        return val.bool_value(bool(s[1]))
    if k == "@int":
        from hugr.std.int import IntVal

        return IntVal(s[1], s[2])
    if k == "@float":
        from hugr.std.float import FloatVal

        return FloatVal(float(s[1]))
    if k == "@string":
        from hugr.std.prelude import StringVal

        return StringVal(s[1])
    if k == "@array":
        from hugr.std.collections.array import ArrayVal

        return ArrayVal([build_value(x) for x in s[1]], build_type(s[2]))
    if k == "@list":
        from hugr.std.collections.list import ListVal

        return ListVal([build_value(x) for x in s[1]], build_type(s[2]))
    if k == "@sarray":
        from hugr.std.collections.static_array import StaticArrayVal

        return StaticArrayVal([build_value(x) for x in s[1]], build_type(s[2]), s[3])
    raise ValueError(s)


def value_to_spec(v, body=True):
    """Real value object -> plain value spec (std classes via `to_value()`).  With body=False the body
    document of a function value is elided (the atom `body`), as the Lean drivers print it."""
    from hugr import val

    if isinstance(v, val.Tuple):
        return ["@vtuple", [value_to_spec(x, body) for x in v.vals]]
    if isinstance(v, val.Sum):
        return ["@vsum", v.tag, type_to_spec(v.typ), [value_to_spec(x, body) for x in v.vals]]
    if isinstance(v, val.Function):
        t = v.type_()
        return [
            "@vfn", [type_to_spec(x) for x in t.input], [type_to_spec(x) for x in t.output], list(t.runtime_reqs),
            ["@json", _hugr_json(v.body)] if body else "@body",
        ]
    if isinstance(v, val.Extension):
        # the payload may hold pydantic models (std collections): take it as the JSON it serialises to
        import hugr._serialization.ops as sops

        payload = json.loads(sops.CustomConst(c=v.name, v=v.val).model_dump_json())["v"]
        return ["@vext", v.name, type_to_spec(v.typ), ["@json", payload], list(v.extensions)]
    if hasattr(v, "to_value"):
        return value_to_spec(v.to_value(), body)
    raise TypeError(v)


def value_to_sx(s):
    """Value/expression spec -> sexp tree (Bridge/Val.lean syntax).  `@fndfg` recipes are printed as `vfn`
    with the document the real builder produces; JSON in canonical form."""
    if s == "@unit":
        return A("unit")
    if s == "@body":
        return A("body")
    k = s[0]
    vs = lambda xs: [value_to_sx(x) for x in xs]  # noqa: E731
    ts = lambda xs: [spec_to_sx(t) for t in xs]  # noqa: E731
    if k == "@vsum":
        return [A("vsum"), s[1], spec_to_sx(s[2]), vs(s[3])]
    if k == "@vtuple":
        return [A("vtuple"), vs(s[1])]
    if k == "@vfn":
        return [A("vfn"), ts(s[1]), ts(s[2]), list(s[3]), value_to_sx(s[4]) if s[4] == "@body" else cjson_sx(s[4][1])]
    if k == "@fndfg":
        reqs = list(s[3]) if len(s) > 3 else []
        return [A("vfn"), ts(s[1]), ts(fn_outs(s)), reqs,
                cjson_sx(_hugr_json(fn_body(s[1], s[2], reqs, s[4] if len(s) > 4 else "dfg")))]
    if k == "@vext":
        return [A("vext"), s[1], spec_to_sx(s[2]), cjson_sx(s[3][1]), list(s[4])]
    if k == "@some":
        return [A("some"), vs(s[1])]
    if k == "@none":
        return [A("none"), ts(s[1])]
    if k == "@left":
        return [A("left"), vs(s[1]), ts(s[2])]
    if k == "@right":
        return [A("right"), ts(s[1]), vs(s[2])]
    if k == "@unitsum":
        return [A("unitsum"), s[1], s[2]]
    if k == "@bool":
        return [A("bool"), A("true" if s[1] else "false")]
    if k == "@int":
        return [A("int"), s[1], s[2]]
    if k == "@float":
        return [A("float"), cjson_sx(float_json(s[1]))]
    if k == "@string":
        return [A("string"), s[1]]
    if k == "@array":
        return [A("array"), vs(s[1]), spec_to_sx(s[2])]
    if k == "@list":
        return [A("list"), vs(s[1]), spec_to_sx(s[2])]
    if k == "@sarray":
        return [A("sarray"), vs(s[1]), spec_to_sx(s[2]), s[3]]
    raise ValueError(s)


def value_sexp(s) -> str:
    return dumps(value_to_sx(s))


# ---- std type definitions read from the bundled extension files (not through the hugr classes)

_STD_FILES = {
    "int": ("arithmetic/int/types", "int"),
    "float64": ("arithmetic/float/types", "float64"),
    "string": ("prelude", "string"),
    "array": ("collections/array", "array"),
    "list": ("collections/list", "List"),
    "static_array": ("collections/static_array", "static_array"),
}
_STD_DEFS: dict = {}


def _param_json_to_spec(p):
    tp = p["tp"]
    if tp == "Type":
        return ["@ptype", "@" + p["b"]]
    if tp == "BoundedNat":
        return ["@pnat", "@none" if p.get("bound") is None else p["bound"]]
    if tp == "String":
        return "@pstr"
    if tp == "List":
        return ["@plist", _param_json_to_spec(p["param"])]
    if tp == "Tuple":
        return ["@ptuple", [_param_json_to_spec(x) for x in p["params"]]]
    if tp == "Extensions":
        return "@pexts"
    raise ValueError(p)


def std_def(key):
    """(`@def` spec, raw JSON type definition, extension name) of a std type, from the JSON file."""
    if key not in _STD_DEFS:
        import os
        from pathlib import Path

        repo = Path(os.environ.get("HUGR_REPO", "/repo"))
        file, name = _STD_FILES[key]
        doc = json.loads((repo / "hugr-py/src/hugr/std/_json_defs" / (file + ".json")).read_text())
        td = doc["types"][name]
        b = td["bound"]
        bs = ["@explicit", "@" + b["bound"]] if b["b"] == "Explicit" else ["@from", *b["indices"]]
        spec = ["@def", doc["name"], td["name"], td["description"], [_param_json_to_spec(p) for p in td["params"]], bs]
        _STD_DEFS[key] = (spec, td, doc["name"])
    return _STD_DEFS[key]


def std_type(key, *args):
    return ["@ext", std_def(key)[0], list(args)]


# ---- random values

PAYLOADS = [None, 0, {"a": [1, "x"]}, "p", [True, {"k": None}], {"é": -3, "b": {"c": []}}, 2**70]
STRINGS = ["", "s", "naïve", 'a"b\\c', "名", " lead", "trail \n"]
FLOATS = ["0.0", "1.5", "-2.25", "1e+16", "3.0", "inf", "nan", "-0.0", "1e-07"]


def gen_vtype(rng, depth=3):
    """Types for constants: every type here can be serialised (no malformed extension types)."""
    if depth <= 0 or rng.random() < 0.22:
        k = rng.randrange(9)
        if k == 0:
            return "@qubit"
        if k == 1:
            return "@usize"
        if k in (2, 3):
            return ["@unit", rng.choice([0, 1, 2, 2, 3])]
        if k == 4:
            return rng.choice([["@var", rng.randint(0, 2), rng.choice(["@C", "@A"])], ["@alias", rng.choice(NAMES), rng.choice(["@C", "@A"])]])
        if k == 5:
            return ["@opaque", rng.choice(NAMES), rng.choice(["@C", "@A"]), [], rng.choice(EXTS)]
        if k in (6, 7):
            return std_type("int", ["@nat", rng.randint(0, 6)])
        return rng.choice([std_type("float64"), std_type("string")])
    k = rng.randrange(20)
    row = lambda hi=3: [gen_vtype(rng, depth - 1) for _ in range(rng.randint(0, hi))]  # noqa: E731
    if k in (0, 1, 2):
        return ["@sum", [row() for _ in range(rng.randint(0, 3))]]
    if k in (3, 4, 5):
        return ["@sum", [row()]]  # tuple shaped
    if k in (6, 7):
        return ["@sum", [[], row()]]  # option shaped
    if k in (8, 9):
        return ["@sum", [row(2), row(2)]]  # either shaped
    if k == 10:
        ins = row()
        perm = list(range(len(ins)))
        rng.shuffle(perm)
        return ["@fn", ins, [ins[i] for i in perm], []]
    if k in (11, 12, 13):
        return std_type("array", ["@nat", rng.randint(0, 3)], ["@ty", gen_vtype(rng, depth - 1)])
    if k in (14, 15):
        return std_type("list", ["@ty", gen_vtype(rng, depth - 1)])
    if k == 16:
        return std_type("static_array", ["@ty", gen_vtype(rng, depth - 1)])
    if k == 17:
        nparams = rng.randint(0, 2)
        params = [rng.choice([["@ptype", "@A"], ["@pnat", "@none"], "@pstr"]) for _ in range(nparams)]
        bound = ["@explicit", rng.choice(["@C", "@A"])] if nparams == 0 or rng.random() < 0.5 else ["@from", rng.randrange(nparams)]
        td = ["@def", rng.choice(EXTS), rng.choice(NAMES), "", params, bound]
        args = [
            ["@ty", gen_vtype(rng, depth - 1)] if p != "@pstr" and p[0] == "@ptype" else ["@str", "s"] if p == "@pstr" else ["@nat", rng.randint(0, 9)]
            for p in params
        ]
        return ["@ext", td, args]
    if k == 18:
        return ["@opaque", rng.choice(NAMES), rng.choice(["@C", "@A"]), [["@ty", gen_vtype(rng, depth - 1)], ["@nat", 3]][: rng.randint(0, 2)], rng.choice(EXTS)]
    return ["@unit", rng.choice([1, 2, 3, 4])]


def _is_std(t, key):
    return isinstance(t, list) and t[0] == "@ext" and t[1] == std_def(key)[0]


def gen_value_of(rng, t, depth=3):
    """An expression whose value is (meant to be) of type `t`: built with the most specific helper that applies
    (chosen at random among the applicable ones), extension constants for types without core values."""
    if isinstance(t, list) and t[0] == "@unit":
        n = t[1]
        if n == 0:
            return ["@vext", "c", t, ["@json", rng.choice(PAYLOADS)], []]
        tag = rng.randrange(n)
        r = rng.random()
        if n == 2 and r < 0.5:
            return ["@bool", bool(tag)]
        if n == 1 and r < 0.3:
            return "@unit"
        if n == 1 and r < 0.5:
            return ["@vtuple", []]  # the empty tuple has the unit type (up to the unit-sum identification)
        if r < 0.8:
            return ["@unitsum", tag, n]
        return ["@vsum", tag, rng.choice([t, ["@sum", [[] for _ in range(n)]]]), []]
    if isinstance(t, list) and t[0] == "@sum":
        rows = t[1]
        if not rows:
            return ["@vext", "c", t, ["@json", rng.choice(PAYLOADS)], []]
        tag = rng.randrange(len(rows))
        if depth <= 0:
            # prefer the shortest row to terminate
            tag = min(range(len(rows)), key=lambda i: len(rows[i]))
        fields = [gen_value_of(rng, x, depth - 1) for x in rows[tag]]
        r = rng.random()
        if len(rows) == 1 and r < 0.6:
            return ["@vtuple", fields]
        if len(rows) == 2 and rows[0] == [] and r < 0.6:
            return ["@some", fields] if tag == 1 else ["@none", rows[1]]
        if len(rows) == 2 and r < 0.8:
            return ["@left", fields, rows[1]] if tag == 0 else ["@right", rows[0], fields]
        return ["@vsum", tag, t, fields]
    if _is_std(t, "int"):
        w = t[2][0][1]
        return ["@int", rng.choice([0, 1, -1, 5, 2**w, 2 ** (2**w) - 1, -(2**63), 2**70]), w]
    if _is_std(t, "float64"):
        return ["@float", rng.choice(FLOATS)]
    if _is_std(t, "string"):
        return ["@string", rng.choice(STRINGS)]
    if _is_std(t, "array"):
        n, et = t[2][0][1], t[2][1][1]
        return ["@array", [gen_value_of(rng, et, depth - 1) for _ in range(n)], et]
    if _is_std(t, "list"):
        et = t[2][0][1]
        return ["@list", [gen_value_of(rng, et, depth - 1) for _ in range(rng.randint(0, 3))], et]
    if _is_std(t, "static_array"):
        et = t[2][0][1]
        return ["@sarray", [gen_value_of(rng, et, depth - 1) for _ in range(rng.randint(0, 3))], et, rng.choice(NAMES)]
    if isinstance(t, list) and t[0] == "@fn" and not t[3]:
        ins, outs = t[1], t[2]
        # find a permutation realising outs from ins
        perm, used = [], set()
        for o in outs:
            j = next((i for i, x in enumerate(ins) if x == o and i not in used), None)
            if j is None:
                break
            used.add(j)
            perm.append(j)
        else:
            if len(perm) == len(ins):
                r = rng.random()
                return ["@fndfg", ins, perm, []] if r < 0.6 else ["@fndfg", ins, perm, [], "func"]
    return ["@vext", rng.choice(["c", "Const", "名"]), t, ["@json", rng.choice(PAYLOADS)], [rng.choice(EXTS) for _ in range(rng.randint(0, 2))]]


def gen_value(rng, depth=3):
    """A random constant-building expression: a random constant type, then a value of it (a static array
    asks for a copyable element type, else the real constructor raises `ValueError`)."""
    e = gen_value_of(rng, gen_vtype(rng, depth), depth)
    for _ in range(3):
        # prefer nested expressions: a flat one (no constant inside another) is resampled most of the time
        if depth <= 1 or _has_child(e) or rng.random() < 0.35:
            break
        e = gen_value_of(rng, gen_vtype(rng, depth), depth)
    return e


def _has_child(e):
    if not isinstance(e, list):
        return False
    k = e[0]
    if k == "@vsum":
        return bool(e[3])
    if k in ("@vtuple", "@some", "@left", "@array", "@list", "@sarray"):
        return bool(e[1])
    if k == "@right":
        return bool(e[2])
    return False


# ----------------------------------------------------------------------------- operations (C06, C05)
#
# Op specs mirror lean/HugrVerif/Bridge/Ops.lean:
#   ["@input", R] | ["@output", R?] | ["@custom", name, SIG, desc, ext, [A…]] | ["@extop", DEF, SIG?, [A…]]
#   | ["@maketuple", R?] | ["@unpacktuple", R?] | ["@noop", T?] | ["@tag", n, SUM] | ["@dfg", R, R?, [req…]]
#   | ["@cfg", R, R?] | ["@block", R, SUM?, R?, [req…]] | ["@exit", R?] | ["@const", V] | ["@loadconst", T?]
#   | ["@cond", SUM, R, R?] | ["@case", R, R?] | ["@tailloop", R, R, R?, [req…]]
#   | ["@funcdefn", name, R, [P…], R?] | ["@funcdecl", name, POLY] | "@module" | ["@call", POLY, SIG, [A…]]
#   | ["@callind", SIG?] | ["@loadfunc", POLY, SIG, [A…]] | ["@aliasdecl", name, B] | ["@aliasdefn", name, T]
# constructor forms: ["@mkcall", POLY, SIG?, [A…]?] | ["@mkloadfunc", …] | ["@some", R] | ["@left", R, R]
#   | ["@right", R, R] | ["@continue", R, R] | ["@break", R, R]
# X? ::= "@none" | X;  SUM ::= ["@gsum", [R…]] | ["@usum", n];  SIG = ["@fn", R, R, [req…]];  POLY = ["@poly", …]
# DEF ::= ["@opdef", "@none"|ext, name, desc, "@none"|POLY];  V = plain value spec (see above).

OP_CTOR_FORMS = ("@mkcall", "@mkloadfunc", "@some", "@left", "@right", "@continue", "@break")


def _opt(f, s):
    return None if s == "@none" else f(s)


def _row(s):
    return [build_type(t) for t in s]


def build_sum(s):
    from hugr import tys

    if s[0] == "@usum":
        return tys.UnitSum(s[1])
    return tys.Sum([[build_type(t) for t in r] for r in s[1]])


def sum_to_spec(t):
    from hugr import tys

    if isinstance(t, tys.UnitSum):
        return ["@usum", t.size]
    return ["@gsum", [[type_to_spec(x) for x in r] for r in t.variant_rows]]


def build_opdef(s):
    """["@opdef", ext|"@none", name, desc, POLY|"@none"] -> ext.OpDef.  The definition is attached to its
    extension directly (not through `add_op_def`, which rewrites the requirement list through a `set`)."""
    from hugr import ext as hext

    _, e, name, desc, poly = s
    pf = None if poly == "@none" else build_type(poly)
    od = hext.OpDef(name, hext.OpDefSig(pf, binary=pf is None), desc)
    if e != "@none":
        x = hext.Extension(e, hext.Version(0, 1, 0))
        od._extension = x
        x.operations[name] = od
    return od


def opdef_to_spec(od):
    pf = od.signature.poly_func
    return [
        "@opdef", od._extension.name if od._extension is not None else "@none", od.name, od.description,
        "@none" if pf is None else type_to_spec(pf),
    ]


def build_op(s):
    """Op spec -> the real hugr-py operation object (constructor forms run the real constructor and may raise)."""
    from hugr import ops

    if s == "@module":
        return ops.Module()
    k = s[0]
    if k == "@input":
        return ops.Input(_row(s[1]))
    if k == "@output":
        return ops.Output(_opt(_row, s[1]))
    if k == "@custom":
        return ops.Custom(op_name=s[1], signature=build_type(s[2]), description=s[3], extension=s[4],
                          args=[build_arg(a) for a in s[5]])
    if k == "@extop":
        return ops.ExtOp(build_opdef(s[1]), _opt(build_type, s[2]), [build_arg(a) for a in s[3]])
    if k == "@maketuple":
        return ops.MakeTuple(_opt(_row, s[1]))
    if k == "@unpacktuple":
        return ops.UnpackTuple(_opt(_row, s[1]))
    if k == "@noop":
        return ops.Noop(_opt(build_type, s[1]))
    if k == "@tag":
        return ops.Tag(s[1], build_sum(s[2]))
    if k == "@dfg":
        return ops.DFG(_row(s[1]), _opt(_row, s[2]), list(s[3]))
    if k == "@cfg":
        return ops.CFG(_row(s[1]), _opt(_row, s[2]))
    if k == "@block":
        return ops.DataflowBlock(_row(s[1]), _opt(build_sum, s[2]), _opt(_row, s[3]), list(s[4]))
    if k == "@exit":
        return ops.ExitBlock(_opt(_row, s[1]))
    if k == "@const":
        return ops.Const(build_value(s[1]))
    if k == "@loadconst":
        return ops.LoadConst(_opt(build_type, s[1]))
    if k == "@cond":
        return ops.Conditional(build_sum(s[1]), _row(s[2]), _opt(_row, s[3]))
    if k == "@case":
        return ops.Case(_row(s[1]), _opt(_row, s[2]))
    if k == "@tailloop":
        return ops.TailLoop(_row(s[1]), _row(s[2]), _opt(_row, s[3]), list(s[4]))
    if k == "@funcdefn":
        return ops.FuncDefn(s[1], _row(s[2]), [build_param(p) for p in s[3]], _opt(_row, s[4]))
    if k == "@funcdecl":
        return ops.FuncDecl(s[1], build_type(s[2]))
    if k in ("@call", "@loadfunc"):
        # the stored state, bypassing `_CallOrLoad.__init__`
        cls = ops.Call if k == "@call" else ops.LoadFunc
        o = cls.__new__(cls)
        o.signature = build_type(s[1])
        o.instantiation = build_type(s[2])
        o.type_args = [build_arg(a) for a in s[3]]
        return o
    if k in ("@mkcall", "@mkloadfunc"):
        cls = ops.Call if k == "@mkcall" else ops.LoadFunc
        return cls(build_type(s[1]), _opt(build_type, s[2]), _opt(lambda a: [build_arg(x) for x in a], s[3]))
    if k == "@callind":
        return ops.CallIndirect(_opt(build_type, s[1]))
    if k == "@aliasdecl":
        return ops.AliasDecl(s[1], _mk_b(s[2]))
    if k == "@aliasdefn":
        return ops.AliasDefn(s[1], build_type(s[2]))
    if k == "@some":
        return ops.Some(*_row(s[1]))
    if k in ("@left", "@right", "@continue", "@break"):
        from hugr import tys

        cls = {"@left": ops.Left, "@right": ops.Right, "@continue": ops.Continue, "@break": ops.Break}[k]
        return cls(tys.Either(_row(s[1]), _row(s[2])))
    raise ValueError(s)


def _orow(r):
    return "@none" if r is None else [type_to_spec(t) for t in r]


def op_to_spec(op):
    """Real operation object -> spec of its stored state (attribute by attribute; no accessor that checks
    completeness is used)."""
    from hugr import ops

    if isinstance(op, ops.Input):
        return ["@input", _orow(op.types)]
    if isinstance(op, ops.Output):
        return ["@output", _orow(op._types)]
    if isinstance(op, ops.Custom):
        return ["@custom", op.op_name, type_to_spec(op.signature), op.description, op.extension,
                [arg_to_spec(a) for a in op.args]]
    if isinstance(op, ops.ExtOp):
        return ["@extop", opdef_to_spec(op._op_def),
                "@none" if op.signature is None else type_to_spec(op.signature), [arg_to_spec(a) for a in op.args]]
    if isinstance(op, ops.MakeTuple):
        return ["@maketuple", _orow(op._types)]
    if isinstance(op, ops.UnpackTuple):
        return ["@unpacktuple", _orow(op._types)]
    if isinstance(op, ops.Noop):
        return ["@noop", "@none" if op._type is None else type_to_spec(op._type)]
    if isinstance(op, ops.Tag):
        return ["@tag", op.tag, sum_to_spec(op.sum_ty)]
    if isinstance(op, ops.DFG):
        return ["@dfg", _orow(op.inputs), _orow(op._outputs), list(op._extension_delta)]
    if isinstance(op, ops.CFG):
        return ["@cfg", _orow(op.inputs), _orow(op._outputs)]
    if isinstance(op, ops.DataflowBlock):
        return ["@block", _orow(op.inputs), "@none" if op._sum is None else sum_to_spec(op._sum),
                _orow(op._other_outputs), list(op.extension_delta)]
    if isinstance(op, ops.ExitBlock):
        return ["@exit", _orow(op._cfg_outputs)]
    if isinstance(op, ops.Const):
        return ["@const", value_to_spec(op.val)]
    if isinstance(op, ops.LoadConst):
        return ["@loadconst", "@none" if op._typ is None else type_to_spec(op._typ)]
    if isinstance(op, ops.Conditional):
        return ["@cond", sum_to_spec(op.sum_ty), _orow(op.other_inputs), _orow(op._outputs)]
    if isinstance(op, ops.Case):
        return ["@case", _orow(op.inputs), _orow(op._outputs)]
    if isinstance(op, ops.TailLoop):
        return ["@tailloop", _orow(op.just_inputs), _orow(op.rest), _orow(op._just_outputs), list(op.extension_delta)]
    if isinstance(op, ops.FuncDefn):
        return ["@funcdefn", op.f_name, _orow(op.inputs), [param_to_spec(p) for p in op.params], _orow(op._outputs)]
    if isinstance(op, ops.FuncDecl):
        return ["@funcdecl", op.f_name, type_to_spec(op.signature)]
    if isinstance(op, ops.Module):
        return "@module"
    if isinstance(op, (ops.Call, ops.LoadFunc)):
        return ["@call" if isinstance(op, ops.Call) else "@loadfunc", type_to_spec(op.signature),
                type_to_spec(op.instantiation), [arg_to_spec(a) for a in op.type_args]]
    if isinstance(op, ops.CallIndirect):
        return ["@callind", "@none" if op._signature is None else type_to_spec(op._signature)]
    if isinstance(op, ops.AliasDecl):
        return ["@aliasdecl", op.alias, _b(op.bound)]
    if isinstance(op, ops.AliasDefn):
        return ["@aliasdefn", op.alias, type_to_spec(op.definition)]
    raise TypeError(op)


def op_to_sx(s):
    """Op spec -> sexp tree (the value of a `@const` goes through `value_to_sx`)."""
    if isinstance(s, list) and s and s[0] == "@const":
        return [A("const"), value_to_sx(s[1])]
    return spec_to_sx(s)


def op_sexp(s) -> str:
    return dumps(op_to_sx(s))


# ---- random operations

OP_NAMES = ["f", "main", "op.x", "é", ""]
_SIMPLE_VALUES = [
    ["@vsum", 1, ["@unit", 2], []],
    ["@vsum", 0, ["@unit", 1], []],
    ["@vtuple", []],
    ["@vtuple", [["@vsum", 0, ["@unit", 2], []], ["@vsum", 2, ["@unit", 3], []]]],
    ["@vsum", 1, ["@sum", [[], [["@unit", 2]]]], [["@vsum", 1, ["@unit", 2], []]]],
    ["@vsum", 0, ["@sum", [["@usize"], ["@qubit"]]], [["@vext", "ConstUsize", "@usize", ["@json", 7], []]]],
    ["@vext", "ConstUsize", "@usize", ["@json", 3], ["prelude"]],
    ["@vext", "c", ["@opaque", "t", "@C", [], "e"], ["@json", {"a": [1, "x"], "b": None}], []],
    ["@vtuple", [["@vext", "s", ["@opaque", "string", "@C", [], "prelude"], ["@json", "naïve \"q\""], []]]],
]


def gen_reqs(rng):
    return [rng.choice(EXTS) for _ in range(rng.choice([0, 0, 1, 2]))]


def gen_oprow(rng, depth=2, maxlen=3, rowvars=True):
    """Row for an operation: empty rows, linear types (qubit), row variables."""
    n = rng.choice([0, 0, 1, 1, 2, 2, 3][: maxlen * 2 + 1])
    out = []
    for _ in range(n):
        r = rng.random()
        if r < 0.2:
            out.append("@qubit")
        elif r < 0.3 and rowvars:
            out.append(["@rowvar", rng.randint(0, 1), rng.choice(["@C", "@A"])])
        elif r < 0.4:
            out.append(["@unit", 2])
        else:
            out.append(gen_type(rng, depth))
    return out


def gen_sig(rng, depth=2):
    return ["@fn", gen_oprow(rng, depth), gen_oprow(rng, depth), gen_reqs(rng)]


def gen_poly(rng, depth=2, nparams=None):
    k = rng.choice([0, 0, 1, 1, 2]) if nparams is None else nparams
    params = []
    for _ in range(k):
        params.append(rng.choice([["@plist", ["@ptype", "@A"]], ["@ptype", "@A"], ["@ptype", "@C"], gen_param(rng, 1)]))
    return ["@poly", params, gen_oprow(rng, depth), gen_oprow(rng, depth), gen_reqs(rng)]


def gen_sum(rng, depth=2):
    if rng.random() < 0.25:
        return ["@usum", rng.choice([0, 1, 2, 3])]
    return ["@gsum", [gen_oprow(rng, depth) for _ in range(rng.choice([0, 1, 2, 2, 3]))]]


def gen_args(rng, n=None, depth=2):
    n = rng.randint(0, 2) if n is None else n
    return [gen_arg(rng, depth) for _ in range(n)]


def gen_plain_value(rng):
    return rng.choice(_SIMPLE_VALUES)


OP_KINDS = [
    "input", "output", "custom", "extop", "maketuple", "unpacktuple", "noop", "tag", "dfg", "cfg", "block", "exit",
    "const", "loadconst", "cond", "case", "tailloop", "funcdefn", "funcdecl", "module", "call", "callind", "loadfunc",
    "aliasdecl", "aliasdefn", "sugar",
]


def gen_op(rng, kind=None, depth=2, partial=0.2, value=None):
    """Random constructor-form op spec.  `partial`: probability that an optional (`None`-able) field is left unset."""
    k = kind or rng.choice(OP_KINDS)
    opt = lambda x: "@none" if rng.random() < partial else x  # noqa: E731
    row = lambda: gen_oprow(rng, depth)  # noqa: E731
    if k == "input":
        return ["@input", row()]
    if k == "output":
        return ["@output", opt(row())]
    if k == "custom":
        return ["@custom", rng.choice(OP_NAMES), gen_sig(rng, depth), rng.choice(["", "a description", "dé\"sc", "Ends with a newline.\n", "  indented"]),
                rng.choice(EXTS + [""]), gen_args(rng)]
    if k == "extop":
        poly = "@none" if rng.random() < 0.2 else gen_poly(rng, depth)
        d = ["@opdef", rng.choice(EXTS + ["@none"]), rng.choice(OP_NAMES), rng.choice(["", "op description"]), poly]
        return ["@extop", d, "@none" if rng.random() < 0.4 else gen_sig(rng, depth), gen_args(rng)]
    if k == "maketuple":
        return ["@maketuple", opt(row())]
    if k == "unpacktuple":
        return ["@unpacktuple", opt(row())]
    if k == "noop":
        return ["@noop", opt(gen_type(rng, depth))]
    if k == "tag":
        s = gen_sum(rng, depth)
        n = s[1] if s[0] == "@usum" else len(s[1])
        return ["@tag", rng.randint(0, n - 1) if n and rng.random() < 0.85 else rng.choice([n, n + 1, 0, -1, -n - 1]), s]
    if k == "dfg":
        return ["@dfg", row(), opt(row()), gen_reqs(rng)]
    if k == "cfg":
        return ["@cfg", row(), opt(row())]
    if k == "block":
        return ["@block", row(), opt(gen_sum(rng, depth)), opt(row()), gen_reqs(rng)]
    if k == "exit":
        return ["@exit", opt(row())]
    if k == "const":
        return ["@const", value if value is not None else gen_plain_value(rng)]
    if k == "loadconst":
        return ["@loadconst", opt(gen_type(rng, depth))]
    if k == "cond":
        return ["@cond", gen_sum(rng, depth), row(), opt(row())]
    if k == "case":
        return ["@case", row(), opt(row())]
    if k == "tailloop":
        return ["@tailloop", row(), row(), opt(row()), gen_reqs(rng)]
    if k == "funcdefn":
        return ["@funcdefn", rng.choice(OP_NAMES), row(), [gen_param(rng, 1) for _ in range(rng.choice([0, 0, 1, 2]))],
                opt(row())]
    if k == "funcdecl":
        return ["@funcdecl", rng.choice(OP_NAMES), gen_poly(rng, depth)]
    if k == "module":
        return "@module"
    if k in ("call", "loadfunc"):
        poly = gen_poly(rng, depth)
        n = len(poly[1])
        r = rng.random()
        if n and r < 0.5:
            # row-variable body whose instantiation changes the arity
            b = rng.choice(["@A", "@C"])
            poly = ["@poly", [["@plist", ["@ptype", b]]] + poly[1][1:],
                    [["@rowvar", 0, b]] + poly[2][:1], [["@rowvar", 0, b]] + poly[3][:1], poly[4]]
        inst = gen_sig(rng, depth)
        nargs = n if rng.random() < 0.85 else rng.choice([0, n + 1])
        args = gen_args(rng, nargs)
        r = rng.random()
        form = "@mkcall" if k == "call" else "@mkloadfunc"
        if r < 0.08:
            return [form, poly, "@none", args]
        if r < 0.16:
            return [form, poly, inst, "@none"]
        return [form, poly, inst, args]
    if k == "callind":
        return ["@callind", opt(gen_sig(rng, depth))]
    if k == "aliasdecl":
        return ["@aliasdecl", rng.choice(NAMES), rng.choice(["@C", "@A"])]
    if k == "aliasdefn":
        return ["@aliasdefn", rng.choice(NAMES), gen_type(rng, depth)]
    if k == "sugar":
        f = rng.choice(["@some", "@left", "@right", "@continue", "@break"])
        return [f, row()] if f == "@some" else [f, row(), row()]
    raise ValueError(k)
