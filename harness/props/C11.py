"""C11 — extension resolution is conservative, idempotent and invisible on the wire.

Case kinds (spec["kind"]):
  ty   a type expression `t` and a registry:          t.resolve(reg), twice
  arg  a type argument `a` and a registry:            a.resolve(reg), twice
  op   one operation as the root of a HUGR:           Hugr(op).resolve_extensions(reg), twice
  doc  a document produced from a real builder HUGR,  Hugr.load_json(doc).resolve_extensions(reg), twice
       loaded from its serialised form (every extension operation is `Custom`, every extension type `Opaque`)

Registry specs: list of
  ["std", name, [dropped definition names]]       a bundled standard extension (freshly loaded copy), some
                                                   definitions removed (extension present, definition absent)
  ["gen", {"name", "version", "types": [[name, desc, [P…], D]…], "ops": [[name, desc, POLY|"@none"]…]}]

Observation (JSON text): per state (before / after one / after two resolutions) the structural dump
(s-expression text: Opaque vs ExtType at every depth, Custom vs ExtOp per node), the serialised form as a
JSON value, and the derived facts (bound; signature, number of outputs, port kinds, bounds of the port types
of every extension operation); for type expressions also the `to_model()` term.
"""
from __future__ import annotations

import copy
import dataclasses
import enum
import json
import random

import bridge
from bridge import json_to_sx, spec_to_sx
from core import Failure, ddmin
from sexp import A, dumps

PROP = "C11"
TITLE = "Extension resolution is conservative, idempotent and invisible on the wire"
LEAN_TARGETS = ["HugrVerif.Props.C11"]
DRIVE_TARGETS = ["HugrVerif.Drive.Resolve"]
RULE = (
    "(a) type expressions / type arguments: opaque types (naming definitions of a generated universe of 1-3 extensions, "
    "with arguments fitting the declared parameters, bounds as the definition computes them — 8% left arbitrary) nested in "
    "sums, function types, polymorphic function types, type arguments, sequence arguments and arguments of opaque types, "
    "next to already resolved extension types, variables, aliases; registries = random sub-registries of the universe "
    "(empty / extension missing / definition missing / complete); (b) single operations (Custom with such signatures and "
    "arguments, and every other operation class) as the root of a HUGR; (c) documents: to_json of modules made by the real "
    "builders (C09.build_module, C02 built+mutated HUGRs, a collections module with List<int<5>>, Array<…>, Option<List<…>>), "
    "loaded with Hugr.load_json, against registries drawn from the 11 bundled standard extensions (each possibly with used "
    "definitions removed) and generated extensions. Non-trivial = at least one opaque type or operation is replaced; "
    "distinct by full spec."
)
TRUSTED = [
    "registry transport: the Lean driver receives the registry as read off the real Extension objects (names, owners, "
    "parameters, bounds, descriptions, type schemes with their requirement lists in the set order of the run; misc/values/lower_funcs not transported); "
    "standard extensions with more than 8 operations are pruned to the definitions whose names occur in the case plus two "
    "others (Lean lemma resolve_congr: resolution only depends on the looked-up definitions)",
    "Hugr.load_json / to_json tied to Serial.loadJson / toJson (opsCodec) by C02/C05/C06; type_bound and _to_serial by C07",
    "whole-HUGR model export (Hugr.to_model) is compared before/after by the oracle only (no Lean exporter); the Lean "
    "statement covers the type terms (Resolve.toModel)",
]
ASSUMPTIONS = [
    "RegistryWf: registry keys equal extension names, definition dict keys equal definition names, definitions are owned "
    "by the extension that holds them (what add_extension / add_type_def / add_op_def establish)",
    "BoundsConsistent: an opaque type naming a known definition stores the bound the definition computes; where a case "
    "violates it (8% of generated expressions) the wire/bound/facts clauses are not demanded (resolution legitimately "
    "changes the emitted bound), the other clauses are",
    "extension names are non-empty (an operation of extension '' is exported as '.name' when opaque, 'name' when resolved)",
]

STD = [
    "prelude", "logic", "ptr", "arithmetic.int.types", "arithmetic.int", "arithmetic.float.types", "arithmetic.float",
    "arithmetic.conversions", "collections.list", "collections.array", "collections.static_array",
]
DROP_POOL = ["int", "float64", "string", "List", "array", "Not", "MakeTuple", "UnpackTuple", "Noop", "idivmod_u", "error"]
EXTS = ["e", "arithmetic.int.types", "ext.β", "x"]
TNAMES = ["t", "Ty", "q.r", "é", "名"]
ONAMES = ["f", "main", "op.x", "é"]
DESCS = ["", "a description", "dé\"sc"]

# ----------------------------------------------------------------------------- registries


_STD_CACHE: dict = {}
_OD_SX: dict = {}
_REG_CACHE: dict = {}


def _std_ext(name, drop):
    from hugr.std import _load_extension

    if name not in _STD_CACHE:
        _STD_CACHE[name] = _load_extension(name)
        _STD_CACHE[name]._verif_std = True
    if not drop:
        return _STD_CACHE[name]
    e = copy.deepcopy(_STD_CACHE[name])
    for d in drop:
        e.types.pop(d, None)
        e.operations.pop(d, None)
    return e


def _gen_ext(desc):
    from hugr import ext as hext

    e = hext.Extension(desc["name"], hext.Version(*desc.get("version", [0, 1, 0])))
    for name, d, params, bound in desc["types"]:
        b = hext.ExplicitBound(bridge._mk_b(bound[1])) if bound[0] == "@explicit" else hext.FromParamsBound(list(bound[1:]))
        e.add_type_def(hext.TypeDef(name=name, description=d, params=[bridge.build_param(p) for p in params], bound=b))
    for name, d, poly in desc["ops"]:
        pf = None if poly == "@none" else bridge.build_type(poly)
        e.add_op_def(hext.OpDef(name, hext.OpDefSig(pf, binary=pf is None), d))
    return e


def build_registry(regspec):
    """The real ExtensionRegistry (cached: resolution never mutates it)."""
    from hugr.ext import ExtensionRegistry

    key = json.dumps(regspec, sort_keys=True)
    if key in _REG_CACHE:
        return _REG_CACHE[key]
    r = ExtensionRegistry()
    for ent in regspec:
        r.add_extension(_std_ext(ent[1], ent[2]) if ent[0] == "std" else _gen_ext(ent[1]))
    if len(_REG_CACHE) > 256:
        _REG_CACHE.clear()
    _REG_CACHE[key] = r
    return r


def _opdef_spec(od):
    pf = od.signature.poly_func
    return [
        "@opdef", od._extension.name if od._extension is not None else "@none", od.name, od.description,
        "@none" if pf is None else bridge.type_to_spec(pf),   # requirement list in this run's set order (F29)
    ]


def _strings(x, acc):
    if isinstance(x, str):
        acc.add(x)
    elif isinstance(x, list):
        for y in x:
            _strings(y, acc)
    elif isinstance(x, dict):
        for k, y in x.items():
            acc.add(k)
            _strings(y, acc)


def registry_sx(reg, mentioned, salt, prune=True):
    """(reg ("key" (ext "name" "version" (req…) (types ("key" TD)…) (ops ("key" OD)…)))…) read off the real objects."""
    out = [A("reg")]
    for key, e in reg.extensions.items():
        ops = list(e.operations.items())
        if prune and len(ops) > 8:
            keep = [kv for kv in ops if kv[0] in mentioned]
            rest = [kv for kv in ops if kv[0] not in mentioned]
            random.Random(salt).shuffle(rest)
            keepset = {k for k, _ in keep} | {k for k, _ in rest[:2]}
            ops = [kv for kv in ops if kv[0] in keepset]
        tds = [
            [k, [A("typedef"), A("none") if td._extension is None else td._extension.name, td.name, td.description,
                 [spec_to_sx(bridge.param_to_spec(p)) for p in td.params], spec_to_sx(bridge.typedef_to_spec(td)[5])]]
            for k, td in e.types.items()
        ]
        ods = []
        for k, od in ops:
            ck = (e.name, k) if getattr(e, "_verif_std", False) else None   # bundled definitions never change
            sx = _OD_SX.get(ck) if ck else None
            if sx is None:
                s = _opdef_spec(od)
                sx = [A("opdef"), spec_to_sx(s[1]), s[2], s[3], spec_to_sx(s[4]), A("true" if od.signature.binary else "false")]
                if ck:
                    _OD_SX[ck] = sx
            ods.append([k, sx])
        out.append([key, [A("ext"), e.name, str(e.version), sorted(e.runtime_reqs), [A("types")] + tds, [A("ops")] + ods]])
    return out


# ----------------------------------------------------------------------------- generators: universe, types, ops


def _gen_params(rng):
    out = []
    for _ in range(rng.choice([0, 1, 1, 2, 2, 3])):
        out.append(rng.choice([["@ptype", "@A"], ["@ptype", "@C"], ["@ptype", "@A"], ["@pnat", 7], ["@pnat", "@none"], "@pstr",
                               ["@plist", ["@ptype", "@A"]], ["@ptuple", [["@ptype", "@C"], ["@pnat", 3]]], "@pexts"]))
    return out


def gen_universe(rng):
    exts = []
    for name in rng.sample(EXTS, rng.randint(1, 3)):
        types = []
        for tn in rng.sample(TNAMES, rng.randint(0, 3)):
            params = _gen_params(rng)
            tidx = [i for i, p in enumerate(params) if isinstance(p, list) and p[0] == "@ptype"]
            r = rng.random()
            if r < 0.4 or not params:
                bound = ["@explicit", rng.choice(["@C", "@A"])]
            elif r < 0.92:
                n = len(params)
                bound = ["@from"] + [rng.choice(tidx) if tidx and rng.random() < 0.7 else rng.randrange(-n, n)
                                     for _ in range(rng.randint(0, 3))]
            else:
                bound = ["@from", rng.choice([len(params), -len(params) - 1, len(params) + 2])]   # out of range: raises
            types.append([tn, rng.choice(DESCS), params, bound])
        ops = []
        for on in rng.sample(ONAMES, rng.randint(0, 3)):
            poly = "@none" if rng.random() < 0.2 else bridge.gen_poly(rng, 1)
            ops.append([on, rng.choice(DESCS + ["definition text"]), poly])
        exts.append({"name": name, "version": [rng.randrange(3), rng.randrange(5), 0], "types": types, "ops": ops})
    return exts


def sub_registry(rng, universe):
    """empty / partial (extension missing, definition missing) / complete"""
    r = rng.random()
    if r < 0.12:
        return []
    if r < 0.45:
        return [["gen", copy.deepcopy(e)] for e in universe]
    out = []
    for e in universe:
        if rng.random() < 0.25:
            continue
        e = copy.deepcopy(e)
        e["types"] = [t for t in e["types"] if rng.random() < 0.65]
        e["ops"] = [o for o in e["ops"] if rng.random() < 0.65]
        out.append(["gen", e])
    return out


def _arg_for(rng, p, U, depth):
    if p == "@pstr":
        return ["@str", rng.choice(["", "s", "naïve"])]
    if p == "@pexts":
        return ["@exts", [rng.choice(EXTS) for _ in range(rng.randint(0, 2))]]
    k = p[0]
    if k == "@ptype":
        return ["@ty", gen_ty(rng, U, depth - 1)]
    if k == "@pnat":
        return ["@nat", rng.choice([0, 1, 5, 6])]
    if k == "@plist":
        return ["@seq", [_arg_for(rng, p[1], U, depth - 1) for _ in range(rng.randint(0, 3))]]
    if k == "@ptuple":
        return ["@seq", [_arg_for(rng, q, U, depth - 1) for q in p[1]]]
    raise ValueError(p)


def gen_any_arg(rng, U, depth):
    k = rng.randrange(6)
    if k <= 1:
        return ["@ty", gen_ty(rng, U, depth - 1)]
    if k == 2:
        return ["@seq", [gen_any_arg(rng, U, depth - 1) for _ in range(rng.randint(0, 3))]] if depth > 0 else ["@nat", 3]
    if k == 3:
        return ["@nat", rng.choice([0, 5, 2**40])]
    if k == 4:
        return ["@varg", rng.randint(0, 2), rng.choice([["@ptype", "@A"], ["@plist", ["@ptype", "@C"]], "@pstr"])]
    return rng.choice([["@str", "s"], ["@exts", ["e"]]])


def _known_types(U):
    return [(e["name"], t) for e in U for t in e["types"]]


def gen_opaque(rng, U, depth):
    known = _known_types(U)
    r = rng.random()
    if known and r < 0.75:
        en, (tn, _, params, _) = rng.choice(known)
        if rng.random() < 0.9:
            args = [_arg_for(rng, p, U, depth) for p in params]
        else:
            args = [gen_any_arg(rng, U, depth) for _ in range(rng.randint(0, 3))]
        return ["@opaque", tn, rng.choice(["@C", "@A"]), args, en]
    if r < 0.9:   # known extension name, unknown type name (or the other way round)
        return ["@opaque", rng.choice(TNAMES), rng.choice(["@C", "@A"]),
                [gen_any_arg(rng, U, depth) for _ in range(rng.randint(0, 2))], rng.choice(EXTS)]
    return ["@opaque", rng.choice(TNAMES + ["other"]), rng.choice(["@C", "@A"]),
            [gen_any_arg(rng, U, depth) for _ in range(rng.randint(0, 2))], rng.choice(["unknown.ext", ""])]


def gen_row(rng, U, depth, maxlen=3):
    return [gen_ty(rng, U, depth) for _ in range(rng.randint(0, maxlen))]


def gen_ty(rng, U, depth=3):
    if depth <= 0:
        k = rng.randrange(8 if depth > -2 else 4)
        if k == 0:
            return "@qubit"
        if k == 1:
            return "@usize"
        if k == 2:
            return ["@unit", rng.choice([0, 1, 2, 3])]
        if k == 3:
            return rng.choice([["@var", rng.randint(0, 2), rng.choice(["@C", "@A"])], ["@alias", rng.choice(TNAMES), "@C"]])
        return gen_opaque(rng, U, depth)
    k = rng.randrange(20)
    if k < 3:
        return gen_ty(rng, U, 0)
    if k < 7:
        return ["@sum", [gen_row(rng, U, depth - 1) for _ in range(rng.randint(0, 3))]]
    if k < 10:
        return ["@fn", gen_row(rng, U, depth - 1), gen_row(rng, U, depth - 1), [rng.choice(EXTS) for _ in range(rng.randint(0, 2))]]
    if k < 16:
        return gen_opaque(rng, U, depth)
    if k == 16:
        return ["@rowvar", rng.randint(0, 2), rng.choice(["@C", "@A"])]
    if k == 17:   # polymorphic function type as a row element / type argument (not serialisable there)
        return ["@poly", [["@ptype", "@A"]], gen_row(rng, U, depth - 1, 2), gen_row(rng, U, depth - 1, 2), []]
    # an already resolved extension type (its arguments are not the expression being resolved)
    td = bridge.gen_typedef(rng)
    return ["@ext", td, [gen_any_arg(rng, U, depth - 1) for _ in range(len(td[4]))]]


# ---- reference bound computation (independent of the implementation; used to make opaque bounds consistent
#      and by the oracle to decide whether BoundsConsistent holds)


class _Raises(Exception):
    pass


def _join(bs):
    return "@A" if "@A" in bs else "@C"


def _pyindex(xs, i):
    if -len(xs) <= i < len(xs):
        return xs[i]
    raise _Raises


def _def_bound(bound, args):
    if bound[0] == "@explicit":
        return bound[1]
    bs = []
    for i in bound[1:]:
        a = _pyindex(args, i)
        if a[0] == "@ty":
            bs.append(ref_bound(a[1]))
    return _join(bs)


def ref_bound(t):
    if t == "@qubit":
        return "@A"
    if t == "@usize":
        return "@C"
    k = t[0]
    if k == "@sum":
        return _join([ref_bound(x) for row in t[1] for x in row])
    if k in ("@unit", "@fn", "@poly"):
        return "@C"
    if k in ("@var", "@rowvar", "@alias"):
        return t[2]
    if k == "@opaque":
        return t[2]
    if k == "@ext":
        return _def_bound(t[1][5], t[2])
    raise ValueError(t)


def _defs_of(regspec_or_universe):
    """{(ext, name): [name, desc, params, bound]} of generated extension descriptions"""
    out = {}
    for e in regspec_or_universe:
        if isinstance(e, list):
            if e[0] != "gen":
                continue
            e = e[1]
        for t in e["types"]:
            out[(e["name"], t[0])] = t
    return out


def fix_bounds(t, defs, rng, slack=0.08):
    """Bottom-up: every opaque type naming a definition of `defs` gets the bound the definition computes."""
    if not isinstance(t, list):
        return t
    k = t[0]
    if k == "@sum":
        return ["@sum", [[fix_bounds(x, defs, rng, slack) for x in row] for row in t[1]]]
    if k == "@fn":
        return ["@fn", [fix_bounds(x, defs, rng, slack) for x in t[1]], [fix_bounds(x, defs, rng, slack) for x in t[2]], t[3]]
    if k == "@poly":
        return ["@poly", t[1], [fix_bounds(x, defs, rng, slack) for x in t[2]], [fix_bounds(x, defs, rng, slack) for x in t[3]], t[4]]
    if k == "@opaque":
        args = [fix_arg_bounds(a, defs, rng, slack) for a in t[3]]
        b = t[2]
        d = defs.get((t[4], t[1]))
        if d is not None and rng.random() >= slack:
            try:
                b = _def_bound(d[3], args)
            except _Raises:
                pass
        return ["@opaque", t[1], b, args, t[4]]
    return t


def fix_arg_bounds(a, defs, rng, slack=0.08):
    if a[0] == "@ty":
        return ["@ty", fix_bounds(a[1], defs, rng, slack)]
    if a[0] == "@seq":
        return ["@seq", [fix_arg_bounds(x, defs, rng, slack) for x in a[1]]]
    return a


def _kids(t):
    """type/argument children of a type or argument spec"""
    if not isinstance(t, list) or not t:
        return []
    k = t[0]
    if k == "@sum":
        return [x for row in t[1] for x in row]
    if k == "@fn":
        return [*t[1], *t[2]]
    if k == "@poly":
        return [*t[2], *t[3]]
    if k == "@opaque":
        return list(t[3])
    if k == "@ext":
        return list(t[2])
    if k == "@ty":
        return [t[1]]
    if k == "@seq":
        return list(t[1])
    return []


def _raises_somewhere(t, defs):
    """some extension type inside `t` (as it is, or once resolved against `defs`) has a bound that raises"""
    if isinstance(t, list) and t:
        try:
            if t[0] == "@opaque" and (t[4], t[1]) in defs:
                _def_bound(defs[(t[4], t[1])][3], t[3])
            elif t[0] == "@ext":
                _def_bound(t[1][5], t[2])
        except _Raises:
            return True
    return any(_raises_somewhere(x, defs) for x in _kids(t))


def poly_order_corner(t, defs, nested=False):
    """A polymorphic function type used as a row element / type argument whose body holds a type with a raising
    bound: Python serialises the body first (IndexError), the shared type model (Tys.lean `encRow`/`encArg`)
    reports the ValidationError of the misplaced PolyFuncType first.  Outside the generated fragment."""
    if isinstance(t, list) and t and t[0] == "@poly" and nested and _raises_somewhere(t, defs):
        return True
    return any(poly_order_corner(x, defs, True) for x in _kids(t))


def gen_custom(rng, U):
    known = [(e["name"], o) for e in U for o in e["ops"]]
    r = rng.random()
    if known and r < 0.7:
        en, (on, _, _) = rng.choice(known)
    elif r < 0.9:
        en, on = rng.choice(EXTS), rng.choice(ONAMES)
    else:
        en, on = rng.choice(["unknown.ext", "e"]), rng.choice(["nope", "f"])
    sig = ["@fn", gen_row(rng, U, 2, 2), gen_row(rng, U, 2, 2), [rng.choice(EXTS) for _ in range(rng.randint(0, 2))]]
    args = [gen_any_arg(rng, U, 2) for _ in range(rng.randint(0, 2))]
    return ["@custom", on, sig, rng.choice(DESCS), en, args]


def _fix_op_bounds(op, defs, rng):
    if isinstance(op, list) and op[0] == "@custom":
        return ["@custom", op[1], fix_bounds(op[2], defs, rng), op[3], op[4], [fix_arg_bounds(a, defs, rng) for a in op[5]]]
    return op


# ----------------------------------------------------------------------------- documents


def collections_module(seed):
    """A module whose signatures nest extension types inside arguments of extension types (List<int<5>>,
    Array<3, List<float64>>, Option<List<…>>), with Noop / MakeTuple / UnpackTuple over them."""
    from hugr import ops, tys
    from hugr.build.function import Module
    from hugr.std.collections.array import Array
    from hugr.std.collections.list import List
    from hugr.std.float import FLOAT_T
    from hugr.std.int import int_t
    from hugr.std.logic import Not

    rng = random.Random(seed)
    base = [int_t(5), FLOAT_T, tys.Bool, tys.USize(), int_t(3)]

    def ty(depth):
        k = rng.randrange(6 if depth > 0 else 2)
        if k <= 1:
            return rng.choice(base)
        if k == 2:
            return List(ty(depth - 1))
        if k == 3:
            return Array(ty(depth - 1), rng.choice([0, 3]))
        if k == 4:
            return tys.Option(ty(depth - 1))
        return tys.Tuple(ty(depth - 1), ty(depth - 1))

    mod = Module()
    for i in range(rng.randint(1, 2)):
        ins = [ty(3) for _ in range(rng.randint(1, 3))]
        f = mod.define_function(f"f{i}", ins)
        ws = list(f.inputs())
        outs = []
        for w, t in zip(ws, ins):
            r = rng.random()
            if r < 0.5:
                outs.append(f.add(ops.Noop()(w)))
            elif r < 0.7 and t == tys.Bool:
                outs.append(f.add_op(Not, w))
            else:
                outs.append(w)
        if len(outs) >= 2 and rng.random() < 0.6:
            tup = f.add(ops.MakeTuple()(*outs))
            un = f.add(ops.UnpackTuple()(tup))
            outs = [un[j] for j in range(len(outs))]
        f.set_outputs(*outs)
    if rng.random() < 0.5:
        mod.declare_function("decl", tys.PolyFuncType([], tys.FunctionType([ty(2)], [ty(2)])))
    return mod.hugr


_DOC_CACHE: dict = {}


def doc_of(src):
    key = json.dumps(src)
    if key in _DOC_CACHE:
        return _DOC_CACHE[key]
    from props import C02, C09

    if src[0] == "mod":
        h = C09.build_module(src[1], src[2])
    elif src[0] == "c02":
        h = C02._built_hugr(src[1])
    elif src[0] == "coll":
        h = collections_module(src[1])
    else:
        raise ValueError(src)
    doc = h.to_json()
    if len(_DOC_CACHE) > 8:
        _DOC_CACHE.clear()
    _DOC_CACHE[key] = doc
    return doc


def gen_std_registry(rng):
    r = rng.random()
    if r < 0.1:
        names = []
    elif r < 0.4:
        names = list(STD)
    else:
        names = [n for n in STD if rng.random() < 0.6]
    out = []
    for n in names:
        drop = sorted(d for d in DROP_POOL if rng.random() < 0.12) if rng.random() < 0.4 else []
        out.append(["std", n, drop])
    if rng.random() < 0.3:
        out.append(["gen", {"name": rng.choice(["my.ext", "verif", "拡張"]), "version": [0, 1, 0],
                            "types": [["int", "", [["@pnat", 7]], ["@explicit", "@C"]]],
                            "ops": [["Not", "not the logic one", "@none"], ["extra1", "x", "@none"]]}])
    rng.shuffle(out)
    return out


# ----------------------------------------------------------------------------- structural dumps


def model_dump(x):
    """hugr.model object -> nested list (dataclass name, then the fields in declaration order)."""
    if dataclasses.is_dataclass(x) and not isinstance(x, type):
        return [A(type(x).__name__)] + [model_dump(getattr(x, f.name)) for f in dataclasses.fields(x)]
    if isinstance(x, enum.Enum):
        return A(x.name)
    if isinstance(x, bool):
        return A("true" if x else "false")
    if isinstance(x, int):
        return x
    if isinstance(x, float):
        return [A("float"), repr(x)]
    if isinstance(x, str):
        return x
    if isinstance(x, bytes):
        return [A("bytes"), x.hex()]
    if x is None:
        return A("none")
    if isinstance(x, (list, tuple)):
        return [A("l")] + [model_dump(y) for y in x]
    raise TypeError(type(x))


def _cls(e: BaseException) -> str:
    import pydantic
    from hugr.ops import IncompleteOp

    if isinstance(e, pydantic.ValidationError):
        return "ValidationError"
    if isinstance(e, IncompleteOp):
        return "IncompleteOp"
    if isinstance(e, IndexError):
        return "IndexError"
    if isinstance(e, KeyError):
        return "KeyError"
    if isinstance(e, TypeError):
        return "TypeError"
    if isinstance(e, AssertionError):
        return "AssertionError"
    if isinstance(e, ValueError):
        return "ValueError"
    return "Exception"


def _err(e):
    return {"error": _cls(e)}


def _enc_type(t):
    from hugr import tys

    try:
        ser = t._to_serial() if isinstance(t, tys.PolyFuncType) else t._to_serial_root()
        return json.loads(ser.model_dump_json())
    except Exception as e:  # noqa: BLE001
        return _err(e)


def _bound_of(t):
    try:
        return bridge._b(t.type_bound())[1:]
    except Exception as e:  # noqa: BLE001
        return _err(e)


def _model_of(x):
    try:
        return dumps(model_dump(x.to_model()))
    except Exception as e:  # noqa: BLE001
        return _err(e)


def _ty_state(t, is_arg):
    spec = bridge.arg_to_spec(t) if is_arg else bridge.type_to_spec(t)
    if is_arg:
        try:
            enc = json.loads(t._to_serial_root().model_dump_json())
        except Exception as e:  # noqa: BLE001
            enc = _err(e)
        return {"spec": spec, "enc": enc, "bound": None, "model": _model_of(t)}
    return {"spec": spec, "enc": _enc_type(t), "bound": _bound_of(t), "model": _model_of(t)}


def _op_spec(op):
    s = bridge.op_to_spec(op)
    if isinstance(s, list) and s[0] == "@extop":
        s = [s[0], _opdef_spec(op._op_def), s[2], s[3]]
    return s


def _kind_spec(k):
    from hugr import tys

    if isinstance(k, tys.OrderKind):
        return "@order"
    if isinstance(k, tys.ValueKind):
        return ["@value", bridge.type_to_spec(k.ty)]
    return ["@other", type(k).__name__]


def _facts(op):
    """Derived facts of an extension operation (Custom / ExtOp)."""
    from hugr.hugr.node_port import InPort, Node, OutPort

    n = Node(0)
    try:
        sig = op.outer_signature()
    except Exception as e:  # noqa: BLE001
        return {"sig": _err(e)}
    try:
        num_out = op.num_out
    except Exception as e:  # noqa: BLE001
        num_out = _err(e)

    def kinds(mk, row):
        out = []
        for off in range(-1, len(row) + 1):
            try:
                out.append(_kind_spec(op.port_kind(mk(n, off))))
            except Exception as e:  # noqa: BLE001
                out.append(_err(e))
        return out

    return {
        "sig": bridge.type_to_spec(sig), "num_out": num_out,
        "in": kinds(InPort, sig.input), "out": kinds(OutPort, sig.output),
        "bounds": [_bound_of(t) for t in [*sig.input, *sig.output]],
        "enc": [_enc_type(t) for t in [*sig.input, *sig.output]],
    }


def _hugr_state(h):
    from hugr import ops

    nodes = []
    for n in h:
        op = h[n].op
        spec = _op_spec(op)
        facts = _facts(op) if isinstance(op, (ops.Custom, ops.ExtOp)) else None
        nodes.append([n.idx, spec, facts])
    # read-only observers of every operation (display name, equality, printing, rendering) run BEFORE the document is
    # taken: looking at a resolved operation must not change what is written (seeded change C11-13: a requirement list
    # shared between the replaced and the resolved operation, extended in place by the first `name()` / `==`)
    for n in h:
        op = h[n].op
        for look in (lambda: op.name(), lambda: op == op, lambda: str(op), lambda: repr(op)):
            try:
                look()
            except Exception:  # noqa: BLE001
                pass
    try:
        h.render_dot()
    except Exception:  # noqa: BLE001
        pass
    try:
        doc = json.loads(h.to_json())
    except Exception as e:  # noqa: BLE001
        doc = _err(e)
    try:
        model = dumps(model_dump(h.to_model()))
    except Exception as e:  # noqa: BLE001
        model = _err(e)
    return {"nodes": nodes, "doc": doc, "model": model}


# ----------------------------------------------------------------------------- evaluation (shared by run_impl / oracle)


_cache = [None, None]


def _eval(spec):
    key = json.dumps(spec, sort_keys=True)
    if _cache[0] == key:
        return _cache[1]
    res = _eval_uncached(spec)
    _cache[:] = [key, res]
    return res


def _grown_registry(spec):
    """A fresh registry object that held less when the same expression / HUGR was resolved against it once, and got
    its final content afterwards: what is replaced must depend on what the registry holds when resolving, not on
    what it held at an earlier resolution.  The first `grow` extensions are there from the start; every later one
    is either added whole afterwards (`add_extension`), or — for every other registry, so that no `add_extension`
    call follows the earlier resolution — registered from the start without its type definitions, which are then
    added in place (`add_type_def` on the registered extension object)."""
    from hugr.ext import ExtensionRegistry
    from hugr.hugr import Hugr

    r = ExtensionRegistry()
    ents = spec["reg"]

    def full(ent):
        return copy.deepcopy(_std_ext(ent[1], ent[2])) if ent[0] == "std" else _gen_ext(ent[1])

    later = []
    for k, ent in enumerate(ents):
        e = full(ent)
        if k < spec["grow"]:
            r.add_extension(e)
        elif len(json.dumps(spec["reg"])) % 2 == 1:
            # registered from the start, but without its type definitions (taken out of the fresh object before
            # anything looked at it); they are added back through `add_type_def` after the earlier resolution
            tds = list(e.types.values())
            e.types.clear()
            r.add_extension(e)
            later.append(("defs", e, tds))
        else:
            later.append(("ext", None, e))
    try:  # the earlier resolution (on a throw-away copy)
        k = spec["kind"]
        if k == "ty":
            bridge.build_type(spec["t"]).resolve(r)
        elif k == "arg":
            bridge.build_arg(spec["t"]).resolve(r)
        elif k == "op":
            Hugr(bridge.build_op(spec["op"])).resolve_extensions(r)
        else:
            Hugr.load_json(doc_of(spec["src"])).resolve_extensions(r)
    except Exception:  # noqa: BLE001
        pass
    for how, shell, e in later:
        if how == "ext":
            r.add_extension(e)
        else:
            for td in e:
                shell.add_type_def(td)
    return r


def _eval_uncached(spec):
    from hugr.hugr import Hugr

    try:
        reg = build_registry(spec["reg"]) if spec.get("grow") is None else _grown_registry(spec)
    except Exception as e:  # noqa: BLE001
        return ("build-failed", repr(e)[:200])
    k = spec["kind"]
    try:
        if k in ("ty", "arg"):
            is_arg = k == "arg"
            t0 = bridge.build_arg(spec["t"]) if is_arg else bridge.build_type(spec["t"])
            states = [_ty_state(t0, is_arg)]
            t = t0
            for _ in range(2):
                try:
                    t = t.resolve(reg)
                except Exception as e:  # noqa: BLE001
                    states.append(_err(e))
                    break
                states.append(_ty_state(t, is_arg))
            return ("ok", reg, states, None)
        if k == "op":
            h = Hugr(bridge.build_op(spec["op"]))
            doc0 = None
        else:
            doc0 = doc_of(spec["src"])
            h = Hugr.load_json(doc0)
    except Exception as e:  # noqa: BLE001
        return ("build-failed", repr(e)[:200])
    states = [_hugr_state(h)]
    for _ in range(2):
        try:
            h.resolve_extensions(reg)
        except Exception as e:  # noqa: BLE001
            states.append(_err(e))
            break
        states.append(_hugr_state(h))
    return ("ok", reg, states, doc0)


# ----------------------------------------------------------------------------- observation / payload


def _sx(spec):
    return dumps(spec_to_sx(spec))


def _err_or(x, f):
    return x if isinstance(x, dict) and set(x) == {"error"} else f(x)


def _kind_sx(k):
    return k if isinstance(k, dict) else _sx(k)


def _facts_obs(f):
    if f is None:
        return None
    if isinstance(f["sig"], dict):
        return [f["sig"]]
    return [_sx(f["sig"]), f["num_out"], [_kind_sx(k) for k in f["in"]], [_kind_sx(k) for k in f["out"]], f["bounds"]]


def _node_obs(n):
    idx, spec, facts = n
    if isinstance(spec, list) and spec[0] == "@const":
        return [idx, "const", None]
    return [idx, dumps(bridge.op_to_sx(spec)), _facts_obs(facts)]


def run_impl(spec):
    if spec["kind"] == "reg":   # transport self-check: the registry as sent, to be printed back by the driver
        try:
            return dumps(registry_sx(build_registry(spec["reg"]), set(), "", prune=False))
        except Exception:  # noqa: BLE001
            return "build-failed"
    r = _eval(spec)
    if r[0] != "ok":
        return r[0]
    _, _, states, _ = r
    out = []
    for st in states:
        if set(st) == {"error"}:
            out.append(st)
        elif spec["kind"] in ("ty", "arg"):
            out.append([_sx(st["spec"]), st["enc"], st["bound"], st["model"]])
        else:
            out.append([[_node_obs(n) for n in st["nodes"]], st["doc"]])
    return json.dumps(out, sort_keys=True, ensure_ascii=False)


def _encoder():
    from hugr import __version__

    return f"hugr-py v{__version__}"


def payload(spec):
    """Computed from the spec alone (the check driver calls this in the parent process)."""
    if spec["kind"] == "reg":
        try:
            return "resolve.reg", dumps(registry_sx(build_registry(spec["reg"]), set(), "", prune=False))
        except Exception:  # noqa: BLE001
            return None
    try:
        reg = build_registry(spec["reg"])
        k = spec["kind"]
        mentioned: set = set()
        if k == "doc":
            docv = json.loads(doc_of(spec["src"]))
            _strings(docv, mentioned)
        else:
            _strings(spec.get("t", spec.get("op")), mentioned)
    except Exception:  # noqa: BLE001
        return None
    salt = json.dumps(spec, sort_keys=True)
    rsx = registry_sx(reg, mentioned, salt)
    if k == "ty":
        return "resolve.ty", dumps([rsx, spec_to_sx(spec["t"])])
    if k == "arg":
        return "resolve.arg", dumps([rsx, spec_to_sx(spec["t"])])
    if k == "op":
        return "resolve.op", dumps([rsx, _encoder(), bridge.op_to_sx(spec["op"])])
    return "resolve.doc", dumps([rsx, _encoder(), json_to_sx(docv)])


def _norm(x):
    if isinstance(x, float) and x == int(x):
        return int(x)
    if isinstance(x, list):
        return [_norm(v) for v in x]
    if isinstance(x, dict):
        return {k: _norm(v) for k, v in x.items()}
    return x


def compare(spec, impl_obs, model_obs):
    if impl_obs in ("build-failed",):
        return True
    if spec["kind"] == "reg":
        return impl_obs == model_obs
    try:
        return _norm(json.loads(impl_obs)) == _norm(json.loads(model_obs))
    except Exception:  # noqa: BLE001
        return False


# ----------------------------------------------------------------------------- oracle (from the property text)


def _reg_view(reg):
    """What the registry holds, read off the objects: {(ext, name): TypeDef}, {(ext, name): OpDef}."""
    tds, ods = {}, {}
    for key, e in reg.extensions.items():
        for n, td in e.types.items():
            tds[(key, n)] = td
        for n, od in e.operations.items():
            ods[(key, n)] = od
    return tds, ods


def expect_ty(t, tds):
    """The expression the property demands after resolution: an opaque type is replaced by its definition-backed
    form exactly when the registry has the extension and the definition; every depth of the expression is reached
    (sums, function types, type arguments, arguments of opaque types); everything else is untouched."""
    if not isinstance(t, list):
        return t
    k = t[0]
    if k == "@sum":
        return ["@sum", [[expect_ty(x, tds) for x in row] for row in t[1]]]
    if k == "@fn":
        return ["@fn", [expect_ty(x, tds) for x in t[1]], [expect_ty(x, tds) for x in t[2]], t[3]]
    if k == "@poly":
        return ["@poly", t[1], [expect_ty(x, tds) for x in t[2]], [expect_ty(x, tds) for x in t[3]], t[4]]
    if k == "@opaque":
        args = [expect_arg(a, tds) for a in t[3]]
        td = tds.get((t[4], t[1]))
        if td is None:
            return ["@opaque", t[1], t[2], args, t[4]]
        return ["@ext", bridge.typedef_to_spec(td), args]
    return t


def expect_arg(a, tds):
    if a[0] == "@ty":
        return ["@ty", expect_ty(a[1], tds)]
    if a[0] == "@seq":
        return ["@seq", [expect_arg(x, tds) for x in a[1]]]
    return a


def expect_op(op, tds, ods):
    if isinstance(op, list) and op[0] == "@custom":
        od = ods.get((op[4], op[1]))
        if od is None:
            return op
        return ["@extop", _opdef_spec(od), expect_ty(op[2], tds), [expect_arg(a, tds) for a in op[5]]]
    return op


def _first_diff(want, got, path=""):
    """(path, wanted subterm, got subterm) of the first difference of two specs"""
    if isinstance(want, list) and isinstance(got, list) and want and got and isinstance(want[0], str) \
            and isinstance(got[0], str) and want[0].startswith("@") and want[0] != got[0]:
        return path, want, got
    if isinstance(want, list) and isinstance(got, list) and len(want) == len(got):
        for i, (x, y) in enumerate(zip(want, got)):
            if x != y:
                return _first_diff(x, y, f"{path}/{i}")
        return None
    if want != got:
        return path, want, got
    return None


def _classify(before, want, got):
    """discrepancy class of `got` against `want` (both derived from `before`)"""
    d = _first_diff(want, got)
    if d is None:
        return None
    path, w, g = d
    hw = w[0] if isinstance(w, list) and w else w
    hg = g[0] if isinstance(g, list) and g else g
    if hw == "@ext" and hg == "@opaque":
        # where does the unresolved type sit?  inside the arguments of a resolved extension type → F10's class
        inside = _inside_ext_args(got, path)
        return ("opaque-type-in-arguments-of-opaque-type-not-resolved" if inside else "opaque-type-not-resolved"), path
    if hw == "@opaque" and hg == "@ext":
        return "resolved-without-definition", path
    if hw == "@extop" and hg == "@custom":
        return "operation-not-resolved", path
    if hw == "@custom" and hg == "@extop":
        return "operation-resolved-without-definition", path
    return "changed-something-else", path


def _inside_ext_args(got, path):
    cur = got
    seen = False
    for step in [int(p) for p in path.split("/") if p]:
        if isinstance(cur, list) and cur and cur[0] in ("@ext", "@opaque"):
            seen = True
        cur = cur[step]
    return seen


def consistent_ty(t, tds):
    """BoundsConsistent: every opaque type (at a position resolution reaches) that names a known definition
    stores the bound that definition computes for its arguments."""
    if not isinstance(t, list):
        return True
    k = t[0]
    if k == "@sum":
        return all(consistent_ty(x, tds) for row in t[1] for x in row)
    if k == "@fn":
        return all(consistent_ty(x, tds) for x in [*t[1], *t[2]])
    if k == "@poly":
        return all(consistent_ty(x, tds) for x in [*t[2], *t[3]])
    if k == "@opaque":
        if not all(consistent_arg(a, tds) for a in t[3]):
            return False
        td = tds.get((t[4], t[1]))
        if td is None:
            return True
        try:
            return _def_bound(bridge.typedef_to_spec(td)[5], t[3]) == t[2]
        except _Raises:
            return False
    return True


def consistent_arg(a, tds):
    if a[0] == "@ty":
        return consistent_ty(a[1], tds)
    if a[0] == "@seq":
        return all(consistent_arg(x, tds) for x in a[1])
    return True


def _strip_desc(doc, ods, before_doc):
    """Serialised documents are compared with the free-text description of an extension operation allowed to
    change to its definition's: returns (doc with the allowed changes undone, list of illegal description changes)."""
    if not (isinstance(doc, dict) and isinstance(before_doc, dict) and "nodes" in doc and "nodes" in before_doc):
        return doc, []
    bad = []
    out = dict(doc)
    nodes = []
    for i, n in enumerate(doc["nodes"]):
        b = before_doc["nodes"][i] if i < len(before_doc["nodes"]) else None
        if isinstance(n, dict) and n.get("op") == "Extension" and isinstance(b, dict) and n.get("description") != b.get("description"):
            od = ods.get((n.get("extension"), n.get("name")))
            if od is not None and n.get("description") == od.description:
                n = {**n, "description": b.get("description")}
            else:
                bad.append(i)
        nodes.append(n)
    out["nodes"] = nodes
    return out, bad


def oracle(spec):
    if spec["kind"] == "reg":
        return []
    r = _eval(spec)
    if r[0] != "ok":
        return []
    _, reg, states, _ = r
    tds, ods = _reg_view(reg)
    fails: list[Failure] = []
    k = spec["kind"]
    s0 = states[0]
    for i, st in enumerate(states[1:], 1):
        if set(st) == {"error"}:
            return [Failure("resolve", "raises", f"resolution {i}: {st['error']}")]
    s1, s2 = states[1], states[2]
    if k in ("ty", "arg"):
        is_arg = k == "arg"
        site = "TypeArg.resolve" if is_arg else "Type.resolve"
        want = (expect_arg if is_arg else expect_ty)(s0["spec"], tds)
        c = _classify(s0["spec"], want, s1["spec"])
        if c:
            cls, path = c
            fails.append(Failure("Opaque.resolve" if "arguments-of-opaque" in cls else site, cls,
                                 f"at {path}: got {_sx(s1['spec'])[:300]} expected {_sx(want)[:300]}"))
        cons = (consistent_arg if is_arg else consistent_ty)(s0["spec"], tds)
        if cons:
            if s1["enc"] != s0["enc"]:
                fails.append(Failure(site, "serialised-form-changed", f"{json.dumps(s0['enc'])[:300]} -> {json.dumps(s1['enc'])[:300]}"))
            if s1["bound"] != s0["bound"]:
                fails.append(Failure(site, "bound-changed", f"{s0['bound']} -> {s1['bound']}"))
        if s1["model"] != s0["model"]:
            fails.append(Failure("Opaque.to_model", "export-changed-by-resolution", f"{s0['model']!s:.300} -> {s1['model']!s:.300}"))
        if s2 != s1:
            fails.append(Failure(site, "not-idempotent", f"{_sx(s1['spec'])[:300]} -> {_sx(s2['spec'])[:300]}"))
        return fails
    # HUGR-level
    site = "Hugr.resolve_extensions"
    cons = True
    if len(s1["nodes"]) != len(s0["nodes"]):
        return [Failure(site, "node-set-changed", "")]
    for (idx, spec0, f0), (idx1, spec1, f1) in zip(s0["nodes"], s1["nodes"]):
        want = expect_op(spec0, tds, ods)
        c = _classify(spec0, want, spec1)
        if c and not fails:
            cls, path = c
            fails.append(Failure("Opaque.resolve" if "arguments-of-opaque" in cls else
                                 ("Custom.resolve" if isinstance(spec0, list) and spec0[0] == "@custom" else site), cls,
                                 f"node {idx} at {path}: got {_sx_op(spec1)[:300]} expected {_sx_op(want)[:300]}"))
        if isinstance(spec0, list) and spec0[0] == "@custom":
            ncons = consistent_ty(spec0[2], tds) and all(consistent_arg(a, tds) for a in spec0[5])
            cons = cons and ncons
            if ncons and f0 is not None and f1 is not None and not isinstance(f0["sig"], dict):
                if isinstance(f1["sig"], dict):
                    fails.append(Failure("Custom.resolve", "signature-changed", f"node {idx}: raises {f1['sig']}"))
                elif (f1["num_out"], f1["bounds"], f1["enc"]) != (f0["num_out"], f0["bounds"], f0["enc"]) or \
                        [_kind_cls(x) for x in f1["in"]] != [_kind_cls(x) for x in f0["in"]] or \
                        [_kind_cls(x) for x in f1["out"]] != [_kind_cls(x) for x in f0["out"]]:
                    fails.append(Failure("Custom.resolve", "signature-port-types-or-bounds-changed", f"node {idx}"))
    if cons:
        d1, bad = _strip_desc(s1["doc"], ods, s0["doc"])
        if bad:
            fails.append(Failure(site, "description-changed-to-something-else", f"nodes {bad}"))
        elif d1 != s0["doc"]:
            fails.append(Failure(site, "serialised-document-changed", str(_first_diff(s0["doc"], d1))[:400]))
    if s1["model"] != s0["model"]:
        fails.append(Failure("Opaque.to_model", "export-changed-by-resolution", _str_diff(s0["model"], s1["model"])))
    if s2 != s1:
        fails.append(Failure(site, "not-idempotent", ""))
    if not fails:
        fails.extend(_holes_check(spec, reg))
    return fails


def _holes_check(spec, reg):
    """Resolution reaches EVERY node of a HUGR with a past: two nodes are added after loading (copies of an operation
    the HUGR already holds), the first is deleted again — its index stays vacant — and the HUGR is resolved: the copy that
    sits behind the hole ends up exactly as the node it was copied from (seeded change C11-15: the node table walked up
    to the number of live nodes, which stops short of the last slots when indices are vacant)."""
    import copy as _copy

    from hugr import ops
    from hugr.hugr import Hugr

    try:
        if spec["kind"] == "op":
            h = Hugr(bridge.build_op(spec["op"]))
        else:
            h = Hugr.load_json(doc_of(spec["src"]))
        src = next((n for n in h if isinstance(h[n].op, ops.Custom)), None)
        if src is None:
            return []
        a = h.add_node(_copy.deepcopy(h[src].op), h.root)
        b = h.add_node(_copy.deepcopy(h[src].op), h.root)
        h.delete_node(a)
        h.resolve_extensions(reg)
    except Exception:  # noqa: BLE001
        return []
    want, got = _op_spec(h[src].op), _op_spec(h[b].op)
    if want != got:
        return [Failure("Hugr.resolve_extensions", "node-behind-a-vacant-index-not-resolved-like-its-twin",
                        f"node {b.idx}: {_sx_op(got)[:200]} where node {src.idx} became {_sx_op(want)[:200]}")]
    return []


def _kind_cls(k):
    return k if not isinstance(k, list) else k[0]


def _sx_op(s):
    try:
        return dumps(bridge.op_to_sx(s))
    except Exception:  # noqa: BLE001
        return str(s)


def _str_diff(a, b):
    if not (isinstance(a, str) and isinstance(b, str)):
        return f"{a!s:.200} -> {b!s:.200}"
    i = next((j for j in range(min(len(a), len(b))) if a[j] != b[j]), min(len(a), len(b)))
    return f"...{a[max(0, i - 60):i + 60]} -> ...{b[max(0, i - 60):i + 60]}"


# ----------------------------------------------------------------------------- cases


def gen_ty_case(rng, kind=None):
    for _ in range(50):
        c = _gen_ty_case(rng, kind)
        if not poly_order_corner(c["t"], c.pop("defs")):
            return c
    raise RuntimeError("generator")


def _gen_ty_case(rng, kind=None):
    U = gen_universe(rng)
    reg = sub_registry(rng, U)
    defs = _defs_of(U)
    kind = kind or rng.choice(["ty", "ty", "ty", "arg"])
    if kind == "ty":
        t = gen_ty(rng, U, rng.choice([1, 2, 3, 3, 4]))
        if rng.random() < 0.5:   # force the nesting of the statement: an opaque type in an argument of an opaque type
            t = rng.choice([["@sum", [[t], []]], ["@fn", [t], [gen_opaque(rng, U, 2)], []], t])
        return {"kind": "ty", "reg": reg, "t": fix_bounds(t, defs, rng), "defs": defs}
    a = gen_any_arg(rng, U, 3)
    return {"kind": "arg", "reg": reg, "t": fix_arg_bounds(a, defs, rng), "defs": defs}


def gen_op_case(rng):
    for _ in range(50):
        c = _gen_op_case(rng)
        op = c["op"]
        parts = [op[2], *op[5]] if isinstance(op, list) and op[0] == "@custom" else [op]
        if not any(poly_order_corner(x, c["defs"], True) for x in parts):
            del c["defs"]
            return c
    raise RuntimeError("generator")


def _gen_op_case(rng):
    U = gen_universe(rng)
    reg = sub_registry(rng, U)
    defs = _defs_of(U)
    if rng.random() < 0.7:
        op = gen_custom(rng, U)
    else:
        op = bridge.gen_op(rng, rng.choice([k for k in bridge.OP_KINDS if k not in ("call", "loadfunc", "sugar")]), depth=2, partial=0.1)
    return {"kind": "op", "reg": reg, "op": _fix_op_bounds(op, defs, rng), "defs": defs}


def gen_doc_cases(rng, nregs=3):
    from props import C02

    r = rng.random()
    if r < 0.45:
        src = ["mod", rng.randrange(10**6), rng.randint(1, 5)]
    elif r < 0.7:
        src = ["c02", C02._gen_built(rng)]
    else:
        src = ["coll", rng.randrange(10**6)]
    regs = [gen_std_registry(rng) for _ in range(nregs - 1)] + [[["std", n, []] for n in STD]]
    return [{"kind": "doc", "reg": reg, "src": src} for reg in regs]


def corpus():
    int5 = ["@opaque", "int", "@C", [["@nat", 5]], "arithmetic.int.types"]
    lst = ["@opaque", "List", "@C", [["@ty", int5]], "collections.list"]
    full = [["std", n, []] for n in STD]
    return [
        {"kind": "ty", "reg": [["std", "arithmetic.int.types", []], ["std", "collections.list", []]], "t": lst},
        {"kind": "ty", "reg": [["std", "collections.list", []]], "t": ["@sum", [[lst], []]]},
        {"kind": "ty", "reg": [], "t": lst},
        {"kind": "doc", "reg": full, "src": ["coll", 1]},
        {"kind": "doc", "reg": [["std", "prelude", ["Noop"]], ["std", "arithmetic.int.types", []]], "src": ["coll", 2]},
        {"kind": "doc", "reg": full, "src": ["mod", 7, 3]},
        {"kind": "op", "reg": [["gen", {"name": "e", "version": [0, 1, 0], "types": [["t", "", [], ["@explicit", "@C"]]],
                                        "ops": [["f", "definition text", "@none"]]}]],
         "op": ["@custom", "f", ["@fn", [["@opaque", "t", "@C", [], "e"]], [], []], "old text", "e", []]},
    ]


def _grow(rng, c):
    """every fifth case: the registry is grown to its final content after an earlier resolution"""
    if c.get("reg") and rng.random() < 0.2:
        c = {**c, "grow": rng.randrange(len(c["reg"]))}
    return c


def cases(rng, tier):
    n_ty, n_op, n_doc = {"quick": (2600, 900, 170), "thorough": (50000, 17000, 3200)}.get(tier, (40000, 12000, 1500))
    for i in range(max(n_ty, n_op, n_doc)):
        if i < n_ty:
            yield _grow(rng, gen_ty_case(rng))
        if i < n_op:
            yield _grow(rng, gen_op_case(rng))
        if i < n_doc:
            docs = [_grow(rng, d) for d in gen_doc_cases(rng)]
            yield from docs
            if i % 8 == 0:
                yield {"kind": "reg", "reg": docs[0]["reg"]}
        if i % 40 == 0:
            yield {"kind": "reg", "reg": sub_registry(rng, gen_universe(rng))}


def nontrivial(spec, obs):
    try:
        o = json.loads(obs)
    except Exception:  # noqa: BLE001
        return False
    return len(o) == 3 and isinstance(o[0], list) and isinstance(o[1], list) and o[0][0] != o[1][0]


def stats(spec, obs, counters):
    counters[f"kind.{spec['kind']}"] += 1
    if spec["kind"] == "reg":
        return
    n = len(spec["reg"])
    counters["registry.grown-after-an-earlier-resolution"] += spec.get("grow") is not None
    counters["registry.empty" if n == 0 else f"registry.{min(n, 4)}{'+' if n >= 4 else ''}-extensions"] += 1
    if obs == "build-failed":
        counters["outcome.build-failed"] += 1
        return
    counters["outcome.replaced-something" if nontrivial(spec, obs) else "outcome.nothing-replaced"] += 1
    if spec["kind"] in ("ty", "arg"):
        counters["ty.opaque-inside-opaque-args"] += _has_nested_opaque(spec["t"], False)
        if '"error"' in obs:
            counters["ty.some-encoding-or-bound-raises"] += 1
    elif spec["kind"] == "doc":
        counters[f"doc.src.{spec['src'][0]}"] += 1
        counters["doc.registry-with-dropped-definitions"] += any(e[0] == "std" and e[2] for e in spec["reg"])
    else:
        counters[f"op.{spec['op'][0][1:] if isinstance(spec['op'], list) else 'module'}"] += 1


def _has_nested_opaque(t, inside):
    if not isinstance(t, list) or not t:
        return False
    if t[0] == "@opaque":
        if inside:
            return True
        return any(_has_nested_opaque(a, True) for a in t[3])
    return any(_has_nested_opaque(x, inside) for x in t if isinstance(x, list))


# ----------------------------------------------------------------------------- shrinking


def _subterms(t):
    """proper subterms of a type/arg spec that are types"""
    if not isinstance(t, list) or not t:
        return
    k = t[0]
    kids = []
    if k == "@sum":
        kids = [x for row in t[1] for x in row]
    elif k == "@fn":
        kids = [*t[1], *t[2]]
    elif k == "@poly":
        kids = [*t[2], *t[3]]
    elif k in ("@opaque",):
        kids = [a for a in t[3]]
    elif k == "@ext":
        kids = [a for a in t[2]]
    elif k == "@ty":
        kids = [t[1]]
    elif k == "@seq":
        kids = list(t[1])
    for x in kids:
        if isinstance(x, list) and x and x[0] in ("@ty", "@seq"):
            yield from _subterms(x)
        elif isinstance(x, list) and x and x[0] in ("@nat", "@str", "@exts", "@varg"):
            continue
        else:
            yield x
            yield from _subterms(x)


def _shrink_reg(spec, pred):
    reg = ddmin(spec["reg"], lambda r: pred({**spec, "reg": r}))
    s = {**spec, "reg": reg}
    out = []
    for i, ent in enumerate(reg):
        if ent[0] == "gen":
            e = ent[1]
            for fld in ("types", "ops"):
                def with_(xs, fld=fld, e=e, i=i):
                    return {**s, "reg": [*out, ["gen", {**e, fld: xs}], *reg[i + 1:]]}
                xs = ddmin(e[fld], lambda xs: pred(with_(xs))) if e[fld] else []
                if xs != e[fld] and pred(with_(xs)):
                    e = {**e, fld: xs}
            ent = ["gen", e]
        out.append(ent)
    s2 = {**s, "reg": out}
    return s2 if pred(s2) else s


def shrink(spec, pred):
    s = _shrink_reg(spec, pred)
    if s["kind"] == "ty":
        changed = True
        while changed:
            changed = False
            for sub in _subterms(s["t"]):
                if isinstance(sub, (list, str)) and sub != s["t"]:
                    cand = {**s, "t": sub}
                    try:
                        if pred(cand):
                            s = cand
                            changed = True
                            break
                    except Exception:  # noqa: BLE001
                        continue
    elif s["kind"] == "doc":
        src = s["src"]
        if src[0] == "mod":
            for size in range(1, src[2]):
                cand = {**s, "src": ["mod", src[1], size]}
                if pred(cand):
                    s = cand
                    break
        for sd in range(1, 6):
            cand = {**s, "src": ["coll", sd]}
            try:
                if pred(cand):
                    s = cand
                    break
            except Exception:  # noqa: BLE001
                continue
    return s
