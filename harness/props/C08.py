"""C08 — inserting a HUGR embeds it isomorphically and disturbs nothing else."""
from __future__ import annotations

import copy

from core import Failure, ddmin
from props import C04

PROP = "C08"
LEAN_TARGETS = ["HugrVerif.Props.C08"]
DRIVE_TARGETS = ["HugrVerif.Drive.Store"]
RULE = (
    "pairs of generated stores (A: history of <= 30 mutators, B: history of <= 25 mutators incl. multi-linked ports, "
    "order links, metadata, deleted nodes and reused indices) x a live node of A (or None) as insertion parent; "
    "plus builder programs using insert_nested / insert_cfg / insert_conditional / insert_tail_loop with wires. "
    "Model comparison: mapping + complete query dump after the insertion. Oracle: the returned mapping is an "
    "isomorphism computed from independent dumps of A-before, B and A-after; B unchanged. "
    "Non-trivial = B has >= 3 nodes and >= 2 links; distinct by full spec."
)
TRUSTED = ["Python list/dict semantics of the store's containers (Py.Dict); Node equality by index only"]
ASSUMPTIONS = [
    "B is a HUGR reachable through the public API (leaf deletions only), so its hierarchy is a tree rooted at its root",
    "metadata dictionaries are shared, not copied (DESIGN F28): the statement speaks about the state at the time of the call",
]


# ----------------------------------------------------------------------------- raw stores


def _ops_of(spec):
    b = [list(o) for o in spec["b"]]
    first = [["insert_hugr", b, spec["first"]]] if "first" in spec else []
    # B may have been edited further (`b2`) between the earlier insertion and the measured one
    b_now = b + [list(o) for o in spec.get("b2", [])]
    return [list(o) for o in spec["a"]] + first + [["insert_hugr", b_now, spec["parent"]]]


def payload(spec):
    if spec.get("kind", "raw") != "raw":
        return None
    return C04.payload({"ops": _ops_of(spec)})


def run_impl(spec):
    if spec.get("kind", "raw") != "raw":
        return "builder:" + ";".join(f"{f.site}:{f.cls}" for f in oracle(spec))
    return C04.run_impl({"ops": _ops_of(spec)})


def _dump(h):
    """Independent structural dump: idx -> (label, parent, children, meta, num_out), and link multiset."""
    from hugr.hugr.node_port import Direction

    nodes = {}
    for n in h:
        d = h[n]
        nodes[n.idx] = dict(
            label=C04._label(d.op), parent=d.parent.idx if d.parent is not None else None,
            children=[c.idx for c in h.children(n)], meta=dict(d.metadata),
            nout=h.num_ports(n, Direction.OUTGOING), op=d.op,
        )
    links = sorted(((s.node.idx, s.offset), (t.node.idx, t.offset)) for s, t in h.links())
    return nodes, links


def _iso_failures(site, a_before, b_dump, a_after, mapping, parent_idx, root_b, fails):
    nodes_a, links_a = a_before
    nodes_b, links_b = b_dump
    nodes_c, links_c = a_after

    def F(cls, detail=""):
        fails.append(Failure(site, cls, detail))

    if set(mapping) != set(nodes_b):
        return F("mapping-not-total", f"{sorted(mapping)} vs {sorted(nodes_b)}")
    if len(set(mapping.values())) != len(mapping):
        return F("mapping-not-injective")
    if set(mapping.values()) & set(nodes_a):
        return F("image-overlaps-A")
    if set(nodes_c) != set(nodes_a) | set(mapping.values()):
        return F("node-set", f"{sorted(nodes_c)}")
    for i, nb in nodes_b.items():
        nc = nodes_c[mapping[i]]
        if nc["label"] != nb["label"] or nc["op"] is not nb["op"] and nc["op"] != nb["op"]:
            return F("operation", f"node {i}")
        if nc["meta"] != nb["meta"]:
            return F("metadata", f"node {i}")
        if nc["nout"] != nb["nout"]:
            return F("output-port-count", f"node {i}: {nc['nout']} vs {nb['nout']}")
        if [mapping[c] for c in nb["children"]] != nc["children"]:
            return F("child-order", f"node {i}: {nb['children']} -> {nc['children']}")
        exp_parent = mapping[nb["parent"]] if nb["parent"] is not None else parent_idx
        if nc["parent"] != exp_parent:
            return F("parent", f"node {i}: {nc['parent']} vs {exp_parent}")
    exp_links = sorted(links_a + [((mapping[s], so), (mapping[t], to)) for (s, so), (t, to) in links_b])
    if links_c != exp_links:
        return F("links", f"{links_c} vs {exp_links}")
    for j, na in nodes_a.items():
        nc = nodes_c[j]
        exp_children = na["children"] + ([mapping[root_b]] if j == parent_idx else [])
        if (nc["label"], nc["parent"], nc["meta"], nc["nout"]) != (na["label"], na["parent"], na["meta"], na["nout"]) or nc[
            "children"
        ] != exp_children:
            return F("A-disturbed", f"node {j}")


def oracle(spec):
    fails: list[Failure] = []
    if spec.get("kind", "raw") != "raw":
        return _builder_oracle(spec, fails)
    ra = C04.Run(with_ref=False)
    for o in spec["a"]:
        if ra.apply(o)[0] != "ok":
            return fails  # outside the domain
    rb = C04.Run(with_ref=False)
    for o in spec["b"]:
        if rb.apply(o)[0] != "ok":
            return fails
    parent = spec["parent"]
    if parent is not None and parent not in [n.idx for n in ra.h]:
        return fails
    if "first" in spec:
        # the same B was inserted once before (elsewhere): the second insertion embeds it again, afresh
        try:
            ra.h.insert_hugr(rb.h, ra.node(spec["first"]) if spec["first"] is not None else None)
            rb.h.to_json()
        except Exception:  # noqa: BLE001
            return fails
        for o in spec.get("b2", []):
            if rb.apply(o)[0] != "ok":
                return fails
    a_before = _dump(ra.h)
    b_before = _dump(rb.h)
    b_snap = C04.snapshot(rb.h)
    try:
        mapping = ra.h.insert_hugr(rb.h, ra.node(parent) if parent is not None else None)
    except Exception as e:  # noqa: BLE001
        fails.append(Failure("Hugr.insert_hugr", "raises-on-valid-call", type(e).__name__))
        return fails
    mp = {k.idx: v.idx for k, v in mapping.items()}
    _iso_failures(
        "Hugr.insert_hugr", a_before, b_before, _dump(ra.h), mp,
        parent if parent is not None else ra.h.root.idx, rb.h.root.idx, fails,
    )
    if C04.snapshot(rb.h) != b_snap:
        fails.append(Failure("Hugr.insert_hugr", "B-modified"))
    return fails


# ----------------------------------------------------------------------------- builder wrappers


TYS = ["bool", "qubit", "unit"]


def _ty(name):
    from hugr import tys

    return {"bool": tys.Bool, "qubit": tys.Qubit, "unit": tys.Unit}[name]


def _build_inner(kind, row, meta):
    """A closed container builder of the given kind over input row `row` (identity-like body)."""
    from hugr import ops, tys
    from hugr.build import cfg as bcfg
    from hugr.build import cond_loop as bcl
    from hugr.build import dfg as bdfg

    types = [_ty(t) for t in row]
    if kind == "nested":
        d = bdfg.Dfg(*types)
        ws = list(d.inputs())
        if ws and meta:
            n = d.add_op(ops.Noop(), ws[0], metadata={"m": 1})
            # an entry set after the node exists, holding None (seeded change C08-14: None-valued entries pruned in place
            # from a dict the copy shares with B)
            d.hugr[n].metadata["late"] = None
            ws[0] = n[0]
        d.set_outputs(*ws)
        return d
    if kind == "cfg":
        c = bcfg.Cfg(*types)
        with c.add_entry() as entry:
            entry.set_single_succ_outputs(*entry.inputs())
        c.branch_exit(entry[0])
        return c
    if kind == "cond":
        c = bcl.Conditional(tys.Bool, types)
        for i in range(2):
            with c.add_case(i) as case:
                case.set_outputs(*case.inputs())
        return c
    if kind == "loop":
        t = bcl.TailLoop([], types)
        # loop body: break immediately, passing the rest values through
        brk = t.add_op(ops.Tag(1, tys.Either([], [])))
        t.set_loop_outputs(brk[0], *t.inputs())
        return t
    raise ValueError(kind)


def _builder_oracle(spec, fails):
    from hugr import tys
    from hugr.build import dfg as bdfg

    kind, row, meta, pre = spec["kind"], spec["row"], spec.get("meta", False), spec.get("pre", 0)
    site = {"nested": "DfBase.insert_nested", "cfg": "DfBase.insert_cfg", "cond": "DfBase.insert_conditional",
            "loop": "DfBase.insert_tail_loop"}[kind]
    try:
        inner = _build_inner(kind, row, meta)
    except Exception:  # noqa: BLE001
        return fails  # the inner program itself is outside the domain
    types = [_ty(t) for t in row]
    outer_row = ([tys.Bool] if kind == "cond" else []) + types
    where = spec.get("outer", "dfg")
    if "qubit" in row:
        where = "dfg"  # only copyable values may cross a region boundary
    extra_links = []
    if where == "nonlocal":
        # the insertion happens inside a nested region; the wires come from the enclosing one
        top = bdfg.Dfg(*outer_row)
        wires = list(top.inputs())
        outer = top.add_nested()
        if wires:
            extra_links = [((top.input_node.idx, -1), (outer.parent_node.idx, -1))]
    elif where == "block_outer":
        # the insertion happens inside a basic block of a CFG that itself sits in a nested region; the wires come from
        # OUTSIDE the CFG, two regions up: the state-order link goes from their source to the ancestor of the target that
        # is a sibling of the source — the nested region's node, not the CFG (seeded change C08-13)
        from hugr.build import cfg as bcfg

        top = bdfg.Dfg(*outer_row)
        wires = list(top.inputs())
        mid = top.add_nested()
        c = mid.add_cfg()
        outer = c.add_entry()
        if wires:
            extra_links = [((top.input_node.idx, -1), (mid.parent_node.idx, -1))]
    elif where == "block":
        # the insertion happens inside a basic block; the wires come from a block that dominates it
        from hugr.build import cfg as bcfg

        c = bcfg.Cfg(*outer_row)
        entry = c.add_entry()
        entry.set_single_succ_outputs(*entry.inputs())
        wires = list(entry.inputs())
        outer = c.add_successor(entry[0])
    else:
        outer = bdfg.Dfg(*outer_row)
        wires = list(outer.inputs())
    for _ in range(pre):  # some earlier nodes so indices differ
        if wires and spec["row"] and spec["row"][0] != "qubit" and where == "dfg":
            from hugr import ops as _ops

            outer.add_op(_ops.Noop(), wires[-1])
    a_before = _dump(outer.hugr)
    b_before = _dump(inner.hugr)
    b_snap = C04.snapshot(inner.hugr)
    try:
        if kind == "nested":
            node = outer.insert_nested(inner, *wires)
        elif kind == "cfg":
            node = outer.insert_cfg(inner, *wires)
        elif kind == "cond":
            node = outer.insert_conditional(inner, wires[0], *wires[1:])
        else:
            node = outer.insert_tail_loop(inner, [], wires)
    except Exception as e:  # noqa: BLE001
        fails.append(Failure(site, "raises-on-valid-call", type(e).__name__))
        return fails
    after = _dump(outer.hugr)
    # reconstruct the mapping: new nodes in hierarchy order of B
    root_img = node.to_node().idx
    nodes_b, _ = b_before
    mapping = {}

    def walk(i, img):
        mapping[i] = img
        cb, cc = nodes_b[i]["children"], after[0].get(img, {"children": []})["children"]
        if len(cb) != len(cc):
            return
        for x, y in zip(cb, cc):
            walk(x, y)

    walk(inner.hugr.root.idx, root_img)
    # the wires must be attached to the image root's inputs, in order
    wire_links = [((w.node.idx, w.offset), (root_img, k)) for k, w in enumerate(wires)] + extra_links
    nodes_a, links_a = a_before
    a_plus = (nodes_a, sorted(links_a + wire_links))
    _iso_failures(site, a_plus, b_before, after, mapping, outer.parent_node.idx, inner.hugr.root.idx, fails)
    if C04.snapshot(inner.hugr) != b_snap:
        fails.append(Failure(site, "B-modified"))
    else:
        nb_after, _ = _dump(inner.hugr)
        for i, d0 in nodes_b.items():
            if nb_after.get(i, {}).get("meta") != d0["meta"]:
                fails.append(Failure(site, "B-modified", f"metadata of node {i} of B: {d0['meta']!r} -> {nb_after.get(i, {}).get('meta')!r}"))
                break
    return fails


# ----------------------------------------------------------------------------- generation


def cases(rng, tier):
    n_raw, n_b = {"quick": (700, 160), "thorough": (25000, 4000)}.get(tier, (20000, 2000))
    for i in range(n_raw):
        a = C04._gen_history(rng, rng.randint(0, 30), 10, False)["ops"]
        b = C04._gen_history(rng, rng.randint(1, 25), 8, False, del_rate=rng.choice([0.0, 0.2, 0.35]))["ops"]
        live_a = sorted(C04._simulate_live(a))
        parent = rng.choice(live_a) if rng.random() < 0.8 else None
        spec = {"kind": "raw", "a": a, "b": b, "parent": parent}
        if rng.random() < 0.25:
            spec["first"] = rng.choice(live_a) if rng.random() < 0.8 else None
            if len(b) >= 4 and rng.random() < 0.6:
                k = rng.randint(2, len(b) - 1)
                spec["b"], spec["b2"] = b[:k], b[k:]
        yield spec
    for i in range(n_b):
        yield {
            "kind": rng.choice(["nested", "cfg", "cond", "loop"]),
            "row": [rng.choice(TYS) for _ in range(rng.randint(0, 3))],
            "meta": rng.random() < 0.5, "pre": rng.randint(0, 2),
            "outer": rng.choice(["dfg", "dfg", "nonlocal", "block", "block_outer"]),
        }


def nontrivial(spec, obs):
    if spec.get("kind", "raw") != "raw":
        return len(spec["row"]) >= 1
    k = [o[0] for o in spec["b"]]
    return sum(x in ("add_node", "add_const") for x in k) >= 2 and sum(x in ("add_link", "add_order_link") for x in k) >= 2


def stats(spec, obs, counters):
    counters[f"kind.{spec.get('kind', 'raw')}"] += 1
    if spec.get("kind", "raw") != "raw":
        counters[f"inserted-into.{spec.get('outer', 'dfg')}"] += 1
    if spec.get("kind", "raw") == "raw":
        counters["b.with-deletion"] += any(o[0] == "delete_node" for o in spec["b"])
        counters["b.with-order-link"] += any(o[0] == "add_order_link" for o in spec["b"])
        counters["parent.none"] += spec["parent"] is None
        counters["ended-by-raise"] += "(raise" in obs
        counters["b.inserted-once-before"] += "first" in spec


def shrink(spec, pred):
    if spec.get("kind", "raw") != "raw":
        return spec
    s = copy.deepcopy(spec)
    if s.get("b2"):
        s["b2"] = ddmin(s["b2"], lambda b2: pred({**s, "b2": b2}))
    s["b"] = ddmin(s["b"], lambda b: pred({**s, "b": b}))
    s["a"] = ddmin(s["a"], lambda a: pred({**s, "a": a}))
    return s
