"""C01 — builder-constructed HUGRs satisfy the specification's validity rules.

The Lean side (`HugrVerif/Validate.lean`) is the reference validity specification `Valid` with its
executable form `violations`/`validate` (`validate_iff` proved).  This module

  * regenerates `Gen/ValidityTables.lean` (OpTag hierarchy of ops/tag.rs, validity flags of
    ops/validate.rs, `const TAG` of every operation) on every run — `translate()`;
  * builds HUGRs with the REAL builders (`props.C09.build_module`, hand-written scripts below, and —
    hook `wf_programs` — the builder-program generator), serialises them with `Hugr.to_json()`;
  * judges every document twice: by the Lean `validate` (driver stream `doc.validate`) and by an
    independent second implementation of the same rules in Python over the raw JSON (`py_validate`);
    a disagreement is a model/oracle divergence;
  * the property oracle: a document built by a well-formed builder program must be `valid`
    (site = the builder family, cls = the violated rule); a systematic single mutation of a valid
    document must be reported `invalid` with the rule the mutation breaks.
"""
from __future__ import annotations

import copy
import hashlib
import json
import random
import re
from pathlib import Path

from core import Failure

PROP = "C01"
TITLE = "Builder-constructed HUGRs satisfy the specification's validity rules"
LEAN_TARGETS = ["HugrVerif.Props.C01"]
DRIVE_TARGETS = ["HugrVerif.Drive.Validate"]
RULE = (
    "documents = Hugr.to_json() of (i) random modules built with the real builders (props.C09.build_module: "
    "constants, tuples, int ops, nested DFGs, if/else, tail loops, calls), hand-written builder scripts (CFGs with "
    "branches/loops/Dom edges, Ext edges into nested DFGs, partially used multi-output ops with order edges, "
    "polymorphic functions, tracked DFGs, function values) and — hook wf_programs — generated well-formed builder "
    "programs; (ii) sample documents of the repository; (iii) systematic single mutations of valid documents, each "
    "breaking one named rule.  Every document is judged by the Lean `validate` and by an independent Python "
    "implementation of the same rules; verdicts (all violated rules with offending items) must be identical. "
    "Non-trivial = the document has at least one edge and one container below the root; distinct by document hash."
)
TRUSTED = [
    "Valid/validate are hand transcriptions of hugr-core/src/hugr/validate.rs, ops/validate.rs, ops.rs, "
    "serialize.rs and specification/hugr.md (the Rust binary cannot be built offline); only the OpTag hierarchy, "
    "the per-operation tags and the validity flags are regenerated from the Rust sources on every run",
    "the second implementation of the rules in harness/props/C01.py (cross-check of the transcription)",
]
ASSUMPTIONS = [
    "not modelled: extension inference, resolution of opaque ops / recomputation of extension-op signatures, "
    "type-argument fitting, type-variable scoping, CustomConst::validate; runtime_reqs compared as lists",
]

# =============================================================================== translator

_TAG_RS = "hugr-core/src/ops/tag.rs"
_VAL_RS = "hugr-core/src/ops/validate.rs"
_OPS_RS = "hugr-core/src/ops.rs"
_OP_FILES = [
    "hugr-core/src/ops/dataflow.rs",
    "hugr-core/src/ops/controlflow.rs",
    "hugr-core/src/ops/module.rs",
    "hugr-core/src/ops/constant.rs",
    "hugr-core/src/ops/sum.rs",
    "hugr-core/src/ops/custom.rs",
]
_FLAG_FIELDS = [
    "allowed_children",
    "allowed_first_child",
    "allowed_second_child",
    "requires_children",
    "requires_dag",
    "edge_check",
]


class _Unparsed(Exception):
    pass


def _strip_rs_comments(src: str) -> str:
    src = re.sub(r"/\*.*?\*/", "", src, flags=re.S)
    return re.sub(r"//[^\n]*", "", src)


def _parse_tags(src: str):
    src = _strip_rs_comments(src)
    m = re.search(r"pub enum OpTag\s*\{(.*?)\n\}", src, flags=re.S)
    if not m:
        raise _Unparsed("enum OpTag not found")
    body = re.sub(r"#\[[^\]]*\]", "", m.group(1))
    names = [t.strip() for t in body.split(",") if t.strip()]
    if not all(re.fullmatch(r"[A-Za-z]+", n) for n in names):
        raise _Unparsed(f"enum OpTag has an unexpected variant shape: {names}")
    m = re.search(r"fn immediate_supersets<'a>\(self\)\s*->\s*&'a \[OpTag\]\s*\{\s*match self\s*\{(.*?)\n\s*\}\s*\}", src, flags=re.S)
    if not m:
        raise _Unparsed("immediate_supersets not found")
    parents = {}
    arms = re.findall(r"OpTag::(\w+)\s*=>\s*&\[(.*?)\]\s*,", m.group(1), flags=re.S)
    rest = re.sub(r"OpTag::(\w+)\s*=>\s*&\[(.*?)\]\s*,", "", m.group(1), flags=re.S).strip()
    if rest:
        raise _Unparsed(f"immediate_supersets has an arm of unknown shape: {rest[:80]!r}")
    for name, lst in arms:
        ps = [p.strip() for p in lst.split(",") if p.strip()]
        for p in ps:
            if not re.fullmatch(r"OpTag::\w+", p):
                raise _Unparsed(f"immediate_supersets({name}): unexpected element {p!r}")
        if name in parents:
            raise _Unparsed(f"immediate_supersets: duplicate arm {name}")
        parents[name] = [p.split("::")[1] for p in ps]
    if set(parents) != set(names):
        raise _Unparsed(f"immediate_supersets arms {sorted(parents)} differ from the variants {sorted(names)}")
    # is_superset must still be the reflexive-transitive reading
    m = re.search(r"pub const fn is_superset\(self, other: OpTag\) -> bool \{(.*?)\n    \}", src, flags=re.S)
    if not m:
        raise _Unparsed("is_superset not found")
    body = re.sub(r"\s+", " ", m.group(1)).strip()
    want = (
        "if self.eq(other) { return true; } let parents = other.immediate_supersets(); let mut i = 0; "
        "while i < parents.len() { if self.is_superset(parents[i]) { return true; } i += 1; } false"
    )
    if body != want:
        raise _Unparsed("is_superset has changed shape")
    return names, parents


def _parse_flag_block(block: str, what: str):
    """`OpValidityFlags { a: x, ..Default::default() }` -> dict of given fields, has_default."""
    given = {}
    has_default = False
    for item in [t.strip() for t in block.split(",") if t.strip()]:
        if item == "..Default::default()":
            has_default = True
            continue
        m = re.fullmatch(r"(\w+)\s*:\s*(.+)", item, flags=re.S)
        if not m or m.group(1) not in _FLAG_FIELDS:
            raise _Unparsed(f"{what}: unknown flag item {item!r}")
        k, v = m.group(1), m.group(2).strip()
        if k.startswith("allowed_"):
            mm = re.fullmatch(r"OpTag::(\w+)", v)
            if not mm:
                raise _Unparsed(f"{what}: {k} = {v!r}")
            given[k] = mm.group(1)
        elif k.startswith("requires_"):
            if v not in ("true", "false"):
                raise _Unparsed(f"{what}: {k} = {v!r}")
            given[k] = v == "true"
        else:  # edge_check
            if v == "None":
                given[k] = False
            elif re.fullmatch(r"Some\(validate_cfg_edge\)", v):
                given[k] = True
            else:
                raise _Unparsed(f"{what}: edge_check = {v!r}")
    return given, has_default


def _parse_flags(src: str, variants: list[str], df_parents: list[str]):
    src = _strip_rs_comments(src)
    m = re.search(r"impl Default for OpValidityFlags\s*\{\s*fn default\(\) -> Self\s*\{\s*Self\s*\{(.*?)\}\s*\}\s*\}", src, flags=re.S)
    if not m:
        raise _Unparsed("impl Default for OpValidityFlags not found")
    default, hd = _parse_flag_block(m.group(1), "Default")
    if hd or set(default) != set(_FLAG_FIELDS):
        raise _Unparsed("Default for OpValidityFlags does not give every field")
    table = {}

    def put(name, given, has_default, what):
        if name in table:
            raise _Unparsed(f"two ValidateOp impls for {name}")
        if not has_default and set(given) != set(_FLAG_FIELDS):
            raise _Unparsed(f"{what}: fields missing without ..Default::default()")
        table[name] = {**default, **given}

    for mm in re.finditer(
        r"impl ValidateOp for (?:super::)?(\w+)\s*\{\s*fn validity_flags\(&self\) -> OpValidityFlags\s*\{\s*OpValidityFlags\s*\{(.*?)\}\s*\}",
        src, flags=re.S,
    ):
        given, hd = _parse_flag_block(mm.group(2), mm.group(1))
        put(mm.group(1), given, hd, mm.group(1))
    mm = re.search(
        r"impl<T: DataflowParent> ValidateOp for T\s*\{\s*fn validity_flags\(&self\) -> OpValidityFlags\s*\{\s*OpValidityFlags\s*\{(.*?)\}\s*\}",
        src, flags=re.S,
    )
    if not mm:
        raise _Unparsed("blanket impl<T: DataflowParent> ValidateOp not found")
    given, hd = _parse_flag_block(mm.group(1), "DataflowParent")
    for p in df_parents:
        put(p, given, hd, "DataflowParent")
    for mm in re.finditer(r"^impl_validate_op!\((\w+)\);", src, flags=re.M):
        put(mm.group(1), {}, True, mm.group(1))
    n_impl = len(re.findall(r"\bimpl\b[^\n;{]*\bValidateOp for\b", src))
    if n_impl != len(re.findall(r"impl ValidateOp for (?:super::)?\w+\s*\{\s*fn validity_flags", src)) + 1:
        raise _Unparsed("a ValidateOp impl of unknown shape is present")
    if set(table) != set(variants):
        raise _Unparsed(f"ValidateOp impls {sorted(table)} differ from the OpType variants {sorted(variants)}")
    # the rules transcribed by hand from the bodies of validate_op_children / validate_io_nodes / validate_cfg_edge:
    # fingerprint of their text, so a change there is reported
    return default, table


def _parse_optype(src: str):
    src = _strip_rs_comments(src)
    m = re.search(r"pub enum OpType\s*\{(.*?)\n\}", src, flags=re.S)
    if not m:
        raise _Unparsed("enum OpType not found")
    body = re.sub(r"#\[[^\]]*\]", "", m.group(1))
    names = [t.strip() for t in body.split(",") if t.strip()]
    if not all(re.fullmatch(r"[A-Za-z]+", n) for n in names):
        raise _Unparsed(f"enum OpType has an unexpected variant shape: {names}")
    return names


def _parse_op_tags(repo: Path, variants: list[str]):
    tags, parents = {}, []
    for f in _OP_FILES:
        src = _strip_rs_comments((repo / f).read_text())
        for mm in re.finditer(r"impl (?:DataflowOpTrait|StaticTag) for (\w+)\s*\{\s*const TAG: OpTag = OpTag::(\w+);", src):
            if mm.group(1) in tags and tags[mm.group(1)] != mm.group(2):
                raise _Unparsed(f"two TAGs for {mm.group(1)}")
            tags[mm.group(1)] = mm.group(2)
        parents += re.findall(r"impl DataflowParent for (\w+)", src)
    missing = [v for v in variants if v not in tags]
    if missing:
        raise _Unparsed(f"no `const TAG` found for {missing}")
    return {v: tags[v] for v in variants}, sorted(set(parents), key=variants.index)


def _ls(xs):
    return "[" + ", ".join('"' + x + '"' for x in xs) + "]"


def _lb(b):
    return "true" if b else "false"


def _tables_text(tag_names, parents, variants, op_tags, df_parents, default, flags, hashes):
    def row(f):
        return (
            f'⟨"{f["allowed_children"]}", "{f["allowed_first_child"]}", "{f["allowed_second_child"]}", '
            f'{_lb(f["requires_children"])}, {_lb(f["requires_dag"])}, {_lb(f["edge_check"])}⟩'
        )

    out = [
        "/-",
        "  GENERATED by harness/props/C01.py translate() on every run — do not edit.",
        "  Sources (sha256 of the file text):",
    ]
    out += [f"    {f}  {h}" for f, h in hashes]
    out += [
        "  tagNames / tagParents : `enum OpTag`, `immediate_supersets` (ops/tag.rs)",
        "  opClasses             : `enum OpType` (ops.rs)",
        "  opTags                : `const TAG` of every operation (ops/*.rs)",
        "  dataflowParents       : `impl DataflowParent for …`",
        "  flags                 : `validity_flags()` of every operation (ops/validate.rs), defaults filled in",
        "-/",
        "namespace HugrVerif.Gen.ValidityTables",
        "",
        f"def tagNames : List String := {_ls(tag_names)}",
        "",
        "def tagParents : List (String × List String) := [",
        ",\n".join(f'  ("{t}", {_ls(parents[t])})' for t in tag_names),
        "]",
        "",
        f"def opClasses : List String := {_ls(variants)}",
        "",
        "def opTags : List (String × String) := [",
        ",\n".join(f'  ("{v}", "{op_tags[v]}")' for v in variants),
        "]",
        "",
        f"def dataflowParents : List String := {_ls(df_parents)}",
        "",
        "structure FlagsRow where",
        "  allowedChildren : String",
        "  allowedFirstChild : String",
        "  allowedSecondChild : String",
        "  requiresChildren : Bool",
        "  requiresDag : Bool",
        "  edgeCheck : Bool",
        "deriving DecidableEq, Repr",
        "",
        f"def defaultFlags : FlagsRow := {row(default)}",
        "",
        "def flags : List (String × FlagsRow) := [",
        ",\n".join(f'  ("{v}", {row(flags[v])})' for v in variants),
        "]",
        "",
        "end HugrVerif.Gen.ValidityTables",
        "",
    ]
    return "\n".join(out)


def translate(repo, gen_dir):
    repo = Path(repo)
    problems = []
    out = Path(gen_dir) / "ValidityTables.lean"
    try:
        tag_names, parents = _parse_tags((repo / _TAG_RS).read_text())
        variants = _parse_optype((repo / _OPS_RS).read_text())
        op_tags, df_parents = _parse_op_tags(repo, variants)
        bad = [t for t in op_tags.values() if t not in tag_names]
        if bad:
            raise _Unparsed(f"operation tags {bad} are not OpTag variants")
        default, flags = _parse_flags((repo / _VAL_RS).read_text(), variants, df_parents)
        for f in flags.values():
            for k in _FLAG_FIELDS[:3]:
                if f[k] not in tag_names:
                    raise _Unparsed(f"flag value {f[k]} is not an OpTag variant")
        hashes = [
            (f, hashlib.sha256((repo / f).read_bytes()).hexdigest()[:16])
            for f in [_TAG_RS, _VAL_RS, _OPS_RS, *_OP_FILES]
        ]
        text = _tables_text(tag_names, parents, variants, op_tags, df_parents, default, flags, hashes)
    except _Unparsed as e:
        problems.append(f"validity tables: source shape not recognised: {e}")
        text = None
    except OSError as e:
        problems.append(f"validity tables: cannot read the Rust sources: {e}")
        text = None
    if text is not None and (not out.exists() or out.read_text() != text):
        out.write_text(text)
    return problems


# =============================================================================== the Python oracle
#
# A second, separately written implementation of the rules of `HugrVerif/Validate.lean`, over the raw
# JSON document.  Types are compared in a canonical form (a unit sum is the general sum with `size`
# empty rows), which is Rust's `Type: PartialEq` on types normalised by `SumType::new`.

DATAFLOW_PARENTS = ("DFG", "FuncDefn", "Case", "DataflowBlock", "TailLoop")
DATAFLOW_OPS = (
    "Input", "Output", "Call", "CallIndirect", "LoadConstant", "LoadFunction", "DFG", "Extension", "Tag",
    "TailLoop", "CFG", "Conditional",
)
OP_TAG = {
    "Module": "ModuleRoot", "FuncDefn": "FuncDefn", "FuncDecl": "Function", "AliasDecl": "Alias",
    "AliasDefn": "Alias", "Const": "Const", "Input": "Input", "Output": "Output", "Call": "FnCall",
    "CallIndirect": "DataflowChild", "LoadConstant": "LoadConst", "LoadFunction": "LoadFunc", "DFG": "Dfg",
    "Extension": "Leaf", "Tag": "Leaf", "DataflowBlock": "DataflowBlock", "ExitBlock": "BasicBlockExit",
    "TailLoop": "TailLoop", "CFG": "Cfg", "Conditional": "Conditional", "Case": "Case",
}
TAG_PARENTS = {
    "Any": [], "None": ["Any"], "ModuleOp": ["Any"], "ControlFlowChild": ["Any"], "DataflowChild": ["Any"],
    "Input": ["DataflowChild"], "Output": ["DataflowChild"], "Function": ["ModuleOp", "StaticOutput"],
    "Alias": ["ScopedDefn"], "FuncDefn": ["Function", "ScopedDefn", "DataflowParent"],
    "DataflowBlock": ["ControlFlowChild", "DataflowParent"], "BasicBlockExit": ["ControlFlowChild"],
    "Case": ["Any", "DataflowParent"], "ModuleRoot": ["Any"], "Const": ["ScopedDefn", "StaticOutput"],
    "Dfg": ["DataflowChild", "DataflowParent"], "Cfg": ["DataflowChild"],
    "ScopedDefn": ["DataflowChild", "ControlFlowChild", "ModuleOp"], "TailLoop": ["DataflowChild", "DataflowParent"],
    "Conditional": ["DataflowChild"], "StaticInput": ["Any"], "StaticOutput": ["Any"],
    "FnCall": ["StaticInput", "DataflowChild"], "LoadConst": ["StaticInput", "DataflowChild"],
    "LoadFunc": ["StaticInput", "DataflowChild"], "Leaf": ["DataflowChild"], "DataflowParent": ["Any"],
}


def tag_superset(s: str, o: str) -> bool:
    seen, todo = set(), [o]
    while todo:
        t = todo.pop()
        if t == s:
            return True
        if t not in seen:
            seen.add(t)
            todo.extend(TAG_PARENTS[t])
    return False


def op_flags(name: str):
    """(allowed_children, first, second, requires_children, requires_dag, edge_check)"""
    if name == "Module":
        return ("ModuleOp", "Any", "Any", False, False, False)
    if name == "Conditional":
        return ("Case", "Any", "Any", True, False, False)
    if name == "CFG":
        return ("ControlFlowChild", "DataflowBlock", "BasicBlockExit", True, False, True)
    if name in DATAFLOW_PARENTS:
        return ("DataflowChild", "Input", "Output", True, True, False)
    return ("None", "Any", "Any", False, False, False)


# ---- types


def ct(t):
    k = t["t"]
    if k in ("Q", "I"):
        return (k,)
    if k == "Sum":
        if t["s"] == "Unit":
            return ("Sum", ((),) * t["size"])
        return ("Sum", tuple(crow(r) for r in t["rows"]))
    if k == "G":
        return ("G", crow(t["input"]), crow(t["output"]), tuple(t.get("runtime_reqs", [])))
    if k == "Opaque":
        return ("Opaque", t["extension"], t["id"], tuple(carg(a) for a in t["args"]), t["bound"])
    if k == "Alias":
        return ("Alias", t["name"], t["bound"])
    if k in ("V", "R"):
        return (k, t["i"], t["b"])
    raise KeyError(k)


def crow(r):
    return tuple(ct(x) for x in r)


def cparam(p):
    k = p["tp"]
    if k == "Type":
        return ("Type", p["b"])
    if k == "BoundedNat":
        return ("BoundedNat", p.get("bound"))
    if k in ("String", "Extensions"):
        return (k,)
    if k == "List":
        return ("List", cparam(p["param"]))
    if k == "Tuple":
        return ("Tuple", tuple(cparam(x) for x in p["params"]))
    raise KeyError(k)


def carg(a):
    k = a["tya"]
    if k == "Type":
        return ("Type", ct(a["ty"]))
    if k == "BoundedNat":
        return ("BoundedNat", a["n"])
    if k == "String":
        return ("String", a["arg"])
    if k == "Sequence":
        return ("Sequence", tuple(carg(x) for x in a["elems"]))
    if k == "Extensions":
        return ("Extensions", tuple(a["es"]))
    if k == "Variable":
        return ("Variable", a["idx"], cparam(a["cached_decl"]))
    raise KeyError(k)


def cfun(sig):
    return ("G", crow(sig.get("input", [])), crow(sig.get("output", [])), tuple(sig.get("runtime_reqs", [])))


def cpoly(p):
    b = p["body"]
    return ("Poly", tuple(cparam(x) for x in p["params"]), crow(b["input"]), crow(b["output"]),
            tuple(b.get("runtime_reqs", [])))


def csum(rows):
    return ("Sum", tuple(crow(r) for r in rows))


def is_copyable(c) -> bool:
    k = c[0]
    if k == "Q":
        return False
    if k == "Sum":
        return all(is_copyable(x) for row in c[1] for x in row)
    if k == "Opaque":
        return c[4] == "C"
    if k == "Alias":
        return c[2] == "C"
    if k in ("V", "R"):
        return c[2] == "C"
    return True  # I, G


# ---- constants


def vtype(v):
    k = v["v"]
    if k == "Sum":
        return ct({"t": "Sum", **v["typ"]})
    if k == "Tuple":
        return ("Sum", (tuple(vtype(x) for x in v["vs"]),))
    if k == "Function":
        root = v["hugr"]["nodes"][0]
        o = root["op"]
        if o == "DFG":
            return cfun(root.get("signature", {}))
        if o == "Case":
            s = root.get("signature", {})
            return ("G", crow(s.get("input", [])), crow(s.get("output", [])), ())
        if o == "FuncDefn":
            b = root["signature"]["body"]
            return ("G", crow(b["input"]), crow(b["output"]), ())
        if o == "TailLoop":
            ji, jo, rest = (crow(root.get(k2, [])) for k2 in ("just_inputs", "just_outputs", "rest"))
            return ("G", ji + rest, (("Sum", (ji, jo)),) + rest, ())
        if o == "DataflowBlock":
            return ("G", crow(root.get("inputs", [])),
                    (csum(root["sum_rows"]),) + crow(root.get("other_outputs", [])), ())
        raise KeyError("function value without inner signature")
    if k == "Extension":
        return ct(v["typ"])
    raise KeyError(k)


def vvalid(v) -> bool:
    k = v["v"]
    if k == "Sum":
        t = vtype(v)
        rows = t[1]
        if not (0 <= v["tag"] < len(rows)):
            return False
        row = rows[v["tag"]]
        return tuple(vtype(x) for x in v["vs"]) == row and all(vvalid(x) for x in v["vs"])
    if k == "Tuple":
        return all(vvalid(x) for x in v["vs"])
    if k == "Function":
        vtype(v)
        return True
    if k == "Extension":
        return v["typ"]["t"] != "R"
    raise KeyError(k)


# ---- operations: port layout


def op_sig(op):
    """Dataflow signature as (inputs, outputs) in canonical form, or None."""
    o = op["op"]
    if o == "Input":
        return ((), crow(op.get("types", [])))
    if o == "Output":
        return (crow(op.get("types", [])), ())
    if o in ("Extension", "DFG", "CFG"):
        s = op.get("signature", {})
        return (crow(s.get("input", [])), crow(s.get("output", [])))
    if o == "Tag":
        vs = op["variants"]
        if not (0 <= op["tag"] < len(vs)):
            return None
        return (crow(vs[op["tag"]]), (csum(vs),))
    if o == "LoadConstant":
        return ((), (ct(op["datatype"]),))
    if o == "Conditional":
        return ((csum(op.get("sum_rows", [])),) + crow(op.get("other_inputs", [])), crow(op.get("outputs", [])))
    if o == "TailLoop":
        ji, jo, rest = (crow(op.get(k, [])) for k in ("just_inputs", "just_outputs", "rest"))
        return (ji + rest, jo + rest)
    if o == "CallIndirect":
        s = op.get("signature", {})
        return ((cfun(s),) + crow(s.get("input", [])), crow(s.get("output", [])))
    if o == "Call":
        s = op["instantiation"]
        return (crow(s["input"]), crow(s["output"]))
    if o == "LoadFunction":
        return ((), (cfun(op["instantiation"]),))
    return None


def op_inner(op):
    o = op["op"]
    if o in ("DFG", "Case"):
        s = op.get("signature", {})
        return (crow(s.get("input", [])), crow(s.get("output", [])))
    if o == "FuncDefn":
        b = op["signature"]["body"]
        return (crow(b["input"]), crow(b["output"]))
    if o == "TailLoop":
        ji, jo, rest = (crow(op.get(k, [])) for k in ("just_inputs", "just_outputs", "rest"))
        return (ji + rest, (("Sum", (ji, jo)),) + rest)
    if o == "DataflowBlock":
        return (crow(op.get("inputs", [])), (csum(op["sum_rows"]),) + crow(op.get("other_outputs", [])))
    return None


INC, OUT = 0, 1


def value_ports(op, d):
    s = op_sig(op)
    return s[d] if s is not None else ()


def static_kind(op, d):
    o = op["op"]
    if d == INC:
        if o in ("Call", "LoadFunction"):
            return ("function", cpoly(op["func_sig"]))
        if o == "LoadConstant":
            return ("const", ct(op["datatype"]))
    else:
        if o in ("FuncDefn", "FuncDecl"):
            p = cpoly(op["signature"])
            if o == "FuncDefn":  # hugr-py's FuncDefn carries no requirement set
                p = p[:4] + ((),)
            return ("function", p)
        if o == "Const":
            return ("const", vtype(op["v"]))
    return None


def other_kind(op, d):
    o = op["op"]
    if o in ("DataflowBlock", "ExitBlock"):
        return ("cf",)
    if o in DATAFLOW_OPS and not (o == "Input" and d == INC) and not (o == "Output" and d == OUT):
        return ("order",)
    return None


def non_df_count(op, d):
    o = op["op"]
    if o == "DataflowBlock":
        return 1 if d == INC else len(op["sum_rows"])
    if o == "ExitBlock":
        return 1 if d == INC else 0
    return 1 if other_kind(op, d) is not None else 0


def port_count(op, d):
    return len(value_ports(op, d)) + (1 if static_kind(op, d) is not None else 0) + non_df_count(op, d)


def kind_at(op, d, i):
    if i >= port_count(op, d):
        return None
    vp = value_ports(op, d)
    if i < len(vp):
        return ("value", vp[i])
    st = static_kind(op, d)
    if st is not None and i == len(vp):
        return st
    return other_kind(op, d)


def other_port(op, d):
    if other_kind(op, d) is not None and non_df_count(op, d) >= 1:
        return len(value_ports(op, d)) + (1 if static_kind(op, d) is not None else 0)
    return None


def _resolve(op, d, off):
    if off is None:
        return other_port(op, d)
    return off if off >= 0 else None


def _is_static(k):
    return k[0] in ("const", "function")


def _single_use(k):
    return (k[0] == "value" and not is_copyable(k[1])) or k[0] == "cf"


def _must_connect_in(k):
    return k[0] in ("value", "const", "function")


# ---- graphs


def _acyclic(nodes, es) -> bool:
    """depth-first search with colours (the Lean side uses Kahn's elimination)"""
    succ = {n: [] for n in nodes}
    for a, b in es:
        succ[a].append(b)
    colour = {n: 0 for n in nodes}
    for start in nodes:
        if colour[start]:
            continue
        stack = [(start, iter(succ[start]))]
        colour[start] = 1
        while stack:
            n, it = stack[-1]
            for m in it:
                if colour[m] == 1:
                    return False
                if colour[m] == 0:
                    colour[m] = 1
                    stack.append((m, iter(succ[m])))
                    break
            else:
                colour[n] = 2
                stack.pop()
    return True


def _dominator_sets(nodes, es, entry):
    """The standard iterative fixpoint: Dom(entry) = {entry}; Dom(n) = {n} ∪ ⋂ Dom(preds of n), over the
    nodes reachable from the entry (the Lean side removes the candidate dominator and tests reachability)."""
    succ = {n: [] for n in nodes}
    pred = {n: [] for n in nodes}
    for a, b in es:
        succ[a].append(b)
        pred[b].append(a)
    reach, todo = {entry}, [entry]
    while todo:
        n = todo.pop()
        for m in succ[n]:
            if m not in reach:
                reach.add(m)
                todo.append(m)
    dom = {n: set(reach) for n in reach}
    dom[entry] = {entry}
    changed = True
    while changed:
        changed = False
        for n in nodes:
            if n not in reach or n == entry:
                continue
            ps = [p for p in pred[n] if p in reach]
            new = set.intersection(*(dom[p] for p in ps)) | {n} if ps else {n}
            if new != dom[n]:
                dom[n] = new
                changed = True
    return dom  # unreachable nodes have no entry


# ---- the rules


def py_violations(doc, info=None) -> list[tuple]:
    nodes = doc["nodes"]
    N = len(nodes)
    out: list[tuple] = []
    if N == 0:
        out.append(("R0.hierarchy",))

    def op_of(n):
        return nodes[n] if 0 <= n < N else None

    def parent(n):
        if n == 0 or not (0 <= n < N):
            return None
        return nodes[n]["parent"]

    kids: dict[int, list[int]] = {}
    for n in range(1, N):
        kids.setdefault(nodes[n]["parent"], []).append(n)

    def children(n):
        return kids.get(n, [])

    def fl(n):
        return op_flags(nodes[n]["op"])

    def tag(n):
        return OP_TAG[nodes[n]["op"]]

    # R0
    for n in range(N):
        p = nodes[n]["parent"]
        if not (p == 0 if n == 0 else p < n):
            out.append(("R0.hierarchy", n))
    # R1
    for n in range(1, N):
        p = parent(n)
        if op_of(p) is None or not tag_superset(fl(p)[0], tag(n)):
            out.append(("R1.parent_child", n))
    for n in range(N):
        if children(n) and fl(n)[0] == "None":
            out.append(("R1.non_container", n))
    for n in range(N):
        c = children(n)
        if c and not tag_superset(fl(n)[1], tag(c[0])):
            out.append(("R1.first_child", n))
    for n in range(N):
        c = children(n)
        if len(c) >= 2 and not tag_superset(fl(n)[2], tag(c[1])):
            out.append(("R1.second_child", n))
    for n in range(N):
        if fl(n)[3] and not children(n):
            out.append(("R1.no_children", n))
    # R2
    for n in range(N):
        if (fl(n)[4] or fl(n)[5]) and len(children(n)) == 1:
            out.append(("R2.two_children", n))
    for n in range(N):
        c = children(n)
        if fl(n)[4] and c:
            if value_ports(nodes[c[0]], OUT) != op_inner(nodes[n])[0]:
                out.append(("R2.input_row", n))
    for n in range(N):
        c = children(n)
        if fl(n)[4] and len(c) >= 2:
            if value_ports(nodes[c[1]], INC) != op_inner(nodes[n])[1]:
                out.append(("R2.output_row", n))
    for n in range(N):
        if fl(n)[4] and any(tag(c) in ("Input", "Output") for c in children(n)[2:]):
            out.append(("R2.internal_io", n))
    for n in range(N):
        o = nodes[n]
        if o["op"] == "Conditional" and children(n) and len(o.get("sum_rows", [])) != len(children(n)):
            out.append(("R2.cond_count", n))
    for n in range(N):
        o = nodes[n]
        if o["op"] == "Conditional":
            rows = [crow(r) for r in o.get("sum_rows", [])]
            oi, outs = crow(o.get("other_inputs", [])), crow(o.get("outputs", []))
            ok = True
            for i, c in enumerate(children(n)):
                co = nodes[c]
                if co["op"] != "Case" or i >= len(rows):
                    ok = False
                    continue
                ci, cout = op_inner(co)
                if ci != rows[i] + oi or cout != outs:
                    ok = False
            if not ok:
                out.append(("R2.case_sig", n))
    for n in range(N):
        o, c = nodes[n], children(n)
        if o["op"] == "CFG" and c:
            e = nodes[c[0]]
            if e["op"] != "DataflowBlock" or crow(e.get("inputs", [])) != op_sig(o)[0]:
                out.append(("R2.cfg_entry", n))
    for n in range(N):
        o, c = nodes[n], children(n)
        if o["op"] == "CFG" and len(c) >= 2:
            e = nodes[c[1]]
            if e["op"] != "ExitBlock" or crow(e["cfg_outputs"]) != op_sig(o)[1]:
                out.append(("R2.cfg_exit", n))
    for n in range(N):
        if nodes[n]["op"] == "CFG" and any(tag(c) == "BasicBlockExit" for c in children(n)[2:]):
            out.append(("R2.internal_exit", n))

    # the graph
    redges = []  # (idx, src, sp, dst, dp)
    bad_offsets = []
    for idx, ((s, so), (t, to)) in enumerate(doc["edges"]):
        sop, top = op_of(s), op_of(t)
        ok = sop is not None and top is not None
        if ok:
            sp, dp = _resolve(sop, OUT, so), _resolve(top, INC, to)
            ok = sp is not None and dp is not None and sp < port_count(sop, OUT) and dp < port_count(top, INC)
        if ok:
            redges.append((idx, s, sp, t, dp))
        else:
            bad_offsets.append(idx)

    def skind(e):
        return kind_at(nodes[e[1]], OUT, e[2])

    def dkind(e):
        return kind_at(nodes[e[3]], INC, e[4])

    def sib_edges(p):
        return [(e[1], e[3]) for e in redges if parent(e[1]) == p and parent(e[3]) == p]

    for e in redges:
        p = parent(e[1])
        if p is not None and fl(p)[5] and parent(e[3]) == p:
            so, to = nodes[e[1]], nodes[e[3]]
            ok = False
            if so["op"] == "DataflowBlock" and e[2] < len(so["sum_rows"]):
                have = crow(so["sum_rows"][e[2]]) + crow(so.get("other_outputs", []))
                if to["op"] == "DataflowBlock":
                    ok = have == crow(to.get("inputs", []))
                elif to["op"] == "ExitBlock":
                    ok = have == crow(to["cfg_outputs"])
            if not ok:
                out.append(("R2.cfg_edge", e[0]))
    # R3
    out += [("R3.offset", i) for i in bad_offsets]
    for n in range(N):
        if nodes[n]["op"] in DATAFLOW_OPS and op_sig(nodes[n]) is None:
            out.append(("R3.bad_tag", n))
    nin: dict[tuple, int] = {}
    nout: dict[tuple, int] = {}
    for e in redges:
        nout[(e[1], e[2])] = nout.get((e[1], e[2]), 0) + 1
        nin[(e[3], e[4])] = nin.get((e[3], e[4]), 0) + 1
    in_ports = [(n, p) for n in range(1, N) for p in range(port_count(nodes[n], INC))]
    out_ports = [(n, p) for n in range(1, N) for p in range(port_count(nodes[n], OUT))]
    for n, p in in_ports:
        if _must_connect_in(kind_at(nodes[n], INC, p)) and nin.get((n, p), 0) < 1:
            out.append(("R3.unconnected_in", n, p))
    for n, p in in_ports:
        if _must_connect_in(kind_at(nodes[n], INC, p)) and nin.get((n, p), 0) > 1:
            out.append(("R3.multi_in", n, p))
    for n, p in out_ports:
        if _single_use(kind_at(nodes[n], OUT, p)) and nout.get((n, p), 0) < 1:
            out.append(("R3.unconnected_out", n, p))
    for n, p in out_ports:
        if _single_use(kind_at(nodes[n], OUT, p)) and nout.get((n, p), 0) > 1:
            out.append(("R3.multi_out", n, p))
    for e in redges:
        if e[1] == 0 or e[3] == 0:
            out.append(("R3.root_edges", e[0]))
    # R4
    for e in redges:
        if skind(e) != dkind(e):
            out.append(("R4.kind", e[0]))
    # R5
    for n in range(N):
        if fl(n)[4] and not _acyclic(children(n), sib_edges(n)):
            out.append(("R5.cycle", n))
    # R6-R8
    nls = []
    for e in redges:
        fp = parent(e[1])
        if fp is None or parent(e[3]) == fp:
            continue
        k = skind(e)
        static = _is_static(k)
        fpp = parent(fp)
        loc, pre = ("unrelated",), []
        a, steps = parent(e[3]), 0
        while a is not None and steps < N:
            ap = parent(a)
            if ap is None:
                break
            pre.append(a)
            if ap == fp:
                loc = ("ext", a)
                break
            if not static and fpp is not None and ap == fpp:
                loc = ("dom", ap, a)
                break
            a, steps = ap, steps + 1
        else:
            pre = []
        if loc[0] == "unrelated":
            pre = []
        nls.append((e, fp, k, loc, pre))
    for e, fp, k, loc, pre in nls:
        if not (_is_static(k) or (k[0] == "value" and is_copyable(k[1]))):
            out.append(("R6.non_copyable", e[0]))
    for e, fp, k, loc, pre in nls:
        if loc[0] == "unrelated" or (loc[0] == "dom" and nodes[loc[1]]["op"] != "CFG"):
            out.append(("R6.relation", e[0]))
    for e, fp, k, loc, pre in nls:
        if loc[0] == "ext" and not _is_static(k):
            if not any(x[1] == e[1] and x[3] == loc[1] and skind(x) == ("order",) for x in redges):
                out.append(("R6.order_edge", e[0]))
    dom_cache: dict[int, dict] = {}
    for e, fp, k, loc, pre in nls:
        if loc[0] == "dom":
            g, anc = loc[1], loc[2]
            if g not in dom_cache:
                dom_cache[g] = _dominator_sets(children(g), sib_edges(g), children(g)[0])
            if fp not in dom_cache[g].get(anc, ()):
                out.append(("R7.dominance", e[0]))
    for e, fp, k, loc, pre in nls:
        if not _is_static(k) and any(nodes[a]["op"] == "FuncDefn" for a in pre):
            out.append(("R8.into_func", e[0]))
    # R9
    for n in range(N):
        if nodes[n]["op"] == "Const" and not vvalid(nodes[n]["v"]):
            out.append(("R9.const", n))
    if info is not None:
        info.update(redges=redges, nls=nls, children=kids)
    return out


def show_verdict(vs) -> str:
    if not vs:
        return "valid"
    return "(invalid " + " ".join("(" + " ".join(str(x) for x in v) + ")" for v in vs) + ")"


def py_validate(doc) -> str:
    try:
        return show_verdict(py_violations(doc))
    except (KeyError, TypeError, IndexError, ValueError, AttributeError) as e:
        return f"!unsupported undecodable {type(e).__name__}"


# =============================================================================== builder scripts
#
# Small hand-written programs for the real builders.  `SCRIPTS[name](rng) -> Hugr` are well-formed
# programs (the document must be valid); `NEG_SCRIPTS[name] = (fn, rule)` are programs that break one
# clause of well-formedness without any builder call raising (the document must be invalid with `rule`).

_QEXT = None


def _quantum():
    """A test extension with linear operations (as tests/conftest.py)."""
    global _QEXT
    if _QEXT is None:
        from hugr import ext, tys

        e = ext.Extension("verif.quantum", ext.Version(0, 1, 0))
        for name, sig in [
            ("H", tys.FunctionType.endo([tys.Qubit])),
            ("CX", tys.FunctionType.endo([tys.Qubit] * 2)),
            ("Measure", tys.FunctionType([tys.Qubit], [tys.Qubit, tys.Bool])),
            ("QAlloc", tys.FunctionType([], [tys.Qubit])),
            ("QFree", tys.FunctionType([tys.Qubit], [])),
        ]:
            e.add_op_def(ext.OpDef(name=name, description=name, signature=ext.OpDefSig(sig)))
        _QEXT = e
    return _QEXT


def _qop(name):
    from hugr import ops

    d = _quantum().operations[name]
    return ops.ExtOp(d, d.signature.poly_func.body)


def _copy_types():
    from hugr import tys
    from hugr.std.float import FLOAT_T
    from hugr.std.int import int_t

    return [tys.Bool, tys.Unit, int_t(5), FLOAT_T, tys.USize(), tys.Tuple(tys.Bool, int_t(5)),
            tys.Option(tys.Bool), tys.Sum([[tys.Bool], [int_t(5), tys.Bool]]),
            tys.FunctionType([tys.Bool], [tys.Bool])]


def s_cfg_basic(rng):
    from hugr import tys
    from hugr.build import Cfg

    ts = [rng.choice([tys.Bool, tys.Qubit, tys.Unit]) for _ in range(rng.randint(0, 3))]
    cfg = Cfg(*ts)
    with cfg.add_entry() as entry:
        entry.set_single_succ_outputs(*entry.inputs())
    cfg.branch(entry[0], cfg.exit)
    return cfg.hugr


def s_cfg_branch(rng):
    from hugr import tys
    from hugr.build import Cfg
    from hugr.std.int import INT_T, DivMod

    cfg = Cfg(tys.Bool, INT_T)
    entry = cfg.add_entry()
    entry.set_block_outputs(*entry.inputs())
    m1 = cfg.add_successor(entry[0])
    m1.set_single_succ_outputs(*m1.inputs())
    m2 = cfg.add_successor(entry[1])
    (i,) = m2.inputs()
    n = m2.add(DivMod(i, i))
    m2.set_single_succ_outputs(n[rng.randrange(2)])
    cfg.branch_exit(m1[0])
    cfg.branch_exit(m2[0])
    return cfg.hugr


def s_cfg_dom(rng):
    """Dom edges from the entry block into both successors (and into a DFG nested in one of them)."""
    from hugr import tys
    from hugr.build import Cfg
    from hugr.std.int import INT_T

    cfg = Cfg(tys.Bool, tys.Unit, INT_T)
    with cfg.add_entry() as entry:
        b, u, i = entry.inputs()
        entry.set_block_outputs(b, i)
    with cfg.add_successor(entry[0]) as m1:
        if rng.random() < 0.5:
            with m1.add_nested(u) as inner:  # the Dom edge feeds a nested region of the dominated block
                inner.set_outputs(*inner.inputs())
            m1.set_block_outputs(inner[0], *m1.inputs())
        else:
            m1.set_block_outputs(u, *m1.inputs())
    with cfg.add_successor(entry[1]) as m2:
        m2.set_block_outputs(u, *m2.inputs())
    cfg.branch_exit(m1[0])
    cfg.branch_exit(m2[0])
    return cfg.hugr


def s_cfg_asymm(rng):
    from hugr import ops, tys, val
    from hugr.build import Cfg
    from hugr.std.int import INT_T, IntVal

    with Cfg() as cfg:
        with cfg.add_entry() as entry:
            il = entry.load(IntVal(rng.randrange(30)))
            sum_ty = tys.Sum([[INT_T], [tys.Bool]])
            if rng.random() < 0.5:
                tagged = entry.add(ops.Tag(0, sum_ty)(il))
            else:
                tagged = entry.add(ops.Tag(1, sum_ty)(entry.load(val.TRUE)))
            entry.set_block_outputs(tagged)
        with cfg.add_successor(entry[0]) as middle:
            middle.set_single_succ_outputs(middle.load(val.TRUE))
        cfg.branch_exit(entry[1])
        cfg.branch_exit(middle[0])
    return cfg.hugr


def s_cfg_loop(rng):
    """entry -> body; body -> body | tail; tail -> exit, with a Dom edge from entry into tail; nested in a DFG."""
    from hugr import tys
    from hugr.build import Dfg
    from hugr.std.int import INT_T
    from hugr.std.logic import Not

    d = Dfg(tys.Bool, INT_T)
    b, i = d.inputs()
    cfg = d.add_cfg(b, i)
    with cfg.add_entry() as entry:
        eb, ei = entry.inputs()
        keep = entry.add_op(Not, eb)
        entry.set_single_succ_outputs(eb, ei)
    with cfg.add_successor(entry[0]) as body:
        bb, bi = body.inputs()
        nb = body.add_op(Not, bb)
        body.set_block_outputs(nb, nb, bi)  # Bool branching: two successors, each receives [Bool, int]
    cfg.branch(body[0], body)
    with cfg.add_successor(body[1]) as tail:
        tb, ti = tail.inputs()
        tail.set_single_succ_outputs(keep, ti) if rng.random() < 0.7 else tail.set_single_succ_outputs(tb, ti)
    cfg.branch_exit(tail[0])
    d.set_outputs(*cfg[:2])
    return d.hugr


def s_ext_nested(rng):
    """Ext edges into nested DFGs (1-3 levels), each with the order edge the builder adds."""
    from hugr import tys
    from hugr.build import Dfg
    from hugr.std.logic import Not

    h = Dfg(tys.Bool, tys.Bool)
    a, b = h.inputs()
    depth = rng.randint(1, 3)

    def nest(builder, k):
        with builder.add_nested() as inner:
            if k > 1:
                w = nest(inner, k - 1)
                inner.set_outputs(w, inner.add(Not(a)))
            else:
                inner.set_outputs(inner.add(Not(a)), b)
        return inner[0]

    w = nest(h, depth)
    h.set_outputs(w, b)
    return h.hugr


def s_ext_into_cond_loop(rng):
    """Ext edges from a function body into the cases of a conditional and into a loop body."""
    from hugr import ops, tys
    from hugr.build.function import Module
    from hugr.std.int import INT_T, DivMod

    mod = Module()
    f = mod.define_function("f", [tys.Bool, INT_T, INT_T])
    c, x, y = f.inputs()
    with f.add_if(c, x) as if_:
        (ix,) = if_.inputs()
        if_.set_outputs(if_.add(DivMod(ix, y))[0])
    with if_.add_else() as else_:
        (ex,) = else_.inputs()
        else_.set_outputs(y if rng.random() < 0.5 else ex)
    r = else_.conditional_node[0]
    with f.add_tail_loop([], [r]) as tl:
        (lx,) = tl.inputs()
        q = tl.add(DivMod(lx, y))
        tl.set_loop_outputs(c, q[rng.randrange(2)])
    f.set_outputs(tl[0])
    return mod.hugr


def s_multi_out_order(rng):
    """Partially used multi-output operations with explicit order edges (the F14 shape)."""
    from hugr.build.function import Module
    from hugr.std.int import INT_T, DivMod

    mod = Module()
    f = mod.define_function("f", [INT_T, INT_T])
    a, b = f.inputs()
    dm1 = f.add(DivMod(a, b))
    dm2 = f.add(DivMod(a, b))
    dm3 = f.add(DivMod(b, a))
    used = rng.randrange(3)
    f.add_state_order(dm1, dm2)
    f.add_state_order(dm2, f.output_node)
    f.add_state_order(f.input_node, dm3)
    if used == 0:
        f.set_outputs(dm1[0])
    elif used == 1:
        f.set_outputs(dm2[1], dm1[0])
    else:
        f.set_outputs()
    return mod.hugr


def s_poly(rng):
    from hugr import ops, tys
    from hugr.build.function import Module

    mod = Module()
    bound = rng.choice([tys.TypeBound.Any, tys.TypeBound.Copyable])
    t = tys.Qubit if bound == tys.TypeBound.Any and rng.random() < 0.6 else tys.Bool
    f_id = mod.declare_function(
        "id", tys.PolyFuncType([tys.TypeTypeParam(bound)], tys.FunctionType.endo([tys.Variable(0, bound)]))
    )
    g = mod.define_function(
        "pid", [tys.Variable(0, bound)], [tys.Variable(0, bound)], [tys.TypeTypeParam(bound)]
    )
    g.set_outputs(g.add(ops.Noop()(g.input_node[0])))
    main = mod.define_main([t])
    x = main.input_node[0]
    inst = tys.FunctionType.endo([t])
    targs = [t.type_arg()]
    callee = rng.choice([f_id, g])
    if rng.random() < 0.5:
        call = main.call(callee, x, instantiation=inst, type_args=targs)
    else:
        load = main.load_function(callee, instantiation=inst, type_args=targs)
        call = main.add(ops.CallIndirect()(load, x))
    main.set_outputs(call)
    return mod.hugr


def s_poly_row(rng):
    """A function polymorphic over a ROW variable, called at rows of other lengths than the declared one
    (0, 2, 3 values), with state order edges around the calls: the static function port sits after the value
    inputs of the INSTANTIATED signature."""
    from hugr import ops, tys
    from hugr.build.function import Module

    cop = tys.TypeBound.Copyable
    mod = Module()
    row = tys.RowVariable(0, cop)
    sig = tys.PolyFuncType([tys.ListParam(tys.TypeTypeParam(cop))], tys.FunctionType([row], [row]))
    f = mod.declare_function("pass_through", sig)
    n = rng.choice([0, 2, 3, 1])
    inst_row = [rng.choice([tys.Bool, tys.Unit, tys.USize()]) for _ in range(n)]
    main = mod.define_main(list(inst_row))
    pre = main.add_op(ops.Custom("pre", signature=tys.FunctionType([], []), extension="verif"))
    call = main.call(
        f, *main.inputs(), instantiation=tys.FunctionType(list(inst_row), list(inst_row)),
        type_args=[tys.SequenceArg([tys.TypeTypeArg(t) for t in inst_row])],
    )
    post = main.add_op(ops.Custom("post", signature=tys.FunctionType([], []), extension="verif"))
    main.add_state_order(pre, call)
    main.add_state_order(call, post)
    main.set_outputs(*[call[i] for i in range(n)])
    return mod.hugr


def s_loadfn_order(rng):
    """Function loads of functions with 0, 2 or 3 outputs (and 0..2 inputs) carrying state order edges — explicit
    ones around the load, and the one that accompanies the function value into a nested region where it is called
    indirectly: the order port of a LoadFunction is the port after its single value output, whatever the loaded
    function's own arity."""
    from hugr import ops, tys
    from hugr.build.function import Module

    mod = Module()
    n_in, n_out = rng.choice([(0, 0), (1, 0), (0, 2), (1, 2), (2, 3), (2, 1), (1, 3)])
    ins = [rng.choice([tys.Bool, tys.Unit, tys.USize()]) for _ in range(n_in)]
    picks = [rng.randrange(max(n_in, 1)) for _ in range(n_out)]
    outs = [ins[k] if ins else tys.Bool for k in picks]
    if ins:
        f = mod.define_function("f", ins)
        fin = f.inputs()
        f.set_outputs(*[fin[k] for k in picks])
    else:
        f = mod.declare_function("f", tys.PolyFuncType([], tys.FunctionType(ins, outs)))
    main = mod.define_main(list(ins))
    pre = main.add_op(ops.Custom("pre", signature=tys.FunctionType([], []), extension="verif"))
    load = main.load_function(f)
    post = main.add_op(ops.Custom("post", signature=tys.FunctionType([], []), extension="verif"))
    if rng.random() < 0.7:
        main.add_state_order(pre, load)
    if rng.random() < 0.7:
        main.add_state_order(load, post)
    if rng.random() < 0.7:
        # the function value enters a nested region (order edge load -> nested DFG added by the builder)
        with main.add_nested(*main.inputs()) as inner:
            call = inner.add(ops.CallIndirect()(load[0], *inner.inputs()))
            inner.set_outputs(*[call[i] for i in range(n_out)])
        res = inner.parent_node
    else:
        res = main.add(ops.CallIndirect()(load[0], *main.inputs()))
    main.set_outputs(*[res[i] for i in range(n_out)])
    return mod.hugr


def s_mono_recursive(rng):
    from hugr import ops, tys
    from hugr.build.function import Module

    mod = Module()
    f_id = mod.define_function("id", [tys.Qubit])
    f_id.set_outputs(f_id.input_node[0])
    rec = mod.define_function("recurse", [tys.Qubit])
    rec.declare_outputs([tys.Qubit])
    rec.set_outputs(rec.call(rec, rec.input_node[0]))
    main = mod.define_main([tys.Qubit])
    q = main.input_node[0]
    if rng.random() < 0.5:
        call = main.call(f_id, q)
    else:
        call = main.add(ops.CallIndirect()(main.load_function(f_id), q))
    main.set_outputs(main.call(rec, call))
    return mod.hugr


def s_tracked(rng):
    from hugr import tys
    from hugr.build.tracked_dfg import TrackedDfg
    from hugr.std.logic import Not

    n = rng.randint(1, 3)
    circ = TrackedDfg(*([tys.Qubit] * n), track_inputs=True)
    for _ in range(rng.randint(1, 5)):
        k = rng.randrange(3)
        if k == 0:
            circ.add(_qop("H")(rng.randrange(n)))
        elif k == 1 and n >= 2:
            a, b = rng.sample(range(n), 2)
            circ.add(_qop("CX")(a, b))
        else:
            m = circ.add(_qop("Measure")(rng.randrange(n)))
            idx = circ.track_wire(m[1])
            circ.add(Not(idx))
    circ.set_tracked_outputs()
    return circ.hugr


def s_higher_order(rng):
    from hugr import ops, tys, val
    from hugr.build import Dfg

    t = rng.choice([tys.Qubit, tys.Bool])
    fn = Dfg(t)
    fn.set_outputs(fn.add(ops.Noop()(fn.input_node[0])))
    d = Dfg(t)
    (q,) = d.inputs()
    fv = d.load(val.Function(fn.hugr))
    d.set_outputs(d.add(ops.CallIndirect()(fv, q))[0])
    return d.hugr


def s_consts(rng):
    from hugr import tys, val
    from hugr.build import Dfg
    from hugr.std.float import FloatVal
    from hugr.std.int import INT_T, IntVal

    vs = [
        val.Sum(1, tys.Sum([[INT_T], [tys.Bool, INT_T]]), [val.TRUE, IntVal(34)]),
        val.Tuple(val.TRUE, IntVal(23)),
        val.Tuple(),
        val.Some(val.TRUE),
        val.None_(tys.Bool),
        val.Left([IntVal(3)], [tys.Bool]),
        val.Right([INT_T], [val.FALSE, val.Unit]),
        val.Tuple(val.Tuple(FloatVal(0.5)), val.Some(IntVal(1))),
        val.UnitSum(2, 5),
    ]
    d = Dfg()
    ws = [d.load(v) for v in rng.sample(vs, rng.randint(1, 4))]
    d.set_outputs(*ws)
    return d.hugr


def s_module_static(rng):
    """Static non-local edges: a module-level constant loaded inside nested regions, a function called and
    loaded from inside a nested DFG, a FuncDefn nested in a dataflow region, aliases."""
    from hugr import tys, val
    from hugr.build.function import Module
    from hugr.std.int import INT_T, IntVal

    mod = Module()
    mod.add_alias_defn("my_int", INT_T)
    mod.add_alias_decl("my_bool", tys.TypeBound.Copyable)
    c = mod.add_const(IntVal(7))
    g = mod.define_function("g", [INT_T])
    g.set_outputs(g.input_node[0])
    f = mod.define_function("f", [tys.Bool])
    (b,) = f.inputs()
    with f.add_nested() as inner:
        x = inner.load(c)
        y = inner.call(g, x)
        if rng.random() < 0.5:
            with inner.add_nested(y) as inner2:
                inner2.set_outputs(inner2.call(g, inner2.load(c)), *inner2.inputs())
            inner.set_outputs(inner2[0])
        else:
            inner.set_outputs(y)
    local = f.define_function("local", [INT_T], parent=f.parent_node) if hasattr(f, "define_function") else None
    if local is not None:
        local.set_outputs(local.call(g, local.input_node[0]))
        f.set_outputs(f.call(local, inner[0]), b)
    else:
        f.set_outputs(inner[0], b)
    return mod.hugr


def s_cond_qubits(rng):
    from hugr import ops, tys, val
    from hugr.build import Dfg
    from hugr.std.int import INT_T

    either = tys.Either([tys.Qubit], [tys.Qubit, INT_T])
    h = Dfg(tys.Qubit)
    (q,) = h.inputs()
    tagged = h.add(ops.Left(either)(q))
    with h.add_conditional(tagged, h.load(val.TRUE)) as cond:
        order = [0, 1] if rng.random() < 0.5 else [1, 0]
        for k in order:
            with cond.add_case(k) as case:
                ins = case.inputs()
                case.set_outputs(ins[0], ins[-1])
    h.set_outputs(*cond[:2])
    return h.hugr


def s_complex_loop(rng):
    from hugr import ops, tys, val
    from hugr.build import Dfg
    from hugr.std.int import INT_T, IntVal

    either = tys.Either([tys.Qubit], [tys.Qubit, INT_T])
    h = Dfg(tys.Qubit)
    (q,) = h.inputs()
    with h.add_tail_loop([q], [h.load(val.TRUE)]) as tl:
        q, b = tl.inputs()
        with tl.add_if(b, q) as if_:
            (q,) = if_.inputs()
            if_.set_outputs(if_.add(ops.Continue(either)(q)))
        with if_.add_else() as else_:
            (q,) = else_.inputs()
            else_.set_outputs(else_.add(ops.Break(either)(q, else_.load(IntVal(rng.randrange(9))))))
        tl.set_loop_outputs(else_.conditional_node, b)
    h.set_outputs(*tl[:3])
    return h.hugr


def s_quantum_loop(rng):
    from hugr import tys
    from hugr.build import Dfg

    h = Dfg(tys.Qubit)
    (q,) = h.inputs()
    with h.add_tail_loop([], [q]) as tl:
        q2, b = tl.add(_qop("Measure")(tl.add(_qop("H")(tl.input_node[0]))))[:]
        tl.set_loop_outputs(b, q2)
    h.set_outputs(tl)
    return h.hugr


def s_unit_sums(rng):
    """The two spellings of a unit sum meet on one edge (Tag over empty rows / Bool / empty tuple)."""
    from hugr import ops, tys
    from hugr.build import Dfg

    n = rng.randint(1, 3)
    st = tys.Sum([[] for _ in range(n)])
    d = Dfg(tys.UnitSum(n), tys.Tuple())
    a, t = d.inputs()
    tg = d.add(ops.Tag(rng.randrange(n), st)())
    with d.add_conditional(a, t) as cond:
        for k in range(n):
            with cond.add_case(k) as case:
                case.set_outputs(*case.inputs())
    d.set_outputs(tg, cond[0], d.add(ops.MakeTuple()()))
    return d.hugr


def s_insert(rng):
    from hugr import tys
    from hugr.build import Cfg, Dfg
    from hugr.build.cond_loop import Conditional, TailLoop
    from hugr.std.logic import Not

    h1 = Dfg(tys.Bool)
    h1.set_outputs(h1.add(Not(h1.inputs()[0])))
    cfg = Cfg(tys.Bool)
    with cfg.add_entry() as entry:
        entry.set_single_succ_outputs(*entry.inputs())
    cfg.branch(entry[0], cfg.exit)
    con = Conditional(tys.Bool, [tys.Bool])
    for k in (0, 1):
        with con.add_case(k) as case:
            case.set_outputs(*case.inputs())
    tl = TailLoop([], [tys.Bool])
    tl.set_loop_outputs(tl.inputs()[0], tl.inputs()[0])
    h = Dfg(tys.Bool)
    (a,) = h.inputs()
    n1 = h.insert_nested(h1, a)
    n2 = h.insert_cfg(cfg, n1[0])
    n3 = h.insert_conditional(con, n2[0], a)
    n4 = h.insert_tail_loop(tl, [], [n3[0]])
    h.set_outputs(n4[0])
    return h.hugr


SCRIPTS = {
    "cfg_basic": s_cfg_basic, "cfg_branch": s_cfg_branch, "cfg_dom": s_cfg_dom, "cfg_asymm": s_cfg_asymm,
    "cfg_loop": s_cfg_loop, "ext_nested": s_ext_nested, "ext_into_cond_loop": s_ext_into_cond_loop,
    "multi_out_order": s_multi_out_order, "poly": s_poly, "mono_recursive": s_mono_recursive,
    "tracked": s_tracked, "higher_order": s_higher_order, "consts": s_consts, "module_static": s_module_static,
    "cond_qubits": s_cond_qubits, "complex_loop": s_complex_loop, "quantum_loop": s_quantum_loop,
    "unit_sums": s_unit_sums, "insert": s_insert, "poly_row": s_poly_row,
    "loadfn_order": s_loadfn_order,
}


# ---- programs that are NOT well-formed (no builder call raises): the document must be invalid


def n_dom_not_dominating(rng):
    """A value defined in one branch is used after the join: the block does not dominate (W5)."""
    from hugr import tys
    from hugr.build import Cfg
    from hugr.std.logic import Not

    cfg = Cfg(tys.Bool)
    with cfg.add_entry() as entry:
        (b,) = entry.inputs()
        entry.set_block_outputs(b)
    with cfg.add_successor(entry[0]) as m1:
        w = m1.add_op(Not, m1.load(__import__("hugr").val.TRUE))
        m1.set_single_succ_outputs()
    with cfg.add_successor(entry[1]) as m2:
        m2.set_single_succ_outputs()
    with cfg.add_successor(m1[0]) as join:
        join.set_single_succ_outputs(w)
    cfg.branch(m2[0], join)
    cfg.branch_exit(join[0])
    return cfg.hugr


def n_linear_ext(rng):
    """A qubit is consumed inside a nested region (W3)."""
    from hugr import tys
    from hugr.build import Dfg

    h = Dfg(tys.Qubit)
    (q,) = h.inputs()
    with h.add_nested() as inner:
        inner.set_outputs(inner.add(_qop("H")(q)))
    h.set_outputs(inner[0])
    return h.hugr


def n_unused_linear(rng):
    from hugr import tys
    from hugr.build import Dfg

    h = Dfg(tys.Qubit, tys.Bool)
    h.set_outputs(h.inputs()[1])
    return h.hugr


def n_linear_twice(rng):
    from hugr import tys
    from hugr.build import Dfg

    h = Dfg(tys.Qubit)
    (q,) = h.inputs()
    h.set_outputs(q, q)
    return h.hugr


def n_value_into_func(rng):
    """A value wire from a dataflow region into the body of a FuncDefn nested in it (W5, F24)."""
    from hugr import tys
    from hugr.build.function import Module

    mod = Module()
    f = mod.define_function("f", [tys.Bool])
    (b,) = f.inputs()
    local = f.define_function("local", [], parent=f.parent_node)
    local.set_outputs(b)
    f.set_outputs(b)
    return mod.hugr


NEG_SCRIPTS = {
    "dom_not_dominating": (n_dom_not_dominating, "R7.dominance"),
    "linear_ext": (n_linear_ext, "R6.non_copyable"),
    "unused_linear": (n_unused_linear, "R3.unconnected_out"),
    "linear_twice": (n_linear_twice, "R3.multi_out"),
    "value_into_func": (n_value_into_func, "R8.into_func"),
}


# =============================================================================== mutations
#
# Systematic single mutations of a VALID document; each yields (mutated document, rule that must be
# reported).  A mutation may have consequences under other rules as well (changing a row also breaks
# the edges attached to it); the named rule is the one the mutation is aimed at.

_Q = {"t": "Q"}
_I = {"t": "I"}


def _other_type(t):
    return _I if t.get("t") == "Q" else _Q


def _info(doc):
    info = {}
    py_violations(doc, info)
    return info


def _dup(doc):
    return copy.deepcopy(doc)


def _df_parents(doc):
    return [n for n, o in enumerate(doc["nodes"]) if o["op"] in DATAFLOW_PARENTS]


def m_swap_io(doc):
    info = _info(doc)
    for n in _df_parents(doc):
        c = info["children"].get(n, [])
        if len(c) >= 2:
            d = _dup(doc)
            a, b = c[0], c[1]
            d["nodes"][a], d["nodes"][b] = d["nodes"][b], d["nodes"][a]
            sw = {a: b, b: a}
            d["edges"] = [[[sw.get(s, s), so], [sw.get(t, t), to]] for (s, so), (t, to) in d["edges"]]
            yield d, "R1.first_child"


def m_input_row(doc):
    info = _info(doc)
    for n in _df_parents(doc):
        c = info["children"].get(n, [])
        if c and doc["nodes"][c[0]]["op"] == "Input":
            d = _dup(doc)
            ts = d["nodes"][c[0]].setdefault("types", [])
            if ts:
                ts[0] = _other_type(ts[0])
            else:
                ts.append(_I)
            yield d, "R2.input_row"


def m_output_row(doc):
    info = _info(doc)
    for n in _df_parents(doc):
        c = info["children"].get(n, [])
        if len(c) >= 2 and doc["nodes"][c[1]]["op"] == "Output":
            d = _dup(doc)
            ts = d["nodes"][c[1]].setdefault("types", [])
            if ts:
                ts[-1] = _other_type(ts[-1])
            else:
                ts.append(_I)
            yield d, "R2.output_row"


def m_drop_order_edge(doc):
    info = _info(doc)
    nodes = doc["nodes"]
    for e, fp, k, loc, pre in info["nls"]:
        if loc[0] == "ext" and k[0] == "value":
            orders = [x for x in info["redges"]
                      if x[1] == e[1] and x[3] == loc[1] and kind_at(nodes[x[1]], OUT, x[2]) == ("order",)]
            if orders:
                d = _dup(doc)
                drop = {x[0] for x in orders}
                d["edges"] = [ed for i, ed in enumerate(d["edges"]) if i not in drop]
                yield d, "R6.order_edge"


def m_add_cycle(doc):
    info = _info(doc)
    nodes = doc["nodes"]
    seen = set()
    for e in info["redges"]:
        a, b = e[1], e[3]
        if a == b or (a, b) in seen or a == 0 or b == 0:
            continue
        pa = nodes[a]["parent"]
        if pa != nodes[b]["parent"] or not op_flags(nodes[pa]["op"])[4]:
            continue
        po, pi = other_port(nodes[b], OUT), other_port(nodes[a], INC)
        if po is None or pi is None or other_kind(nodes[b], OUT) != ("order",) or other_kind(nodes[a], INC) != ("order",):
            continue
        seen.add((a, b))
        d = _dup(doc)
        d["edges"].append([[b, po], [a, pi]])
        yield d, "R5.cycle"


def m_dup_linear(doc):
    info = _info(doc)
    nodes = doc["nodes"]
    for e in info["redges"]:
        k = kind_at(nodes[e[1]], OUT, e[2])
        if k[0] == "value" and not is_copyable(k[1]):
            d = _dup(doc)
            d["edges"].append(copy.deepcopy(d["edges"][e[0]]))
            yield d, "R3.multi_out"


def m_drop_value_edge(doc):
    info = _info(doc)
    nodes = doc["nodes"]
    for e in info["redges"]:
        k = kind_at(nodes[e[1]], OUT, e[2])
        if k[0] in ("value", "const", "function"):
            d = _dup(doc)
            del d["edges"][e[0]]
            yield d, "R3.unconnected_in"


def m_reparent_to_root(doc):
    nodes = doc["nodes"]
    if nodes[0]["op"] != "Module":
        return
    for n, o in enumerate(nodes):
        if n and o["op"] in ("Extension", "Tag", "LoadConstant", "DFG", "Conditional") and o["parent"] != 0:
            d = _dup(doc)
            d["nodes"][n]["parent"] = 0
            yield d, "R1.parent_child"


def m_child_of_leaf(doc):
    nodes = doc["nodes"]
    leaves = [n for n, o in enumerate(nodes) if o["op"] in ("Extension", "Input", "LoadConstant", "Const", "Call")]
    for n, o in enumerate(nodes):
        ls = [m for m in leaves if m < n and nodes[m]["parent"] == o["parent"]]
        if n and ls and o["op"] in ("Extension", "Tag", "LoadConstant"):
            d = _dup(doc)
            d["nodes"][n]["parent"] = ls[-1]
            yield d, "R1.non_container"


def m_offset(doc):
    nodes = doc["nodes"]
    for i, ((s, so), (t, to)) in enumerate(doc["edges"]):
        d = _dup(doc)
        if i % 2 == 0:
            d["edges"][i][0][1] = port_count(nodes[s], OUT) + (i % 3)
        else:
            d["edges"][i][1][1] = port_count(nodes[t], INC) + (i % 3)
        yield d, "R3.offset"


def m_retarget_kind(doc):
    info = _info(doc)
    nodes = doc["nodes"]
    for e in info["redges"]:
        k = kind_at(nodes[e[1]], OUT, e[2])
        if k[0] != "value":
            continue
        top = nodes[e[3]]
        for p in range(port_count(top, INC)):
            k2 = kind_at(top, INC, p)
            if p != e[4] and k2 != k and k2 != ("cf",):
                d = _dup(doc)
                d["edges"][e[0]][1][1] = p
                yield d, "R4.kind"
                break


def _values(v, path=()):
    yield v, path
    if v["v"] in ("Sum", "Tuple"):
        for i, x in enumerate(v["vs"]):
            yield from _values(x, path + (i,))


def m_const(doc):
    for n, o in enumerate(doc["nodes"]):
        if o["op"] != "Const":
            continue
        for v, path in _values(o["v"]):
            if v["v"] != "Sum":
                continue
            d = _dup(doc)
            w = d["nodes"][n]["v"]
            for i in path:
                w = w["vs"][i]
            nvar = w["typ"]["size"] if w["typ"]["s"] == "Unit" else len(w["typ"]["rows"])
            row = ct({"t": "Sum", **w["typ"]})[1][w["tag"]]
            if w["vs"] and row[0] != ("I",):
                w["vs"][0] = {"v": "Extension", "extensions": [], "typ": _I,
                              "value": {"c": "ConstUsize", "v": {"value": 1}}}
            else:
                w["tag"] = nvar
            yield d, "R9.const"


def m_cond_rows(doc):
    for n, o in enumerate(doc["nodes"]):
        if o["op"] == "Conditional":
            d = _dup(doc)
            d["nodes"][n]["sum_rows"].append([])
            yield d, "R2.cond_count"


def m_case_sig(doc):
    for n, o in enumerate(doc["nodes"]):
        if o["op"] == "Case":
            d = _dup(doc)
            d["nodes"][n]["signature"]["output"].append(_I)
            yield d, "R2.case_sig"
            d = _dup(doc)
            d["nodes"][n]["signature"]["input"].insert(0, _Q)
            yield d, "R2.case_sig"


def m_cfg_block_inputs(doc):
    info = _info(doc)
    for n, o in enumerate(doc["nodes"]):
        if o["op"] == "DataflowBlock" and info["children"].get(o["parent"], [None])[0] != n:
            d = _dup(doc)
            d["nodes"][n].setdefault("inputs", []).append(_I)
            yield d, "R2.cfg_edge"


def m_cfg_entry(doc):
    info = _info(doc)
    for n, o in enumerate(doc["nodes"]):
        if o["op"] == "CFG" and info["children"].get(n):
            d = _dup(doc)
            d["nodes"][info["children"][n][0]].setdefault("inputs", []).append(_Q)
            yield d, "R2.cfg_entry"


def m_exit_outputs(doc):
    for n, o in enumerate(doc["nodes"]):
        if o["op"] == "ExitBlock":
            d = _dup(doc)
            d["nodes"][n]["cfg_outputs"].append(_I)
            yield d, "R2.cfg_exit"


def m_empty_container(doc):
    for n in _df_parents(doc):
        d = _dup(doc)
        d["nodes"].append({"parent": n, "op": "DFG",
                           "signature": {"t": "G", "input": [], "output": [], "runtime_reqs": []}})
        if d.get("metadata"):
            d["metadata"].append(None)
        yield d, "R1.no_children"


def m_extra_io(doc):
    for k, n in enumerate(_df_parents(doc)):
        d = _dup(doc)
        d["nodes"].append({"parent": n, "op": "Input" if k % 2 == 0 else "Output", "types": []})
        if d.get("metadata"):
            d["metadata"].append(None)
        yield d, "R2.internal_io"


def m_second_exit(doc):
    for n, o in enumerate(doc["nodes"]):
        if o["op"] == "CFG":
            d = _dup(doc)
            d["nodes"].append({"parent": n, "op": "ExitBlock", "cfg_outputs": []})
            if d.get("metadata"):
                d["metadata"].append(None)
            yield d, "R2.internal_exit"


def m_single_child(doc):
    """a new region holding an Input node only"""
    for n in _df_parents(doc):
        d = _dup(doc)
        k = len(d["nodes"])
        d["nodes"].append({"parent": n, "op": "DFG",
                           "signature": {"t": "G", "input": [], "output": [], "runtime_reqs": []}})
        d["nodes"].append({"parent": k, "op": "Input", "types": []})
        if d.get("metadata"):
            d["metadata"] += [None, None]
        yield d, "R2.two_children"


def m_tag_range(doc):
    for n, o in enumerate(doc["nodes"]):
        if o["op"] == "Tag":
            d = _dup(doc)
            d["nodes"][n]["tag"] = len(o["variants"])
            yield d, "R3.bad_tag"


def m_hierarchy(doc):
    N = len(doc["nodes"])
    for n in range(1, N):
        d = _dup(doc)
        d["nodes"][n]["parent"] = n if n % 2 else min(N - 1, n + 1)
        yield d, "R0.hierarchy"


def m_second_child(doc):
    """an ordinary operation in the place of the Output node: move the Output to the end"""
    info = _info(doc)
    for n in _df_parents(doc):
        c = info["children"].get(n, [])
        if len(c) >= 3:
            d = _dup(doc)
            a, b = c[1], c[-1]
            d["nodes"][a], d["nodes"][b] = d["nodes"][b], d["nodes"][a]
            # keep the parents of the children of the swapped nodes
            for o in d["nodes"][1:]:
                if o["parent"] == a:
                    o["parent"] = b
                elif o["parent"] == b:
                    o["parent"] = a
            d["nodes"][a]["parent"] = d["nodes"][b]["parent"] = n
            sw = {a: b, b: a}
            d["edges"] = [[[sw.get(s, s), so], [sw.get(t, t), to]] for (s, so), (t, to) in d["edges"]]
            ok = all(o["parent"] < k for k, o in enumerate(d["nodes"]) if k)
            if ok:
                yield d, "R1.second_child"


def m_root_edge(doc):
    nodes = doc["nodes"]
    if port_count(nodes[0], OUT) == 0:
        return
    info = _info(doc)
    for e in info["redges"]:
        k = kind_at(nodes[e[1]], OUT, e[2])
        for p in range(port_count(nodes[0], OUT)):
            if kind_at(nodes[0], OUT, p) == k:
                d = _dup(doc)
                d["edges"][e[0]][0] = [0, p]
                yield d, "R3.root_edges"
                return


def m_unrelated(doc):
    """a value edge between two regions that are not nested in each other"""
    info = _info(doc)
    nodes = doc["nodes"]
    for e in info["redges"]:
        k = kind_at(nodes[e[1]], OUT, e[2])
        if k[0] != "value" or not is_copyable(k[1]):
            continue
        for n in range(1, len(nodes)):
            if n == e[1] or nodes[n]["parent"] == nodes[e[1]]["parent"]:
                continue
            for p in range(len(value_ports(nodes[n], OUT))):
                if kind_at(nodes[n], OUT, p) == k:
                    d = _dup(doc)
                    d["edges"][e[0]][0] = [n, p]
                    if any(v[0] == "R6.relation" for v in py_violations(d)):
                        yield d, "R6.relation"
                        break
            else:
                continue
            break


MUTATIONS = {
    "swap_io": m_swap_io, "input_row": m_input_row, "output_row": m_output_row,
    "drop_order_edge": m_drop_order_edge, "add_cycle": m_add_cycle, "dup_linear": m_dup_linear,
    "drop_value_edge": m_drop_value_edge, "reparent_to_root": m_reparent_to_root,
    "child_of_leaf": m_child_of_leaf, "offset": m_offset, "retarget_kind": m_retarget_kind, "const": m_const,
    "cond_rows": m_cond_rows, "case_sig": m_case_sig, "cfg_block_inputs": m_cfg_block_inputs,
    "cfg_entry": m_cfg_entry, "exit_outputs": m_exit_outputs, "empty_container": m_empty_container,
    "extra_io": m_extra_io, "second_exit": m_second_exit, "single_child": m_single_child,
    "tag_range": m_tag_range, "hierarchy": m_hierarchy, "second_child": m_second_child,
    "root_edge": m_root_edge, "unrelated": m_unrelated,
}


# =============================================================================== cases

# Sample documents of the repository with what the Rust test-suite asserts about them (ground truth that
# does not need the binary): hugr.rs:496-536 `hugr_validation_0..3`, validate/test.rs:944-960
# `cfg_entry_io_bug`, serialize/upgrade/test.rs (the two upgrade cases load and validate).
# hugr-0.json is rejected by Rust while *loading* (document version "v3" and a malformed ConstF64 payload:
# CustomConst deserialisation, not modelled) — no expectation.
SAMPLE_FILES = [
    ("resources/test/hugr-0.json", None),
    ("resources/test/hugr-1.json", "valid"),
    ("resources/test/hugr-2.json", "R9.const"),
    ("resources/test/hugr-3.json", "valid"),
    ("resources/test/issue-1189.json", "R2.cfg_entry"),
    ("hugr-core/src/hugr/serialize/upgrade/testcases/empty_hugr.json", "valid"),
    ("hugr-core/src/hugr/serialize/upgrade/testcases/hugr_with_named_op.json", "valid"),
]


def wf_programs(rng, tier):
    """Generated WELL-FORMED builder programs (harness/gen_prog.py: typing discipline W1-W8 of DESIGN §5 C01),
    every builder family, plus TrackedDfg circuits with mixed index / wire arguments.  One spec per top-level
    document of a program (`which` = index among its `to_json` commands)."""
    import gen_prog

    n_prog, n_circ = {"quick": (220, 60), "thorough": (6000, 1500)}.get(tier, (3000, 600))
    fams = [None, "dfg", "function", "module", "cfg", "conditional", "tailloop", "tracked"]
    for i in range(n_prog):
        fam = fams[i % len(fams)]
        opts = {"to_json": True, "depth": rng.choice([2, 3, 3, 4])}
        if fam:
            opts["family"] = fam
        if rng.random() < 0.3:
            opts["bias"] = {rng.choice(["nested", "conditional", "tail_loop", "cfg", "call", "order", "load"]): 5}
        prog = gen_prog.gen_wf_program(random.Random(rng.randrange(2**31)), rng.randint(3, 30), opts)
        for w in range(sum(1 for c in prog if c[0] == "to_json")):
            sp = {"kind": "program", "prog": prog, "family": fam or "mixed", "which": w}
            if rng.random() < 0.3:
                sp["probe"] = rng.randrange(len(prog))
            yield sp
    # programs holding ONE inconsistency the builders are documented to refuse (rows that disagree: conditional cases, an
    # exit branch, a function's declared outputs).  On the unchanged tree a call raises and the property says nothing;
    # should no call raise, the program satisfies the premise of the property and its HUGR must be valid like any other
    # (seeded change C01-15: a declaration with the EMPTY row treated as no declaration, so that `set_outputs` with a
    # non-empty row silently rewrites the signature a `Call` made earlier still carries)
    for i in range(n_prog // 4):
        cls = ("declared_mismatch", "case_outputs_differ", "exit_mismatch")[i % 3]
        fam = {"declared_mismatch": "module", "case_outputs_differ": "conditional", "exit_mismatch": "cfg"}[cls]
        prng = random.Random(rng.randrange(2**31))
        inj = None
        for _ in range(6):
            prog = gen_prog.gen_wf_program(prng, prng.randint(3, 30), {"to_json": True, "family": fam, "depth": 3})
            inj = gen_prog.inject_inconsistency(prng, prog, cls)
            if inj is not None:
                break
        if inj is None:
            continue
        prog = inj["prog"]
        for w in range(sum(1 for c in prog if c[0] == "to_json")):
            yield {"kind": "program", "prog": prog, "family": f"inconsistent:{cls}", "which": w, "maybe_raises": True}
    for i in range(n_circ):
        prog = gen_prog.gen_tracked_circuit(
            random.Random(rng.randrange(2**31)), rng.randint(1, 5), rng.randint(1, 12), {"bad": 0.0}
        )
        for w in range(sum(1 for c in prog if c[0] == "to_json")):
            yield {"kind": "program", "prog": prog, "family": "tracked-circuit", "which": w}


def _build_program(prog, which=0, probe=None):
    """Run the program on the real builders; the HUGR of its `which`-th `to_json` command.  Before command
    number `probe` the observers (to_json, to_model, render_dot) are run once on every HUGR under construction
    and their results thrown away."""
    import progs

    env, docs = progs.Env(), []
    for i, c in enumerate(prog):
        if probe == i:
            seen = set()
            for b in list(env.b.values()):
                h = getattr(b, "hugr", None)
                if h is None or id(h) in seen:
                    continue
                seen.add(id(h))
                for f in (h.to_json, h.to_model, lambda h=h: h.render_dot().source):
                    try:
                        f()
                    except Exception:  # noqa: BLE001
                        pass
        try:
            progs.exec_cmd(env, c, docs)
        except progs.ProgError:
            raise
        except Exception as e:  # noqa: BLE001
            raise type(progs.exc_name(e), (Exception,), {})("raised by a builder call of the program") from None
    tj = [c for c in prog if c[0] == "to_json"]
    return env.builder(tj[which][1]).hugr


def shrink_program(spec, pred):
    """Shrink a failing program with the generator's own shrinker (drops commands, keeps definitions used)."""
    import gen_prog

    try:
        tj = [c for c in spec["prog"] if c[0] == "to_json"]
        keep = tj[spec.get("which", 0)]
        small = gen_prog.shrink_program(
            spec["prog"], lambda p: keep in p and pred({**spec, "prog": p, "which": [c for c in p if c[0] == "to_json"].index(keep)}),
        )
        if keep in small:
            return {**spec, "prog": small, "which": [c for c in small if c[0] == "to_json"].index(keep)}
    except Exception:  # noqa: BLE001
        pass
    return spec


_DOC_CACHE: dict[str, object] = {}


def _key(spec) -> str:
    return json.dumps(spec, sort_keys=True)


def build_hugr(spec):
    """The HUGR of a builder-made case (the implementation under test)."""
    k = spec["kind"]
    if k == "module":
        from props.C09 import build_module

        return build_module(spec["seed"], spec["size"])
    if k == "script":
        return SCRIPTS[spec["name"]](random.Random(spec["seed"]))
    if k == "neg_script":
        return NEG_SCRIPTS[spec["name"]][0](random.Random(spec["seed"]))
    if k == "program":
        return _build_program(spec["prog"], spec.get("which", 0), spec.get("probe"))
    raise KeyError(k)


def premise_ok(h) -> bool:
    """The premise of the property, evaluated on the `Hugr` object through its public API: every
    non-copyable value is consumed exactly once and every value input is wired exactly once."""
    from hugr import tys
    from hugr.hugr.node_port import InPort, OutPort

    n_out: dict = {}
    n_in: dict = {}
    for src, dst in h.links():
        n_out[src] = n_out.get(src, 0) + 1
        n_in[dst] = n_in.get(dst, 0) + 1
    for node in h:
        if node == h.root:
            continue
        for i in range(h.num_out_ports(node)):
            p = OutPort(node, i)
            try:
                k = h.port_kind(p)
            except Exception:  # noqa: BLE001
                continue
            if isinstance(k, tys.ValueKind) and k.ty.type_bound() == tys.TypeBound.Any and n_out.get(p, 0) != 1:
                return False
        for i in range(h.num_in_ports(node)):
            p = InPort(node, i)
            try:
                k = h.port_kind(p)
            except Exception:  # noqa: BLE001
                continue
            if isinstance(k, tys.ValueKind) and n_in.get(p, 0) != 1:
                return False
    return True


def get_doc(spec):
    """(document | None, info) — info: {"error": cls} | {"premise": bool} | {"expect": rule}."""
    key = _key(spec)
    if key in _DOC_CACHE:
        return _DOC_CACHE[key]
    k = spec["kind"]
    res = None
    if k in ("module", "script", "neg_script", "program"):
        try:
            h = build_hugr(spec)
            doc = json.loads(h.to_json())
            info = {"premise": premise_ok(h)}
            if k == "neg_script":
                info["expect"] = NEG_SCRIPTS[spec["name"]][1]
            res = (doc, info)
        except NotImplementedError:
            raise
        except Exception as e:  # noqa: BLE001
            res = (None, {"error": type(e).__name__, "detail": repr(e)[:300]})
    elif k == "file":
        from core import REPO

        try:
            res = (json.loads((REPO / spec["path"]).read_text()), {"expect": spec.get("expect")})
        except Exception as e:  # noqa: BLE001
            res = (None, {"error": type(e).__name__})
    elif k == "doc":
        res = (spec["doc"], {"expect": spec.get("expect")})
    elif k == "mutant":
        base, _ = get_doc(spec["base"])
        if base is None:
            res = (None, {"error": "base"})
        else:
            for i, (d, rule) in enumerate(MUTATIONS[spec["mut"]](base)):
                if i == spec["k"]:
                    res = (d, {"expect": rule})
                    break
            else:
                res = (None, {"error": "no-such-site"})
    else:
        raise KeyError(k)
    if len(_DOC_CACHE) > 4000:
        _DOC_CACHE.clear()
    _DOC_CACHE[key] = res
    return res


def _base_specs(rng, n_modules, n_script_seeds):
    bases = []
    for _ in range(n_modules):
        bases.append({"kind": "module", "seed": rng.randrange(10**6), "size": rng.choice([0, 2, 4, 6, 9, 12])})
    for name in SCRIPTS:
        for _ in range(n_script_seeds):
            bases.append({"kind": "script", "name": name, "seed": rng.randrange(10**4)})
    return bases


def _mutants(rng, base, per_mutation):
    doc, info = get_doc(base)
    if doc is None or not info.get("premise", True) or py_validate(doc) != "valid":
        return
    for name, fn in MUTATIONS.items():
        n = sum(1 for _ in fn(doc))
        for k in (range(n) if n <= per_mutation else sorted(rng.sample(range(n), per_mutation))):
            yield {"kind": "mutant", "base": base, "mut": name, "k": k}


def corpus():
    out = [{"kind": "file", "path": p, "expect": e} for p, e in SAMPLE_FILES]
    for name in NEG_SCRIPTS:
        out.append({"kind": "neg_script", "name": name, "seed": 0})
    for name in SCRIPTS:
        out.append({"kind": "script", "name": name, "seed": 0})
    return out


def cases(rng, tier):
    if tier == "quick":
        n_modules, n_seeds, n_mut_bases, per_mut = 120, 3, 14, 2
    elif tier == "thorough":
        n_modules, n_seeds, n_mut_bases, per_mut = 6000, 40, 260, 6
    else:  # search
        n_modules, n_seeds, n_mut_bases, per_mut = 3000, 20, 0, 0
    bases = _base_specs(rng, n_modules, n_seeds)
    yield from bases
    yield from wf_programs(rng, tier)
    if n_mut_bases:
        # mutation bases: every script once, plus random modules
        mb = [{"kind": "script", "name": name, "seed": rng.randrange(10**4)} for name in SCRIPTS]
        mods = [b for b in bases if b["kind"] == "module" and b["size"] >= 4]
        mb += rng.sample(mods, min(len(mods), n_mut_bases))
        for b in mb:
            yield from _mutants(rng, b, per_mut)


def exhaustive(tier):
    return False


# =============================================================================== the check hooks


def payload(spec):
    import bridge

    doc, info = get_doc(spec)
    if doc is None:
        return None
    return "doc.validate", bridge.json_sexp(doc)


def run_impl(spec):
    doc, info = get_doc(spec)
    if doc is None:
        return f"error {info.get('error')}"
    return py_validate(doc)


def _rules(verdict: str) -> list[str]:
    return re.findall(r"\((R\d\.\w+)", verdict)


def _family(spec) -> str:
    k = spec["kind"]
    if k == "module":
        return "build_module"
    if k == "script":
        return f"script:{spec['name']}"
    if k == "program":
        return f"program:{spec.get('family', 'wf')}"
    return k


def oracle(spec):
    doc, info = get_doc(spec)
    k = spec["kind"]
    if doc is None:
        if k == "program" and spec.get("maybe_raises"):
            return []  # a builder call raised: the premise of the property is false for this program, nothing is claimed
        if k in ("module", "script", "program"):
            return [Failure(_family(spec), f"builder-raises-{info.get('error')}", info.get("detail", ""))]
        return []
    verdict = py_validate(doc)
    if k in ("module", "script", "program"):
        if not info.get("premise", True):
            # outside the quantifier (a linear value left unused / used twice): only the premise rules may fail
            extra = [r for r in _rules(verdict) if not r.startswith("R3.")]
            return [Failure(_family(spec), extra[0], verdict[:400])] if extra else []
        if verdict != "valid":
            rs = _rules(verdict) or ["undecodable"]
            return [Failure(_family(spec), rs[0], verdict[:400])]
        return []
    if k in ("mutant", "neg_script", "doc", "file"):
        want = info.get("expect")
        site = f"mutation:{spec['mut']}" if k == "mutant" else f"{k}:{spec.get('name', spec.get('path', ''))}"
        if want == "valid":
            if verdict != "valid":
                return [Failure(site, "valid-document-rejected", verdict[:400])]
        elif want and want not in _rules(verdict):
            return [Failure(site, f"{want}-not-reported", verdict[:400])]
    return []


def nontrivial(spec, obs):
    doc, _ = get_doc(spec)
    if doc is None:
        return False
    return len(doc["edges"]) >= 1 and any(n["parent"] != 0 for n in doc["nodes"])


def stats(spec, obs, counters):
    counters[f"kind:{spec['kind']}"] += 1
    if obs == "valid":
        counters["verdict:valid"] += 1
    elif obs.startswith("(invalid"):
        counters["verdict:invalid"] += 1
        for r in set(_rules(obs)):
            counters[f"rule:{r}"] += 1
    else:
        counters["verdict:other"] += 1
    if spec["kind"] == "mutant":
        counters[f"mutation:{spec['mut']}"] += 1
    if spec["kind"] == "script":
        counters[f"script:{spec['name']}"] += 1


def shrink(spec, pred):
    if spec["kind"] == "program":
        return shrink_program(spec, pred)
    if spec["kind"] == "module":
        best = spec
        for size in (0, 1, 2, 3, 4, 6, 8):
            if size >= best["size"]:
                break
            cand = {**spec, "size": size}
            try:
                if pred(cand):
                    best = cand
                    break
            except Exception:  # noqa: BLE001
                continue
        return best
    return spec
