"""C06 — operation signatures and port kinds follow the specification's typing rules.

Streams (Lean side: lean/HugrVerif/Drive/Ops.lean; reusable by C05):
  ops.facts      every derived fact of an operation (after optional `_set_in_types/_set_out_types` calls):
                 outer/inner signature, `_inputs`, `num_out`, function port offset, and for every port offset in
                 [-1, maxoff] in both directions `Hugr.port_kind`, `op.port_type`, `Hugr.port_type`; value or
                 exception class.
  ops.roundtrip  `_to_serial(Node(p)).model_dump_json()` -> `OpType.model_validate` -> `deserialize()` -> spec,
                 and the re-encoding of the decoded operation.
  ops.enc        the encoding alone.
  ops.dec        decoding of arbitrary (mutated) JSON objects.

The oracle evaluates the property text on the real objects with reference rules written from
specification/hugr.md and hugr-core/src/ops/*.rs over the *spec* of the operation (never through ops.py
accessors): see `_ref_sig`, `_ref_inner`, `_ref_ports`.
"""
from __future__ import annotations

import copy
import json

import bridge
from bridge import A, build_op, build_type, op_to_spec, op_to_sx, spec_to_sx, type_to_spec
from core import Failure
from sexp import dumps

PROP = "C06"
TITLE = "Operation signatures and port kinds follow the specification's typing rules"
LEAN_TARGETS = ["HugrVerif.Props.C06"]
DRIVE_TARGETS = ["HugrVerif.Drive.Ops"]
RULE = (
    "random operations of all 25 op classes (plus the sugar tag classes and the Call/LoadFunc constructor) over "
    "random rows: empty rows, linear types, row variables whose instantiation changes the arity, unit sums, "
    "extension types; optional fields unset with probability 0.2 and completed by random "
    "_set_in_types/_set_out_types calls; one `ops.facts` case (all facts for offsets -1..arity+1, both directions) "
    "and one `ops.roundtrip` case per operation, plus `ops.dec` cases on mutated encodings (field dropped, unknown "
    "field added, wrong JSON kind, unknown discriminator). Non-trivial = the operation is complete and at least "
    "one port reports a kind; distinct by full spec."
)
TRUSTED = [
    "type and value layers (Tys.lean / Val.lean and their bridges) as checked by C07/C14/C05",
    "specification relations HasSig/HasInner/PortHasKind transcribed by hand from specification/hugr.md and "
    "hugr-core/src/ops/*.rs (cited per rule)",
    "pydantic lax scalar coercions ('7' for 7, true for 1) are outside the decoded fragment; never generated",
]
ASSUMPTIONS = [
    "one operation instance per node (no shared partial-op instances, DESIGN F32)",
    "Tag.tag is a natural number for the specification claims (a negative tag indexes from the end in Python; "
    "modelled, not claimed)",
]


# ----------------------------------------------------------------------------- exception classes


def _exc(e: BaseException) -> str:
    from hugr import ops

    try:
        from pydantic import ValidationError
    except Exception:  # noqa: BLE001
        ValidationError = ()  # type: ignore[assignment]
    if isinstance(e, ops.IncompleteOp):
        return "IncompleteOp"
    if isinstance(e, ops.InvalidPort):
        return "InvalidPort"
    if isinstance(e, ops.NoConcreteFunc):
        return "NoConcreteFunc"
    if ValidationError and isinstance(e, ValidationError):
        return "ValidationError"
    if isinstance(e, IndexError):
        return "IndexError"
    if isinstance(e, ValueError):
        return "ValueError"
    if isinstance(e, AssertionError):
        return "AssertionError"
    return "Exception"


def _res(f, conv):
    try:
        return conv(f())
    except Exception as e:  # noqa: BLE001
        return A(_exc(e))


def _method(op, name):
    """The bound method if the class defines it, else None (`NoMethod`)."""
    if not hasattr(type(op), name):
        return None
    return getattr(op, name)


def _call(op, name, conv, *args):
    if not hasattr(type(op), name):
        return A("NoMethod")
    return _res(lambda: getattr(op, name)(*args), conv)


def _sig_sx(ft):
    return spec_to_sx(type_to_spec(ft))


def _row_sx(r):
    return [spec_to_sx(type_to_spec(t)) for t in r]


def _kind_sx(k):
    from hugr import tys

    if isinstance(k, tys.ValueKind):
        return [A("value"), spec_to_sx(type_to_spec(k.ty))]
    if isinstance(k, tys.ConstKind):
        return [A("const"), spec_to_sx(type_to_spec(k.ty))]
    if isinstance(k, tys.FunctionKind):
        return [A("function"), spec_to_sx(type_to_spec(k.ty))]
    if isinstance(k, tys.CFKind):
        return A("cf")
    if isinstance(k, tys.OrderKind):
        return A("order")
    raise TypeError(k)


# ----------------------------------------------------------------------------- implementation adapter


def _apply_pre(op, actions):
    outs = []
    for a in actions:
        name = "_set_in_types" if a[0] == "@setin" else "_set_out_types"
        if not hasattr(type(op), name):
            outs.append(A("NoMethod"))
            continue
        try:
            getattr(op, name)([build_type(t) for t in a[1]])
            outs.append(A("ok"))
        except Exception as e:  # noqa: BLE001
            outs.append(A(_exc(e)))
    return outs


def _ports(op, maxoff):
    from hugr.hugr import Hugr
    from hugr.hugr.node_port import InPort, OutPort

    h = Hugr(op)
    res = {}
    for name, cls in (("in", InPort), ("out", OutPort)):
        rows = []
        for off in range(-1, maxoff + 1):
            port = cls(h.root, off)
            kind = _res(lambda: h.port_kind(port), _kind_sx)  # noqa: B023
            if hasattr(type(op), "port_type"):
                pty = _res(lambda: op.port_type(port), lambda t: spec_to_sx(type_to_spec(t)))  # noqa: B023
            else:
                pty = A("NoMethod")
            hty = _res(lambda: h.port_type(port),  # noqa: B023
                       lambda t: A("none") if t is None else spec_to_sx(type_to_spec(t)))
            rows.append([off, kind, pty, hty])
        res[name] = rows
    return res


def _facts_obs(spec):
    from hugr import ops

    try:
        op = build_op(spec["op"])
    except Exception as e:  # noqa: BLE001
        return dumps([[A("ctor"), A(_exc(e))]])
    pre = _apply_pre(op, spec["pre"])
    m = spec["maxoff"]
    ports = _ports(op, m)
    nth = []
    if isinstance(op, ops.Conditional):
        nth = [[n, _call(op, "nth_inputs", _row_sx, n)] for n in range(-1, m + 1)]
    elif isinstance(op, ops.DataflowBlock):
        nth = [[n, _call(op, "nth_outputs", _row_sx, n)] for n in range(-1, m + 1)]
    out = [
        [A("ctor"), A("ok")],
        [A("pre"), *pre],
        [A("op"), op_to_sx(op_to_spec(op))],
        [A("outer"), _call(op, "outer_signature", _sig_sx)],
        [A("inner"), _call(op, "inner_signature", _sig_sx)],
        [A("inputs"), _call(op, "_inputs", _row_sx)],
        [A("numout"), _res(lambda: op.num_out, int)],
        [A("fpo"), _call(op, "_function_port_offset", int)],
        [A("df"), A("true" if isinstance(op, ops.DataflowOp) else "false")],
        [A("in"), *ports["in"]],
        [A("out"), *ports["out"]],
        [A("nth"), *nth],
    ]
    return dumps(out)


def _encode(op, parent):
    from hugr.hugr.node_port import Node

    return json.loads(op._to_serial(Node(parent)).model_dump_json())


def _decode(j):
    import hugr._serialization.ops as sops

    m = sops.OpType.model_validate(copy.deepcopy(j))
    return m.root.deserialize(), m.root.parent


def _enc_obs(spec):
    try:
        op = build_op(spec["op"])
    except Exception as e:  # noqa: BLE001
        return "ctor " + _exc(e)
    try:
        return "J " + bridge.canon_json(_encode(op, spec["parent"]))
    except Exception as e:  # noqa: BLE001
        return _exc(e)


def _roundtrip_obs(spec):
    try:
        op = build_op(spec["op"])
    except Exception as e:  # noqa: BLE001
        return dumps([A("ctor"), A(_exc(e))])
    try:
        j = _encode(op, spec["parent"])
    except Exception as e:  # noqa: BLE001
        return dumps([A("enc"), A(_exc(e))])
    try:
        op2, parent = _decode(j)
    except Exception as e:  # noqa: BLE001
        return dumps([A("dec"), A(_exc(e))])
    try:
        re = "J " + bridge.canon_json(_encode(op2, parent))
    except Exception as e:  # noqa: BLE001
        re = _exc(e)
    return dumps([A("ok"), op_to_sx(op_to_spec(op2)), parent]) + " " + re


def _dec_obs(spec):
    try:
        op, parent = _decode(spec["json"])
    except Exception as e:  # noqa: BLE001
        return _exc(e)
    return dumps([A("ok"), op_to_sx(op_to_spec(op)), parent])


def run_impl(spec):
    s = spec["stream"]
    if s == "facts":
        return _facts_obs(spec)
    if s == "enc":
        return _enc_obs(spec)
    if s == "roundtrip":
        return _roundtrip_obs(spec)
    if s == "dec":
        return _dec_obs(spec)
    raise ValueError(s)


def payload(spec):
    s = spec["stream"]
    if s == "facts":
        return "ops.facts", dumps([op_to_sx(spec["op"]), [spec_to_sx(a) for a in spec["pre"]], spec["maxoff"]])
    if s in ("enc", "roundtrip"):
        return "ops." + s, dumps([op_to_sx(spec["op"]), spec["parent"]])
    if s == "dec":
        return "ops.dec", bridge.json_sexp(spec["json"])
    raise ValueError(s)


def _split_json(obs):
    """'<prefix> J <json>' -> (prefix, parsed json) ; otherwise (obs, None)."""
    i = obs.find("J {")
    if i < 0:
        return obs, None
    try:
        return obs[:i], json.loads(obs[i + 2 :])
    except ValueError:
        return obs, None


def compare(spec, impl_obs, model_obs):
    if spec["stream"] in ("enc", "roundtrip"):
        a, ja = _split_json(impl_obs)
        b, jb = _split_json(model_obs)
        return a == b and ja == jb
    return impl_obs == model_obs


# ----------------------------------------------------------------------------- reference rules (oracle)
#
# Everything below works on op *specs* (the stored attributes) and on type specs; types are compared through
# the real objects' `==` (which identifies UnitSum(n) with the general sum of n empty rows).


def _T(t):
    return build_type(t)


def _rows_of_sum(s):
    """variant rows of a SUM spec: hugr.md 'Sum' / `Type::new_sum(rows)`; a unit sum has `size` empty rows"""
    return [[] for _ in range(s[1])] if s[0] == "@usum" else s[1]


def _sum_ty(s):
    return ["@unit", s[1]] if s[0] == "@usum" else ["@sum", s[1]]


def _tuple(ts):
    return ["@sum", [list(ts)]]


def _complete(s):
    return "@none" not in (s if isinstance(s, list) else [])


def _ref_sig(s):
    """(inputs, outputs, reqs|None) the specification assigns the op's node, or None when it assigns none /
    the op is incomplete.  reqs is None where the property does not speak about requirements."""
    if isinstance(s, str) or not _complete(s):
        return None
    k = s[0]
    if k == "@input":  # dataflow.rs:114-117
        return [], s[1], None
    if k == "@output":  # dataflow.rs:134-137
        return s[1], [], None
    if k == "@custom":  # OpaqueOp: the stored signature
        return s[2][1], s[2][2], s[2][3]
    if k == "@extop":
        if s[2] != "@none":
            return s[2][1], s[2][2], s[2][3]
        poly = s[1][4]
        if poly != "@none" and not poly[1]:
            return poly[2], poly[3], poly[4]
        return None
    if k == "@maketuple":  # prelude.rs MakeTuple
        return s[1], [_tuple(s[1])], ["prelude"]
    if k == "@unpacktuple":
        return [_tuple(s[1])], s[1], ["prelude"]
    if k == "@noop":
        return [s[1]], [s[1]], ["prelude"]
    if k == "@tag":  # sum.rs:40-49
        rows = _rows_of_sum(s[2])
        if 0 <= s[1] < len(rows):
            return rows[s[1]], [_sum_ty(s[2])], None
        return None
    if k == "@dfg":  # dataflow.rs:505-512
        return s[1], s[2], None
    if k == "@cfg":
        return s[1], s[2], None
    if k == "@loadconst":  # dataflow.rs:340-343
        return [], [s[1]], None
    if k == "@cond":  # controlflow.rs:112-121
        return [_sum_ty(s[1]), *s[2]], s[3], None
    if k == "@tailloop":  # controlflow.rs:36-42
        return s[1] + s[2], s[3] + s[2], None
    if k == "@callind":  # dataflow.rs:309-316
        return [s[1], *s[1][1]], s[1][2], None
    if k == "@call":  # dataflow.rs:207-209
        return s[2][1], s[2][2], None
    if k == "@loadfunc":  # dataflow.rs:402-407
        return [], [s[2]], None
    return None


def _ref_inner(s):
    if isinstance(s, str) or not _complete(s):
        return None
    k = s[0]
    if k == "@dfg":
        return s[1], s[2]
    if k == "@block":  # controlflow.rs:210-220
        return s[1], [_sum_ty(s[2]), *s[3]]
    if k == "@case":
        return s[1], s[2]
    if k == "@tailloop":  # controlflow.rs:67-87
        return s[1] + s[2], [["@sum", [s[1], s[3]]], *s[2]]
    if k == "@funcdefn":  # module.rs:68-72
        return s[2], s[4]
    return None


_ORDER_BOTH = {
    "@custom", "@extop", "@maketuple", "@unpacktuple", "@noop", "@tag", "@dfg", "@cfg", "@loadconst", "@cond",
    "@tailloop", "@callind", "@call", "@loadfunc",
}


def _has_order(s, direction):
    """DESIGN §4.1 / dataflow.rs:31-43,110-112,139-141 / hugr.md:2032-2056 column Order."""
    if isinstance(s, str):
        return False
    k = s[0]
    if k == "@input":
        return direction == "out"
    if k == "@output":
        return direction == "in"
    return k in _ORDER_BOTH


def _ref_ports(s, direction, const_ty=None):
    """offset -> expected kind, as ('value', T) | ('const', T) | ('function', POLY) | ('cf',) | ('order',)
    for exactly the ports the layout gives the operation."""
    exp = {}
    if _has_order(s, direction):
        exp[-1] = ("order",)
    if isinstance(s, str):
        return exp
    k = s[0]
    sig = _ref_sig(s)
    if sig is not None:
        row = sig[0] if direction == "in" else sig[1]
        for i, t in enumerate(row):
            exp[i] = ("value", t)
        if direction == "in" and _complete(s):
            if k == "@call":  # dataflow.rs:211-213; ops.rs:238-241
                exp[len(row)] = ("function", s[1])
            elif k == "@loadconst":
                exp[0] = ("const", s[1])
            elif k == "@loadfunc":
                exp[0] = ("function", s[1])
    if direction == "out":
        if k == "@funcdefn" and _complete(s):  # module.rs:83-85
            exp[0] = ("function", ["@poly", s[3], s[2], s[4], []])
        elif k == "@funcdecl":
            exp[0] = ("function", s[2])
        elif k == "@const" and const_ty is not None:
            exp[0] = ("constobj", const_ty)
    if k == "@block":  # controlflow.rs:244-258
        if direction == "in":
            exp[0] = ("cf",)
        elif s[2] != "@none":
            for i in range(len(_rows_of_sum(s[2]))):
                exp[i] = ("cf",)
    if k == "@exit" and direction == "in":
        exp[0] = ("cf",)
    return exp


def _ref_numout(s):
    """value outputs + static output + control-flow successors (ops.rs port_count without the order port)"""
    if s == "@module":
        return 0
    k = s[0]
    sig = _ref_sig(s)
    if sig is not None:
        return len(sig[1])
    if k in ("@funcdefn", "@funcdecl", "@const"):
        return 1
    if k == "@block" and s[2] != "@none":
        return len(_rows_of_sum(s[2]))
    if k in ("@exit", "@case", "@aliasdecl", "@aliasdefn"):
        return 0
    return None


def _kind_matches(kind, exp):
    from hugr import tys

    tag = exp[0]
    if tag == "order":
        return isinstance(kind, tys.OrderKind)
    if tag == "cf":
        return isinstance(kind, tys.CFKind)
    if tag == "value":
        return isinstance(kind, tys.ValueKind) and kind.ty == _T(exp[1])
    if tag == "const":
        return isinstance(kind, tys.ConstKind) and kind.ty == _T(exp[1])
    if tag == "constobj":
        return isinstance(kind, tys.ConstKind) and kind.ty == exp[1]
    if tag == "function":
        return isinstance(kind, tys.FunctionKind) and kind.ty == _T(exp[1])
    return False


def _rows_eq(row, spec_row):
    return list(row) == [_T(t) for t in spec_row]


def _cls(s):
    return "Module" if s == "@module" else {
        "@input": "Input", "@output": "Output", "@custom": "Custom", "@extop": "ExtOp", "@maketuple": "MakeTuple",
        "@unpacktuple": "UnpackTuple", "@noop": "Noop", "@tag": "Tag", "@dfg": "DFG", "@cfg": "CFG",
        "@block": "DataflowBlock", "@exit": "ExitBlock", "@const": "Const", "@loadconst": "LoadConst",
        "@cond": "Conditional", "@case": "Case", "@tailloop": "TailLoop", "@funcdefn": "FuncDefn",
        "@funcdecl": "FuncDecl", "@call": "Call", "@callind": "CallIndirect", "@loadfunc": "LoadFunc",
        "@aliasdecl": "AliasDecl", "@aliasdefn": "AliasDefn",
    }[s[0]]


def _oracle_facts(spec):
    from hugr import ops, tys
    from hugr.hugr import Hugr
    from hugr.hugr.node_port import InPort, OutPort

    fails: list[Failure] = []
    try:
        op = build_op(spec["op"])
    except ops.NoConcreteFunc:
        # constructor refusals: claimed only in the direction "a matching instantiation is accepted"
        c = spec["op"]
        nparams = len(c[1][1])
        if nparams == 0 or (c[2] != "@none" and c[3] != "@none" and len(c[3]) == nparams):
            fails.append(Failure("Call.__init__", "rejects-matching-instantiation", json.dumps(c)))
        return fails
    except Exception:  # noqa: BLE001
        return fails
    _apply_pre(op, spec["pre"])
    s = op_to_spec(op)  # the stored attributes after the calls
    name = _cls(s)
    m = spec["maxoff"]

    # 1. outer signature
    sig = _ref_sig(s)
    if sig is not None and name != "Call":
        try:
            got = op.outer_signature()
            if not (_rows_eq(got.input, sig[0]) and _rows_eq(got.output, sig[1])):
                fails.append(Failure(f"{name}.outer_signature", "wrong-rows", f"{got!r} expected {sig[:2]}"))
            elif sig[2] is not None and set(got.runtime_reqs) != set(sig[2]):
                fails.append(Failure(f"{name}.outer_signature", "wrong-requirements",
                                     f"{got.runtime_reqs!r} expected {sig[2]}"))
        except Exception as e:  # noqa: BLE001
            fails.append(Failure(f"{name}.outer_signature", "raises", _exc(e)))
    # 2. inner signature
    inner = _ref_inner(s)
    if inner is not None:
        try:
            got = op.inner_signature()
            if not (_rows_eq(got.input, inner[0]) and _rows_eq(got.output, inner[1])):
                fails.append(Failure(f"{name}.inner_signature", "wrong-rows", f"{got!r} expected {inner}"))
        except Exception as e:  # noqa: BLE001
            fails.append(Failure(f"{name}.inner_signature", "raises", _exc(e)))
    # 3. output count
    n = _ref_numout(s)
    if n is not None:
        try:
            if op.num_out != n:
                fails.append(Failure(f"{name}.num_out", "wrong-count", f"{op.num_out} expected {n}"))
        except Exception as e:  # noqa: BLE001
            fails.append(Failure(f"{name}.num_out", "raises", _exc(e)))
    # 4. port kinds of every port the layout gives the op; type of value output ports = kind payload
    h = Hugr(op)
    const_ty = None
    if name == "Const":
        try:
            const_ty = op.val.type_()
        except Exception:  # noqa: BLE001
            const_ty = None
    for direction, pcls in (("in", InPort), ("out", OutPort)):
        exp = _ref_ports(s, direction, const_ty)
        for off in range(-1, m + 1):
            port = pcls(h.root, off)
            kind = None
            try:
                kind = h.port_kind(port)
            except Exception as e:  # noqa: BLE001
                if off in exp:
                    what = "order-port-raises" if off == -1 else "layout-port-raises"
                    fails.append(Failure(f"{name}.port_kind", what, f"{direction} {off}: {_exc(e)}"))
                continue
            if off in exp and not _kind_matches(kind, exp[off]):
                what = "order-port-kind" if off == -1 else (
                    "function-port-offset" if exp[off][0] == "function" and name == "Call" else "wrong-kind")
                fails.append(Failure(f"{name}.port_kind", what, f"{direction} {off}: {kind!r} expected {exp[off]}"))
            if direction == "out" and isinstance(kind, tys.ValueKind):
                try:
                    t = h.port_type(port)
                    if not (t == kind.ty):
                        fails.append(Failure("Hugr.port_type", "differs-from-kind-payload",
                                             f"{name} out {off}: {t!r} vs {kind.ty!r}"))
                except Exception as e:  # noqa: BLE001
                    fails.append(Failure("Hugr.port_type", "raises-on-value-output", f"{name} out {off}: {_exc(e)}"))
    # 5. case / successor rows
    if name == "Conditional":
        rows = _rows_of_sum(s[1])
        for i, r in enumerate(rows):  # controlflow.rs:136-138
            try:
                if not _rows_eq(op.nth_inputs(i), [*r, *s[2]]):
                    fails.append(Failure("Conditional.nth_inputs", "wrong-row", f"case {i}"))
            except Exception as e:  # noqa: BLE001
                fails.append(Failure("Conditional.nth_inputs", "raises", f"case {i}: {_exc(e)}"))
    if name == "DataflowBlock" and _complete(s):
        rows = _rows_of_sum(s[2])
        for i, r in enumerate(rows):  # controlflow.rs:306-312
            try:
                if not _rows_eq(op.nth_outputs(i), [*r, *s[3]]):
                    fails.append(Failure("DataflowBlock.nth_outputs", "wrong-row", f"successor {i}"))
            except Exception as e:  # noqa: BLE001
                fails.append(Failure("DataflowBlock.nth_outputs", "raises", f"successor {i}: {_exc(e)}"))
    # 6. MakeTuple / UnpackTuple are inverse
    if name in ("MakeTuple", "UnpackTuple") and _complete(s):
        try:
            mk = ops.MakeTuple([_T(t) for t in s[1]]).outer_signature()
            un = ops.UnpackTuple([_T(t) for t in s[1]]).outer_signature()
            if not (list(un.input) == list(mk.output) and list(un.output) == list(mk.input)):
                fails.append(Failure("UnpackTuple.outer_signature", "not-inverse-of-MakeTuple", ""))
            elif set(un.runtime_reqs) != set(mk.runtime_reqs):
                fails.append(Failure("UnpackTuple.outer_signature", "wrong-requirements",
                                     f"{un.runtime_reqs!r} vs MakeTuple {mk.runtime_reqs!r}"))
        except Exception as e:  # noqa: BLE001
            fails.append(Failure("UnpackTuple.outer_signature", "raises", _exc(e)))
    # 7. Call: function port immediately after the instantiated value inputs
    if name == "Call":
        try:
            if op._function_port_offset() != len(s[2][1]):
                fails.append(Failure("Call._function_port_offset", "not-after-instantiated-inputs",
                                     f"{op._function_port_offset()} expected {len(s[2][1])}"))
        except Exception as e:  # noqa: BLE001
            fails.append(Failure("Call._function_port_offset", "raises", _exc(e)))
    # 8. Const and LoadConstant agree on the constant's type
    if name == "Const" and const_ty is not None:
        try:
            lc = ops.LoadConst(const_ty)
            hl = Hugr(lc)
            k_in = hl.port_kind(InPort(hl.root, 0))
            k_out = hl.port_kind(OutPort(hl.root, 0))
            k_c = h.port_kind(OutPort(h.root, 0))
            if not (isinstance(k_in, tys.ConstKind) and isinstance(k_c, tys.ConstKind) and k_in.ty == k_c.ty
                    and isinstance(k_out, tys.ValueKind) and k_out.ty == k_c.ty
                    and lc.outer_signature().output == [k_c.ty]):
                fails.append(Failure("LoadConst.port_kind", "disagrees-with-Const", ""))
        except Exception as e:  # noqa: BLE001
            fails.append(Failure("LoadConst.port_kind", "raises", _exc(e)))
    return fails


# ---- round trip (the sentences of C05 that concern operations; reused by C05)


def _rt_type(t):
    """what the type layer's own round trip gives for a type spec (type layer: C07/C05)"""
    import hugr._serialization.tys as stys

    ty = build_type(t)
    if t[0] == "@poly":
        return type_to_spec(stys.PolyFuncType.model_validate_json(ty._to_serial().model_dump_json()).deserialize())
    if t[0] == "@fn":
        return type_to_spec(stys.FunctionType.model_validate_json(ty._to_serial().model_dump_json()).deserialize())
    return type_to_spec(stys.Type.model_validate_json(ty._to_serial_root().model_dump_json()).deserialize())


def _rt_arg(a):
    import hugr._serialization.tys as stys

    return bridge.arg_to_spec(
        stys.TypeArg.model_validate_json(bridge.build_arg(a)._to_serial_root().model_dump_json()).deserialize())


def _rt_row(r):
    return [_rt_type(t) for t in r]


def _rt_value(v):
    import hugr._serialization.ops as sops

    val = bridge.build_value(v)
    return bridge.value_to_spec(sops.Value.model_validate_json(val._to_serial_root().model_dump_json()).deserialize())


def _expected_decoded(s):
    """Reference normal form of a complete, encodable op spec: core ops attribute by attribute (types in the form
    the type layer decodes them to), extension ops as Custom with the same extension, name, signature, args."""
    if s == "@module":
        return s
    k = s[0]
    gs = lambda x: ["@gsum", [_rt_row(r) for r in _rows_of_sum(x)]]  # noqa: E731
    if k == "@input":
        return [k, _rt_row(s[1])]
    if k in ("@output", "@exit"):
        return [k, _rt_row(s[1])]
    if k == "@custom":
        return [k, s[1], _rt_type(s[2]), s[3], s[4], [_rt_arg(a) for a in s[5]]]
    if k == "@extop":
        d = s[1]
        sig = s[2] if s[2] != "@none" else ["@fn", d[4][2], d[4][3], d[4][4]]
        return ["@custom", d[2], _rt_type(sig), "", "" if d[1] == "@none" else d[1], [_rt_arg(a) for a in s[3]]]
    if k in ("@maketuple", "@unpacktuple", "@noop"):
        sig = _ref_sig(s)
        args = [["@ty", s[1]]] if k == "@noop" else [["@seq", [["@ty", t] for t in s[1]]]]
        nm = {"@maketuple": "MakeTuple", "@unpacktuple": "UnpackTuple", "@noop": "Noop"}[k]
        return ["@custom", nm, _rt_type(["@fn", sig[0], sig[1], sig[2]]), "", "prelude", [_rt_arg(a) for a in args]]
    if k == "@tag":
        return [k, s[1], gs(s[2])]
    if k == "@dfg":
        return [k, _rt_row(s[1]), _rt_row(s[2]), list(s[3])]
    if k in ("@cfg", "@case"):
        return [k, _rt_row(s[1]), _rt_row(s[2])]
    if k == "@block":
        return [k, _rt_row(s[1]), gs(s[2]), _rt_row(s[3]), list(s[4])]
    if k == "@const":
        return [k, _rt_value(s[1])]
    if k == "@loadconst":
        return [k, _rt_type(s[1])]
    if k == "@cond":
        return [k, gs(s[1]), _rt_row(s[2]), _rt_row(s[3])]
    if k == "@tailloop":
        return [k, _rt_row(s[1]), _rt_row(s[2]), _rt_row(s[3]), list(s[4])]
    if k == "@funcdefn":
        return [k, s[1], _rt_row(s[2]), s[3], _rt_row(s[4])]
    if k == "@funcdecl":
        return [k, s[1], _rt_type(s[2])]
    if k in ("@call", "@loadfunc"):
        p = _rt_type(s[1])
        if not s[1][1]:
            return [k, p, ["@fn", p[2], p[3], p[4]], []]
        return [k, p, _rt_type(s[2]), [_rt_arg(a) for a in s[3]]]
    if k == "@callind":
        return [k, _rt_type(s[1])]
    if k == "@aliasdecl":
        return s
    if k == "@aliasdefn":
        return [k, s[1], _rt_type(s[2])]
    raise ValueError(s)


_FIELD = {
    "@funcdefn": {1: "name", 2: "inputs", 3: "params", 4: "outputs"},
    "@block": {1: "inputs", 2: "sum_rows", 3: "other_outputs", 4: "extension_delta"},
    "@custom": {1: "name", 2: "signature", 3: "description", 4: "extension", 5: "args"},
    "@tailloop": {1: "just_inputs", 2: "rest", 3: "just_outputs", 4: "extension_delta"},
    "@dfg": {1: "inputs", 2: "outputs", 3: "extension_delta"},
}


def _gen_spec(t):
    """Python `==` on types identifies UnitSum(n) with the general sum of n empty rows: canonical spec"""
    if isinstance(t, list):
        if len(t) == 2 and t[0] == "@unit":
            return ["@sum", [[] for _ in range(t[1])]]
        return [_gen_spec(x) for x in t]
    return t


def _canon_ty(t):
    """a type as it compares across the codec: in the form the type layer decodes it to (extension types
    opaque), unit sums as general sums"""
    return _gen_spec(_rt_type(type_to_spec(t)))


def _canon_kind(k):
    from hugr import tys

    if isinstance(k, (tys.ValueKind, tys.ConstKind, tys.FunctionKind)):
        return (type(k).__name__, _canon_ty(k.ty))
    return (type(k).__name__,)


def _facts_of(op, m):
    """derived facts used for 'same derived facts': outer signature, num_out, port kinds"""
    from hugr.hugr import Hugr
    from hugr.hugr.node_port import InPort, OutPort

    def val(f, conv):
        try:
            return ("ok", conv(f()))
        except Exception as e:  # noqa: BLE001
            return ("err", _exc(e))

    out = {}
    if hasattr(type(op), "outer_signature"):
        out["outer_signature"] = val(
            op.outer_signature,
            lambda s: ([_canon_ty(t) for t in s.input], [_canon_ty(t) for t in s.output], sorted(set(s.runtime_reqs))))
    out["num_out"] = val(lambda: op.num_out, lambda n: n if isinstance(n, int) else repr(type(n)))
    h = Hugr(op)
    for d, pcls in (("in", InPort), ("out", OutPort)):
        for off in range(-1, m + 1):
            out[f"port_kind {d} {off}"] = val(lambda: h.port_kind(pcls(h.root, off)), _canon_kind)  # noqa: B023
    return out


def _oracle_roundtrip(spec):
    fails: list[Failure] = []
    try:
        op = build_op(spec["op"])
        s = op_to_spec(op)
        j = _encode(op, spec["parent"])
    except Exception:  # noqa: BLE001
        return fails
    name = _cls(s)
    ser = {"ExtOp": "ExtensionOp", "Custom": "ExtensionOp", "MakeTuple": "ExtensionOp", "UnpackTuple": "ExtensionOp",
           "Noop": "ExtensionOp", "LoadConst": "LoadConstant", "LoadFunc": "LoadFunction"}.get(name, name)
    if (s[0] in ("@call", "@loadfunc") and s[1][1] and len(s[1][1]) != len(s[3])):
        return fails  # not a constructible operation
    try:
        op2, parent = _decode(j)
    except Exception as e:  # noqa: BLE001
        return [Failure(f"{ser}.deserialize", "raises", _exc(e))]
    if parent != spec["parent"]:
        fails.append(Failure(f"{ser}.deserialize", "parent-differs", ""))
    # attribute by attribute
    try:
        exp = _expected_decoded(s)
        got = op_to_spec(op2)
        if got != exp:
            what = "attributes"
            if isinstance(got, list) and isinstance(exp, list) and got[0] == exp[0] and len(got) == len(exp):
                for i in range(1, len(exp)):
                    if got[i] != exp[i]:
                        what = _FIELD.get(exp[0], {}).get(i, f"field{i}")
                        break
            fails.append(Failure(f"{ser}.deserialize", f"drops-or-changes-{what}",
                                 f"decoded {json.dumps(got)} expected {json.dumps(exp)}"))
    except Exception as e:  # noqa: BLE001
        fails.append(Failure(f"{ser}.deserialize", "oracle-error", repr(e)))
    # encodes to the same document
    try:
        j2 = _encode(op2, parent)
        if j2 != j:
            fails.append(Failure(f"{ser}.deserialize", "re-encodes-differently", ""))
    except Exception as e:  # noqa: BLE001
        fails.append(Failure(f"{ser}.deserialize", "re-encoding-raises", _exc(e)))
    # same derived facts
    m = spec.get("maxoff", 3)
    fa, fb = _facts_of(op, m), _facts_of(op2, m)
    for key in fa:
        if key in fb and not (fa[key] == fb[key]):
            fails.append(Failure(f"{name}.{key.split()[0]}", "fact-changes-across-codec",
                                 f"{key}: {fa[key]!r} vs decoded {fb[key]!r}"))
            break
    return fails


def oracle(spec):
    s = spec["stream"]
    if s == "facts":
        return _oracle_facts(spec)
    if s == "roundtrip":
        return _oracle_roundtrip(spec)
    return []


# ----------------------------------------------------------------------------- generation


def _maxoff(s):
    """arity bound of a ctor spec: the longest list anywhere in it (rows, sums), + 1; capped"""
    best = 0

    def walk(x, depth):
        nonlocal best
        if isinstance(x, list) and depth < 5:
            if not (x and isinstance(x[0], str) and x[0].startswith("@")):
                best = max(best, len(x))
            for y in x:
                walk(y, depth + 1)

    walk(s, 0)
    return min(best, 5) + 1


def _gen_actions(rng, op):
    acts = []
    k = op if isinstance(op, str) else op[0]
    r = rng.random()
    if r < 0.45:
        return acts
    n = 1 if r < 0.9 else 2
    for _ in range(n):
        if k in ("@output", "@maketuple", "@noop"):
            row = bridge.gen_oprow(rng, 2) if k != "@noop" or rng.random() < 0.3 else [bridge.gen_type(rng, 2)]
            acts.append(["@setin", row])
        elif k == "@unpacktuple":
            c = rng.random()
            if c < 0.6:
                acts.append(["@setin", [["@sum", [bridge.gen_oprow(rng, 2)]]]])
            elif c < 0.7:
                acts.append(["@setin", [["@unit", rng.choice([0, 1, 2])]]])
            elif c < 0.8:
                acts.append(["@setin", [["@sum", [bridge.gen_oprow(rng, 1) for _ in range(rng.choice([0, 2]))]]]])
            else:
                acts.append(["@setin", bridge.gen_oprow(rng, 2)])
        elif k == "@callind":
            c = rng.random()
            if c < 0.7:
                acts.append(["@setin", [bridge.gen_sig(rng, 2), *bridge.gen_oprow(rng, 1)]])
            else:
                acts.append(["@setin", bridge.gen_oprow(rng, 2)])
        elif k in ("@dfg", "@case", "@funcdefn"):
            acts.append(["@setout", bridge.gen_oprow(rng, 2)])
        elif k == "@block":
            c = rng.random()
            if c < 0.75:
                acts.append(["@setout", [_sum_ty(bridge.gen_sum(rng, 2)), *bridge.gen_oprow(rng, 1)]])
            else:
                acts.append(["@setout", bridge.gen_oprow(rng, 2)])
        elif k == "@tailloop":
            c = rng.random()
            ji = op[1]
            if c < 0.6:
                acts.append(["@setout", [["@sum", [ji, bridge.gen_oprow(rng, 2)]], *op[2]]])
            elif c < 0.75:
                acts.append(["@setout", [["@sum", [bridge.gen_oprow(rng, 1), bridge.gen_oprow(rng, 1)]]]])
            elif c < 0.85:
                acts.append(["@setout", [_sum_ty(bridge.gen_sum(rng, 1))]])
            else:
                acts.append(["@setout", bridge.gen_oprow(rng, 2)])
        else:
            # a class without the method
            acts.append([rng.choice(["@setin", "@setout"]), bridge.gen_oprow(rng, 1)])
            break
    return acts


def _mutate_json(rng, j):
    """Mutations whose verdict does not depend on pydantic's lax scalar coercions."""
    j = copy.deepcopy(j)
    keys = [k for k in j if k not in ("parent", "op")]
    c = rng.random()
    if c < 0.3 and keys:
        del j[rng.choice(keys)]
    elif c < 0.4:
        del j[rng.choice(["parent", "op"])]
    elif c < 0.55:
        j[rng.choice(["input_extensions", "extra", "x"])] = rng.choice([None, 1, "s", [], {"a": 1}])
    elif c < 0.7 and keys:
        k = rng.choice(keys)
        v = j[k]
        j[k] = rng.choice([x for x in (None, [], {}, "s", 3) if type(x) is not type(v)])
    elif c < 0.78:
        j["op"] = rng.choice(["Nope", "module", "", 3, None, "Custom"])
    elif c < 0.86:
        j["parent"] = rng.choice([0, -1, 12345678901234567890])
    elif c < 0.93 and keys:
        # drop a nested default-bearing member (`t` of a signature, `runtime_reqs`)
        for k in keys:
            if isinstance(j[k], dict):
                for kk in ("t", "runtime_reqs"):
                    if kk in j[k] and rng.random() < 0.6:
                        del j[k][kk]
                if "body" in j[k] and isinstance(j[k]["body"], dict):
                    j[k]["body"].pop("t", None)
    return j


def _dec_cases(rng, n):
    out = []
    tries = 0
    while len(out) < n and tries < 20 * n:
        tries += 1
        c = bridge.gen_op(rng, partial=0.0)
        try:
            j = _encode(build_op(c), rng.choice([0, 1, 7]))
        except Exception:  # noqa: BLE001
            continue
        if isinstance(c, list) and c[0] == "@const":
            # value payloads: only unmutated (the value layer's decoder is C14/C05's)
            out.append({"stream": "dec", "json": j})
            continue
        out.append({"stream": "dec", "json": _mutate_json(rng, j) if rng.random() < 0.8 else j})
    return out


def cases(rng, tier):
    n = {"quick": 2200, "thorough": 60000, "search": 40000}[tier]
    for i in range(n):
        c = bridge.gen_op(rng, partial=0.2 if i % 3 else 0.0)
        m = _maxoff(c)
        yield {"stream": "facts", "op": c, "pre": _gen_actions(rng, c), "maxoff": m}
        if tier == "search" or i % 2 == 0:
            yield {"stream": "roundtrip", "op": c, "parent": rng.choice([0, 1, 5]), "maxoff": m}
        elif i % 10 == 1:
            yield {"stream": "enc", "op": c, "parent": rng.choice([0, 3])}
    if tier != "search":
        yield from _dec_cases(rng, n // 4)


def corpus():
    return []


# ----------------------------------------------------------------------------- bookkeeping


def nontrivial(spec, obs):
    if spec["stream"] == "facts":
        return "(ctor ok)" in obs and ("(value" in obs or "(function" in obs or " cf " in obs or "(const" in obs)
    if spec["stream"] == "roundtrip":
        return obs.startswith("(ok")
    if spec["stream"] == "dec":
        return True
    return obs.startswith("J ")


def stats(spec, obs, counters):
    st = spec["stream"]
    counters[f"stream.{st}"] += 1
    if st == "dec":
        counters["dec.accepted" if obs.startswith("(ok") else f"dec.{obs[:20]}"] += 1
        return
    c = spec["op"]
    k = c if isinstance(c, str) else c[0]
    counters[f"op.{k[1:]}"] += 1
    if st == "facts":
        counters["facts.incomplete"] += "IncompleteOp" in obs
        counters["facts.with-actions"] += bool(spec["pre"])
        counters["facts.ctor-refused"] += "(ctor ok)" not in obs
        if k in ("@mkcall", "@mkloadfunc") and "(ctor ok)" in obs:
            poly, inst = c[1], c[2]
            if inst != "@none" and poly[1] and (len(inst[1]) != len(poly[2]) or len(inst[2]) != len(poly[3])):
                counters["call.arity-changing-instantiation"] += 1
        counters["facts.empty-row-op"] += "()" in obs[:200]
    elif st == "roundtrip":
        counters[f"roundtrip.{obs.split(' ', 1)[0].strip('(')}"] += 1


def _simpler(x):
    """candidate simplifications of a (sub)spec"""
    if isinstance(x, list):
        if x and isinstance(x[0], str) and x[0].startswith("@"):
            # a tagged node: a type can become qubit
            if x[0] in ("@sum", "@fn", "@opaque", "@ext", "@alias", "@var", "@rowvar", "@unit"):
                yield "@qubit"
            for i in range(1, len(x)):
                for y in _simpler(x[i]):
                    yield x[:i] + [y] + x[i + 1 :]
        else:
            for i in range(len(x)):
                yield x[:i] + x[i + 1 :]
            for i in range(len(x)):
                for y in _simpler(x[i]):
                    yield x[:i] + [y] + x[i + 1 :]
    elif isinstance(x, str) and x and not x.startswith("@"):
        yield ""


def shrink(spec, pred):
    cur = spec
    budget = 400
    improved = True
    while improved and budget > 0:
        improved = False
        for key in ("pre", "op"):
            if key not in cur:
                continue
            for cand in _simpler(cur[key]):
                budget -= 1
                if budget <= 0:
                    break
                new = {**cur, key: cand}
                try:
                    if pred(new):
                        cur = new
                        improved = True
                        break
                except Exception:  # noqa: BLE001
                    continue
            if improved:
                break
    return cur
