"""C17 — the published JSON schema files and the Python codec accept the same documents.

Decided by TRANSLATION + kernel-checked equality (never by sampling pydantic verdicts):

* `translate` runs the real `scripts/generate_schema.py` in a subprocess on the CURRENT models
  (all configurations its `__main__` writes), reads the files published under
  `specification/schema`, and regenerates Lean terms (`Gen/SchemaT*`), one kernel-checked
  theorem `normalize published = normalize generated` per `$defs` entry (`Gen/SchemaE*`), the
  tables (`Gen/SchemaTables`) and the per-file conclusions (`Gen/SchemaIndex`).
* `Proofs/Schema.lean: eval_normalize` lifts equal normal forms to "same verdict on every
  document"; `Props/C17.lean` states the corollaries.
* The sampled part of the check is only about the *schema semantics model*: the verdicts of the Lean
  `Schema.eval` on the published schema are compared with the `jsonschema` package and with the
  small Python evaluator below (used by the search for a distinguishing document).
"""
from __future__ import annotations

import copy
import hashlib
import json
import os
import random
import re
import subprocess
import sys
import tempfile
from pathlib import Path

from core import Failure, InfraError, REPO, SRC, VERIF, log
from sexp import A, dumps

PROP = "C17"
LEAN_TARGETS = ["HugrVerif.Props.C17"]
DRIVE_TARGETS = ["HugrVerif.Drive.Schema"]
RULE = (
    "The property itself is decided for ALL documents by kernel-checked equality of the normalised "
    "published and generated schema terms (one theorem per $defs entry of every file the generator "
    "writes) + the general theorem eval_normalize. The evaluated cases only validate the schema-semantics "
    "model: documents = real Hugr.to_json() outputs of small random builder programs, the bundled "
    "extension files, schema-directed random instances of every $defs entry, and 1-3 random mutations "
    "of those (delete/add member, retype value, swap tag, resize array); each is judged by Lean "
    "Schema.eval on the published schema, by the jsonschema package (Draft 2020-12) and by the Python "
    "evaluator; the oracle compares the Python evaluator's verdict on the published vs the generated "
    "schema. Non-trivial = the document is a non-empty object or array and a verdict (true/false) "
    "is reached; distinct by (file, root, document)."
)
TRUSTED = [
    "translator harness/props/C17.py: JSON -> Lean `Json` terms (objects as key-sorted member lists, "
    "numbers with integral value as int), pairing of published and generated files by name",
    "scripts/generate_schema.py run unmodified in a subprocess is what `the serialization models define`",
    "pydantic: models_json_schema describes what the models accept (DESIGN §7 item 5)",
    "JSON-Schema semantics model Schema.eval (keyword subset listed in Schema.lean), cross-validated against "
    "the jsonschema package on the cases counted below; `pattern` matching is a parameter of the theorems "
    "(the driver instantiates it with a hand-written semver matcher)",
]
ASSUMPTIONS = [
    "schemas use only the modelled keyword subset (checked: theorem supported_* per file, translator problem otherwise)",
    "JSON objects have pairwise distinct keys (Python dict)",
]

SCHEMA_DIR = REPO / "specification" / "schema"
GEN_SCRIPT = REPO / "scripts" / "generate_schema.py"
NCHUNK = 8
VT_PY = "python3-vt"

# ----------------------------------------------------------------------------- schema keyword classes
# (mirror of Schema.lean)

ANNOTATIONS = {
    "title", "description", "default", "discriminator", "$defs", "$schema", "$id", "$comment",
    "examples", "deprecated", "readOnly", "writeOnly",
}
SCHEMA_KW = {"items", "additionalProperties"}
SCHEMA_LIST_KW = {"prefixItems", "anyOf", "oneOf", "allOf"}
SCHEMA_MAP_KW = {"properties", "$defs"}
KNOWN_KW = {
    "$ref", "type", "properties", "required", "additionalProperties", "items", "prefixItems", "anyOf",
    "oneOf", "allOf", "const", "enum", "minItems", "maxItems", "uniqueItems", "pattern",
} | ANNOTATIONS


def normalize(s):
    """Python port of Schema.normalize (used to predict/explain, never to decide)."""
    if not isinstance(s, dict):
        return s
    out = {}
    for k, v in s.items():
        if k in ("title", "description") or (k == "additionalProperties" and v is True):
            continue
        if k in SCHEMA_KW:
            out[k] = normalize(v)
        elif k in SCHEMA_LIST_KW:
            out[k] = [normalize(x) for x in v] if isinstance(v, list) else v
        elif k in SCHEMA_MAP_KW:
            out[k] = {n: normalize(x) for n, x in v.items()} if isinstance(v, dict) else v
        else:
            out[k] = v
    return out


def unsupported_keywords(s, path="") -> list[str]:
    if isinstance(s, bool):
        return []
    if not isinstance(s, dict):
        return [f"{path}: schema is neither object nor boolean"]
    out = []
    for k, v in s.items():
        if k not in KNOWN_KW:
            out.append(f"{path}/{k}: keyword outside the modelled subset")
        if k in SCHEMA_KW:
            out += unsupported_keywords(v, f"{path}/{k}")
        elif k in SCHEMA_LIST_KW:
            if isinstance(v, list):
                for i, x in enumerate(v):
                    out += unsupported_keywords(x, f"{path}/{k}/{i}")
            else:
                out.append(f"{path}/{k}: not a list")
        elif k in SCHEMA_MAP_KW:
            if isinstance(v, dict):
                for n, x in v.items():
                    out += unsupported_keywords(x, f"{path}/{k}/{n}")
            else:
                out.append(f"{path}/{k}: not a map")
    return out


# ----------------------------------------------------------------------------- running the generator

_GEN_WRAPPER = r"""
import json, runpy, sys, io, contextlib
src, script, out = sys.argv[1], sys.argv[2], sys.argv[3]
sys.path.insert(0, src)
from hugr._serialization import serial_hugr, testing_hugr
versions = {
    "serialization_version": serial_hugr.serialization_version(),
    "SerialHugr": serial_hugr.SerialHugr.get_version(),
    "TestingHugr": testing_hugr.TestingHugr.get_version(),
}
sys.argv = [script, out]
buf = io.StringIO()
with contextlib.redirect_stdout(buf):
    runpy.run_path(script, run_name="__main__")
json.dump(versions, open(out + "/__versions__.json", "w"))
"""

_generated_cache: dict | None = None


def generated(repo: Path = REPO) -> dict:
    """{'files': {name: schema}, 'versions': {...}} from the real generator script, in a subprocess
    (its model_rebuild mutates the global pydantic configuration)."""
    global _generated_cache
    if _generated_cache is not None:
        return _generated_cache
    with tempfile.TemporaryDirectory(prefix="c17gen") as td:
        p = subprocess.run(
            [sys.executable, "-c", _GEN_WRAPPER, str(repo / "hugr-py" / "src"),
             str(repo / "scripts" / "generate_schema.py"), td],
            capture_output=True, text=True, timeout=600,
            env={**os.environ, "PYTHONDONTWRITEBYTECODE": "1"},
        )
        if p.returncode != 0:
            raise RuntimeError("generate_schema.py failed: " + (p.stderr or p.stdout)[-1500:])
        files = {}
        versions = {}
        for f in sorted(Path(td).glob("*.json")):
            if f.name == "__versions__.json":
                versions = json.loads(f.read_text())
            else:
                files[f.name] = json.loads(f.read_text())
    _generated_cache = {"files": files, "versions": versions}
    return _generated_cache


def published(repo: Path = REPO) -> dict:
    d = repo / "specification" / "schema"
    return {f.name: json.loads(f.read_text()) for f in sorted(d.glob("*.json"))}


def configurations(repo: Path = REPO):
    """Pair generated and published files.  Returns (configs, problems); a config is
    dict(name=<file-name prefix>, gen_file, pub_file, gen, pub, version)."""
    g = generated(repo)
    pub = published(repo)
    ver = g["versions"]
    problems = []
    cfgs = []
    # the generator names its files <prefix>_<get_version()>.json
    suffixes = sorted({f"_{v}.json" for k, v in ver.items() if k != "serialization_version"}, key=len, reverse=True)
    prefixes = {}
    for name in g["files"]:
        for suf in suffixes:
            if name.endswith(suf):
                prefixes[name[: -len(suf)]] = name
                break
        else:
            problems.append(f"generated file {name} does not end with a model version")
    used = set()
    for pref in sorted(prefixes):
        gen_file = prefixes[pref]
        if gen_file in pub:
            pub_file = gen_file
        else:
            # published under another version string: the longest prefix that matches wins
            cands = [
                n for n in pub
                if n.startswith(pref + "_")
                and not any(n.startswith(q + "_") for q in prefixes if len(q) > len(pref) and q.startswith(pref))
            ]
            pub_file = cands[0] if len(cands) == 1 else None
        if pub_file is None:
            problems.append(f"no published file for generated {gen_file}")
            continue
        used.add(pub_file)
        version = gen_file[len(pref) + 1 : -len(".json")]
        cfgs.append(dict(name=pref, gen_file=gen_file, pub_file=pub_file, gen=g["files"][gen_file],
                         pub=pub[pub_file], version=version))
    for n in pub:
        if n not in used:
            problems.append(f"published file {n} is not produced by the generator")
    return cfgs, problems


# ----------------------------------------------------------------------------- Lean term emission


def lstr(s: str) -> str:
    out = ['"']
    for ch in s:
        o = ord(ch)
        if ch == '"':
            out.append('\\"')
        elif ch == "\\":
            out.append("\\\\")
        elif ch == "\n":
            out.append("\\n")
        elif ch == "\t":
            out.append("\\t")
        elif ch == "\r":
            out.append("\\r")
        elif o < 32 or o > 126:
            out.append("\\u{%x}" % o)
        else:
            out.append(ch)
    out.append('"')
    return "".join(out)


def lterm(j) -> str:
    if j is None:
        return "Json.null"
    if j is True:
        return "Json.bool true"
    if j is False:
        return "Json.bool false"
    if isinstance(j, int):
        return f"Json.int {j}" if j >= 0 else f"Json.int ({j})"
    if isinstance(j, float):
        if j.is_integer():
            return lterm(int(j))
        return f"Json.num {lstr(repr(j))}"
    if isinstance(j, str):
        return f"Json.str {lstr(j)}"
    if isinstance(j, list):
        return "Json.arr [" + ", ".join(lterm(x) for x in j) + "]"
    if isinstance(j, dict):
        return "Json.obj [" + ", ".join(f"({lstr(k)}, {lterm(j[k])})" for k in sorted(j)) + "]"
    raise TypeError(type(j))


def _ident(name: str, taken: set) -> str:
    s = re.sub(r"[^A-Za-z0-9_]", "_", name)
    if not s or s[0].isdigit():
        s = "d_" + s
    base, i = s, 1
    while s in taken:
        i += 1
        s = f"{base}_{i}"
    taken.add(s)
    return s


def _write_if_changed(path: Path, text: str):
    if not path.exists() or path.read_text() != text:
        path.write_text(text)


HEADER = "-- GENERATED by harness/props/C17.py translate() from /repo on every run. Do not edit.\n"


def translate(repo: Path, gen_dir: Path) -> list[str]:
    problems: list[str] = []
    try:
        cfgs, probs = configurations(repo)
        problems += probs
    except Exception as e:  # noqa: BLE001  generator crash, unreadable published file
        cfgs = []
        problems.append(f"translation failed: {e!r}"[:1500])
        if any(gen_dir.glob("Schema*.lean")):
            return problems  # keep the previous terms so the infrastructure still builds
    ver = generated(repo)["versions"] if cfgs else {}
    wanted: dict[str, str] = {}
    t_mods, e_mods = [], []
    tables = [HEADER]
    index = [HEADER]
    table_body, index_body = [], []
    for c in cfgs:
        ns = c["name"]
        pd, gd = c["pub"].get("$defs"), c["gen"].get("$defs")
        if not isinstance(pd, dict) or not isinstance(gd, dict):
            problems.append(f"{ns}: top-level $defs missing")
            pd = pd if isinstance(pd, dict) else {}
            gd = gd if isinstance(gd, dict) else {}
        for side, sch in (("published", c["pub"]), ("generated", c["gen"])):
            for u in unsupported_keywords(sch)[:5]:
                problems.append(f"{ns} ({side}) {u}")
        names = sorted(set(pd) | set(gd))
        taken: set = set()
        ident = {n: _ident(n, taken) for n in names}
        chunks = [names[i::NCHUNK] for i in range(NCHUNK)]
        for ci, chunk in enumerate(chunks):
            if not chunk:
                continue
            tmod, emod = f"SchemaT_{ns}_{ci}", f"SchemaE_{ns}_{ci}"
            t = [HEADER, "import HugrVerif.Json", f"namespace HugrVerif.Gen.Schema.{ns}", "open HugrVerif"]
            e = [HEADER, "import HugrVerif.Schema", f"import HugrVerif.Gen.{tmod}",
                 "namespace HugrVerif.Props.C17", "open HugrVerif HugrVerif.Schema HugrVerif.Gen.Schema"]
            for n in chunk:
                i = ident[n]
                if n in pd:
                    t.append(f"def pub_{i} : Json := {lterm(pd[n])}")
                if n in gd:
                    t.append(f"def gen_{i} : Json := {lterm(gd[n])}")
                if n in pd and n in gd:
                    e.append(f"/-- `$defs/{n}` of `{c['pub_file']}` is what the models define. -/")
                    e.append(
                        f"theorem {ns}.def_{i} : normalize {ns}.pub_{i} = normalize {ns}.gen_{i} :=\n"
                        f"  Json.beq_sound _ _ (by decide +kernel)"
                    )
            t.append(f"end HugrVerif.Gen.Schema.{ns}")
            e.append("end HugrVerif.Props.C17")
            wanted[tmod] = "\n".join(t) + "\n"
            wanted[emod] = "\n".join(e) + "\n"
            t_mods.append(tmod)
            e_mods.append(emod)
        prest = {k: v for k, v in c["pub"].items() if k != "$defs"}
        grest = {k: v for k, v in c["gen"].items() if k != "$defs"}
        roots = [n for n in ("SerialHugr", "TestingHugr", "Extension", "Package") if n in pd]
        table_body += [
            f"namespace {ns}",
            "def pubDefs : Schema.Fields := [" + ", ".join(f"({lstr(n)}, pub_{ident[n]})" for n in names if n in pd) + "]",
            "def genDefs : Schema.Fields := [" + ", ".join(f"({lstr(n)}, gen_{ident[n]})" for n in names if n in gd) + "]",
            f"def pubRest : Schema.Fields := {lterm(prest)[len('Json.obj '):]}",
            f"def genRest : Schema.Fields := {lterm(grest)[len('Json.obj '):]}",
            "/-- The whole published file. -/",
            'def pubSchema : Json := .obj (("$defs", .obj pubDefs) :: pubRest)',
            "/-- The whole file the generator writes from the current models. -/",
            'def genSchema : Json := .obj (("$defs", .obj genDefs) :: genRest)',
            f"def pubFile : String := {lstr(c['pub_file'])}",
            f"def genFile : String := {lstr(c['gen_file'])}",
            f"def namePrefix : String := {lstr(ns)}",
            f"def modelVersion : String := {lstr(c['version'])}",
            "def roots : List String := [" + ", ".join(lstr(r) for r in roots) + "]",
            f"end {ns}",
        ]
        chain = "rfl"
        common = [n for n in names if n in pd and n in gd]
        for n in reversed(common):
            chain = f"normDefs_cons_congr {ns}.def_{ident[n]} ({chain})"
        index_body += [
            f"/-- Both files define the same names. -/",
            f"theorem {ns}.keys : {ns}.pubDefs.map (·.1) = {ns}.genDefs.map (·.1) := by decide",
            f"theorem {ns}.defs : normDefs {ns}.pubDefs = normDefs {ns}.genDefs :=\n  {chain}",
            f"theorem {ns}.rest : normFields {ns}.pubRest = normFields {ns}.genRest := by decide +kernel",
            f"/-- Only modelled keywords occur. -/",
            f"theorem {ns}.supported : supported {ns}.pubSchema = true ∧ supported {ns}.genSchema = true := by\n"
            f"  constructor <;> decide +kernel",
            f"/-- The published file carries the name the generator gives it (prefix + model version). -/",
            f"theorem {ns}.file_name : {ns}.pubFile = {ns}.genFile := by decide",
        ]
    pub_names = sorted(published(repo)) if cfgs else []
    gen_names = sorted(generated(repo)["files"]) if cfgs else []
    tables += ["import HugrVerif.Schema"] + [f"import HugrVerif.Gen.{m}" for m in t_mods]
    tables += ["namespace HugrVerif.Gen.Schema", "open HugrVerif"] + table_body
    tables += [
        "/-- `*.json` files under specification/schema. -/",
        "def publishedFiles : List String := [" + ", ".join(lstr(n) for n in pub_names) + "]",
        "/-- Files written by scripts/generate_schema.py. -/",
        "def generatedFiles : List String := [" + ", ".join(lstr(n) for n in gen_names) + "]",
        "def configNames : List String := [" + ", ".join(lstr(c["name"]) for c in cfgs) + "]",
        f"def serializationVersion : String := {lstr(ver.get('serialization_version', ''))}",
        f"def serialHugrVersion : String := {lstr(ver.get('SerialHugr', ''))}",
        f"def testingHugrVersion : String := {lstr(ver.get('TestingHugr', ''))}",
        "/-- (file-name prefix, published `$defs`) for the driver. -/",
        "def pubTables : List (String × Schema.Fields) := ["
        + ", ".join(f"({lstr(c['name'])}, {c['name']}.pubDefs)" for c in cfgs) + "]",
        "def genTables : List (String × Schema.Fields) := ["
        + ", ".join(f"({lstr(c['name'])}, {c['name']}.genDefs)" for c in cfgs) + "]",
        "end HugrVerif.Gen.Schema",
    ]
    index += ["import HugrVerif.Proofs.Schema", "import HugrVerif.Gen.SchemaTables"]
    index += [f"import HugrVerif.Gen.{m}" for m in e_mods]
    index += ["namespace HugrVerif.Props.C17", "open HugrVerif HugrVerif.Schema HugrVerif.Gen.Schema"]
    index += index_body + ["end HugrVerif.Props.C17"]
    wanted["SchemaTables"] = "\n".join(tables) + "\n"
    wanted["SchemaIndex"] = "\n".join(index) + "\n"
    for m, text in wanted.items():
        _write_if_changed(gen_dir / f"{m}.lean", text)
    for f in gen_dir.glob("Schema*.lean"):
        if f.stem not in wanted:
            f.unlink()
    return problems
