"""C17 — the published JSON schema files and the Python codec accept the same documents.

Decided by TRANSLATION + kernel-checked equality (never by sampling pydantic verdicts):

* `translate` runs the real `scripts/generate_schema.py` in a subprocess on the CURRENT models
  (all configurations its `__main__` writes), reads the files published under
  `specification/schema`, and regenerates Lean terms (`Gen/SchemaT*`), one kernel-checked
  theorem `normalize published = normalize generated` per `$defs` entry (`Gen/SchemaE*`), the
  tables (`Gen/SchemaTables`) and the per-file conclusions (`Gen/SchemaIndex`).
* `Proofs/Schema.lean: eval_normalize` lifts equal normal forms to "same verdict on every
  document"; `Props/C17.lean` states the corollaries.
* The sampled part of the check is only about the *schema semantics model*: the verdicts of the Lean
  `Schema.eval` on the published schema are compared with the `jsonschema` package and with the
  small Python evaluator below (used by the search for a distinguishing document).
"""
from __future__ import annotations

import copy
import hashlib
import json
import os
import random
import re
import subprocess
import sys
import tempfile
import time
from pathlib import Path

from core import Failure, InfraError, REPO, SRC, VERIF, log
from sexp import A, dumps

PROP = "C17"
LEAN_TARGETS = ["HugrVerif.Props.C17"]
DRIVE_TARGETS = ["HugrVerif.Drive.Schema"]
RULE = (
    "The property itself is decided for ALL documents by kernel-checked equality of the normalised "
    "published and generated schema terms (one theorem per $defs entry of every file the generator "
    "writes) + the general theorem eval_normalize. The evaluated cases only validate the schema-semantics "
    "model: documents = real Hugr.to_json() outputs of small random builder programs, the bundled "
    "extension files, schema-directed random instances of every $defs entry, and 1-3 random mutations "
    "of those (delete/add member, retype value, swap tag, resize array); each is judged by Lean "
    "Schema.eval on the published schema, by the jsonschema package (Draft 2020-12) and by the Python "
    "evaluator; the oracle compares the Python evaluator's verdict on the published vs the generated "
    "schema. In addition random small acyclic $defs tables over every modelled keyword (synthetic schemas: "
    "items after prefixItems, type lists, const/enum on objects with permuted members, allOf, ...) are "
    "judged three-way on data values, instances and mutated instances. Three whole-model cases probe the trusted "
    "link `the generated schema describes what the decoder takes`: `order` (schemas independent of the rebuild "
    "order), `aliases` (member names the decoder reads = properties shown) and `enums` (every enumeration type: the "
    "decoder, strict and lax, takes exactly the listed values — all 1-character strings, near misses of values and "
    "member names, non-strings). Non-trivial = the document is a non-empty object or array and a verdict (true/false) "
    "is reached; distinct by (file, root, document)."
)
TRUSTED = [
    "translator harness/props/C17.py: JSON -> Lean `Json` terms (objects as key-sorted member lists, "
    "numbers with integral value as int), pairing of published and generated files by name",
    "scripts/generate_schema.py run unmodified in a subprocess is what `the serialization models define`",
    "pydantic: models_json_schema describes what the models accept (DESIGN §7 item 5)",
    "JSON-Schema semantics model Schema.eval (keyword subset listed in Schema.lean), cross-validated against "
    "the jsonschema package on the cases counted below; `pattern` matching is a parameter of the theorems "
    "(the driver instantiates it with a hand-written semver matcher)",
]
ASSUMPTIONS = [
    "schemas use only the modelled keyword subset (checked: theorem supported_* per file, translator problem otherwise)",
    "JSON objects have pairwise distinct keys (Python dict)",
]

NCHUNK = 8
VT_PY = "python3-vt"

# ----------------------------------------------------------------------------- schema keyword classes
# (mirror of Schema.lean)

ANNOTATIONS = {
    "title", "description", "default", "discriminator", "$defs", "$schema", "$id", "$comment",
    "examples", "deprecated", "readOnly", "writeOnly",
}
SCHEMA_KW = {"items", "additionalProperties"}
SCHEMA_LIST_KW = {"prefixItems", "anyOf", "oneOf", "allOf"}
SCHEMA_MAP_KW = {"properties", "$defs"}
KNOWN_KW = {
    "$ref", "type", "properties", "required", "additionalProperties", "items", "prefixItems", "anyOf",
    "oneOf", "allOf", "const", "enum", "minItems", "maxItems", "uniqueItems", "pattern",
} | ANNOTATIONS


def normalize(s):
    """Python port of Schema.normalize (used to predict/explain, never to decide)."""
    if not isinstance(s, dict):
        return s
    out = {}
    for k, v in s.items():
        if k in ("title", "description") or (k == "additionalProperties" and v is True):
            continue
        if k in SCHEMA_KW:
            out[k] = normalize(v)
        elif k in SCHEMA_LIST_KW:
            out[k] = [normalize(x) for x in v] if isinstance(v, list) else v
        elif k in SCHEMA_MAP_KW:
            out[k] = {n: normalize(x) for n, x in v.items()} if isinstance(v, dict) else v
        else:
            out[k] = v
    return out


def strip_annotations(s):
    """normalize + removal of every annotation keyword: equal results cannot be told apart by any document."""
    if not isinstance(s, dict):
        return s
    out = {}
    for k, v in s.items():
        if (k in ANNOTATIONS and k != "$defs") or (k == "additionalProperties" and v is True):
            continue
        if k in SCHEMA_KW:
            out[k] = strip_annotations(v)
        elif k in SCHEMA_LIST_KW:
            out[k] = [strip_annotations(x) for x in v] if isinstance(v, list) else v
        elif k in SCHEMA_MAP_KW:
            out[k] = {n: strip_annotations(x) for n, x in v.items()} if isinstance(v, dict) else v
        else:
            out[k] = v
    return out


def unsupported_keywords(s, path="") -> list[str]:
    if isinstance(s, bool):
        return []
    if not isinstance(s, dict):
        return [f"{path}: schema is neither object nor boolean"]
    out = []
    for k, v in s.items():
        if k not in KNOWN_KW:
            out.append(f"{path}/{k}: keyword outside the modelled subset")
        if k in SCHEMA_KW:
            out += unsupported_keywords(v, f"{path}/{k}")
        elif k in SCHEMA_LIST_KW:
            if isinstance(v, list):
                for i, x in enumerate(v):
                    out += unsupported_keywords(x, f"{path}/{k}/{i}")
            else:
                out.append(f"{path}/{k}: not a list")
        elif k in SCHEMA_MAP_KW:
            if isinstance(v, dict):
                for n, x in v.items():
                    out += unsupported_keywords(x, f"{path}/{k}/{n}")
            else:
                out.append(f"{path}/{k}: not a map")
    return out


# ----------------------------------------------------------------------------- running the generator

_GEN_WRAPPER = r"""
import json, runpy, sys, io, contextlib
src, script, out = sys.argv[1], sys.argv[2], sys.argv[3]
sys.path.insert(0, src)
from hugr._serialization import serial_hugr, testing_hugr
versions = {
    "serialization_version": serial_hugr.serialization_version(),
    "SerialHugr": serial_hugr.SerialHugr.get_version(),
    "TestingHugr": testing_hugr.TestingHugr.get_version(),
}
sys.argv = [script, out]
buf = io.StringIO()
with contextlib.redirect_stdout(buf):
    try:
        runpy.run_path(script, run_name="__main__")
    except SystemExit as e:      # a script that ends with sys.exit(main(...))
        if e.code not in (0, None):
            raise
json.dump(versions, open(out + "/__versions__.json", "w"))
"""

_generated_cache: dict | None = None

# the same four files, configured in another order and each root after the other one with the SAME
# configuration (what the models define must not depend on which root was configured before)
_ORDER_WRAPPER = r"""
import json, runpy, sys, io, contextlib
from pathlib import Path
src, script, out = sys.argv[1], sys.argv[2], sys.argv[3]
sys.path.insert(0, src)
from pydantic import ConfigDict
buf = io.StringIO()
with contextlib.redirect_stdout(buf):
    g = runpy.run_path(script, run_name="not_main")
    from hugr._serialization.serial_hugr import SerialHugr
    from hugr._serialization.testing_hugr import TestingHugr
    strict, lax = ConfigDict(strict=True, extra="forbid"), ConfigDict(strict=False, extra="allow")
    w = g["write_schema"]
    w(Path(out), "hugr_schema", SerialHugr, config=lax)
    w(Path(out), "testing_hugr_schema", TestingHugr, config=lax)
    w(Path(out), "testing_hugr_schema_strict", TestingHugr, config=strict)
    w(Path(out), "hugr_schema_strict", SerialHugr, config=strict)
    # interleavings in which one root is configured, the OTHER root re-configures the shared operation / type models,
    # and the first root is asked for the same configuration again (seeded change C17-15: a root that remembers its
    # last configuration and skips the rebuild); only the file written last in each sequence is kept
    for sub, first, other in (("il1", strict, lax), ("il2", lax, strict)):
        d = Path(out) / sub
        (d / "scratch").mkdir(parents=True)
        name = "hugr_schema_strict" if first is strict else "hugr_schema"
        w(d / "scratch", name, SerialHugr, config=first)
        w(d / "scratch", "t", TestingHugr, config=other)
        w(d, name, SerialHugr, config=first)
"""

_reordered_cache: dict | None = None


def reordered(repo: Path = REPO) -> dict:
    global _reordered_cache
    if _reordered_cache is not None:
        return _reordered_cache
    with tempfile.TemporaryDirectory(prefix="c17ord") as td:
        p = subprocess.run(
            [sys.executable, "-c", _ORDER_WRAPPER, str(repo / "hugr-py" / "src"),
             str(repo / "scripts" / "generate_schema.py"), td],
            capture_output=True, text=True, timeout=600,
            env={**os.environ, "PYTHONDONTWRITEBYTECODE": "1"},
        )
        if p.returncode != 0:
            _reordered_cache = {"error": (p.stderr or p.stdout)[-800:]}
        else:
            _reordered_cache = {"files": {f.name: json.loads(f.read_text()) for f in sorted(Path(td).glob("*.json"))},
                                "interleaved": {f"{sub}/{f.name}": json.loads(f.read_text())
                                                for sub in ("il1", "il2") for f in sorted((Path(td) / sub).glob("*.json"))}}
    return _reordered_cache


def generated(repo: Path = REPO) -> dict:
    """{'files': {name: schema}, 'versions': {...}} from the real generator script, in a subprocess
    (its model_rebuild mutates the global pydantic configuration)."""
    global _generated_cache
    if _generated_cache is not None:
        return _generated_cache
    with tempfile.TemporaryDirectory(prefix="c17gen") as td:
        p = subprocess.run(
            [sys.executable, "-c", _GEN_WRAPPER, str(repo / "hugr-py" / "src"),
             str(repo / "scripts" / "generate_schema.py"), td],
            capture_output=True, text=True, timeout=600,
            env={**os.environ, "PYTHONDONTWRITEBYTECODE": "1"},
        )
        if p.returncode != 0:
            raise RuntimeError("generate_schema.py failed: " + (p.stderr or p.stdout)[-1500:])
        files = {}
        versions = {}
        for f in sorted(Path(td).glob("*.json")):
            if f.name == "__versions__.json":
                versions = json.loads(f.read_text())
            else:
                files[f.name] = json.loads(f.read_text())
    _generated_cache = {"files": files, "versions": versions}
    return _generated_cache


def published(repo: Path = REPO, bad: list | None = None) -> dict:
    """Parsed `*.json` files under specification/schema; names of unparsable ones appended to `bad`."""
    d = repo / "specification" / "schema"
    out = {}
    for f in sorted(d.glob("*.json")):
        try:
            out[f.name] = json.loads(f.read_text())
        except ValueError:
            if bad is not None:
                bad.append(f.name)
    return out


def configurations(repo: Path = REPO):
    """Pair generated and published files.  Returns (configs, problems); a config is
    dict(name=<file-name prefix>, gen_file, pub_file, gen, pub, version)."""
    g = generated(repo)
    bad: list = []
    pub = published(repo, bad)
    ver = g["versions"]
    problems = [f"published file {n} is not valid JSON" for n in bad]
    cfgs = []
    # the generator names its files <prefix>_<get_version()>.json
    suffixes = sorted({f"_{v}.json" for k, v in ver.items() if k != "serialization_version"}, key=len, reverse=True)
    prefixes = {}
    for name in g["files"]:
        for suf in suffixes:
            if name.endswith(suf):
                prefixes[name[: -len(suf)]] = name
                break
        else:
            problems.append(f"generated file {name} does not end with a model version")
    used = set()
    for pref in sorted(prefixes):
        gen_file = prefixes[pref]
        if gen_file in pub:
            pub_file = gen_file
        else:
            # published under another version string: the longest prefix that matches wins
            cands = [
                n for n in pub
                if n.startswith(pref + "_")
                and not any(n.startswith(q + "_") for q in prefixes if len(q) > len(pref) and q.startswith(pref))
            ]
            pub_file = cands[0] if len(cands) == 1 else None
        if pub_file is None:
            problems.append(f"no published file for generated {gen_file}")
            continue
        used.add(pub_file)
        version = gen_file[len(pref) + 1 : -len(".json")]
        cfgs.append(dict(name=pref, gen_file=gen_file, pub_file=pub_file, gen=g["files"][gen_file],
                         pub=pub[pub_file], version=version))
    for n in pub:
        if n not in used:
            problems.append(f"published file {n} is not produced by the generator")
    return cfgs, problems


# ----------------------------------------------------------------------------- Lean term emission


def lstr(s: str) -> str:
    out = ['"']
    for ch in s:
        o = ord(ch)
        if ch == '"':
            out.append('\\"')
        elif ch == "\\":
            out.append("\\\\")
        elif ch == "\n":
            out.append("\\n")
        elif ch == "\t":
            out.append("\\t")
        elif ch == "\r":
            out.append("\\r")
        elif o < 32 or o > 126:
            out.append("\\u{%x}" % o)
        else:
            out.append(ch)
    out.append('"')
    return "".join(out)


def lterm(j) -> str:
    if j is None:
        return "Json.null"
    if j is True:
        return "Json.bool true"
    if j is False:
        return "Json.bool false"
    if isinstance(j, int):
        return f"Json.int {j}" if j >= 0 else f"Json.int ({j})"
    if isinstance(j, float):
        if j.is_integer():
            return lterm(int(j))
        return f"Json.num {lstr(repr(j))}"
    if isinstance(j, str):
        return f"Json.str {lstr(j)}"
    if isinstance(j, list):
        return "Json.arr [" + ", ".join(lterm(x) for x in j) + "]"
    if isinstance(j, dict):
        return "Json.obj [" + ", ".join(f"({lstr(k)}, {lterm(j[k])})" for k in sorted(j)) + "]"
    raise TypeError(type(j))


def _ident(name: str, taken: set) -> str:
    s = re.sub(r"[^A-Za-z0-9_]", "_", name)
    if not s or s[0].isdigit():
        s = "d_" + s
    base, i = s, 1
    while s in taken:
        i += 1
        s = f"{base}_{i}"
    taken.add(s)
    return s


def _write_if_changed(path: Path, text: str):
    if not path.exists() or path.read_text() != text:
        path.write_text(text)


HEADER = "-- GENERATED by harness/props/C17.py translate() from /repo on every run. Do not edit.\n"


def translate(repo: Path, gen_dir: Path) -> list[str]:
    problems: list[str] = []
    try:
        cfgs, probs = configurations(repo)
        problems += probs
    except Exception as e:  # noqa: BLE001  generator crash, unreadable published file
        cfgs = []
        problems.append(f"translation failed: {e!r}"[:1500])
        if (gen_dir / "SchemaTables.lean").exists():
            return problems  # keep the previous terms so the infrastructure still builds
    ver = generated(repo)["versions"] if cfgs else {}
    wanted: dict[str, str] = {}
    t_mods, e_mods = [], []
    tables = [HEADER]
    index = [HEADER]
    table_body, index_body = [], []
    for c in cfgs:
        ns = c["name"]
        pd, gd = c["pub"].get("$defs"), c["gen"].get("$defs")
        if not isinstance(pd, dict) or not isinstance(gd, dict):
            problems.append(f"{ns}: top-level $defs missing")
            pd = pd if isinstance(pd, dict) else {}
            gd = gd if isinstance(gd, dict) else {}
        for side, sch in (("published", c["pub"]), ("generated", c["gen"])):
            for u in unsupported_keywords(sch)[:5]:
                problems.append(f"{ns} ({side}) {u}")
        names = sorted(set(pd) | set(gd))
        taken: set = set()
        ident = {n: _ident(n, taken) for n in names}
        chunks = [names[i::NCHUNK] for i in range(NCHUNK)]
        for ci, chunk in enumerate(chunks):
            if not chunk:
                continue
            tmod, emod = f"SchemaT_{ns}_{ci}", f"SchemaE_{ns}_{ci}"
            t = [HEADER, "import HugrVerif.Json", f"namespace HugrVerif.Gen.Schema.{ns}", "open HugrVerif"]
            e = [HEADER, "import HugrVerif.Schema", f"import HugrVerif.Gen.{tmod}",
                 "namespace HugrVerif.Props.C17", "open HugrVerif HugrVerif.Schema HugrVerif.Gen.Schema"]
            for n in chunk:
                i = ident[n]
                if n in pd:
                    t.append(f"def pub_{i} : Json := {lterm(pd[n])}")
                if n in gd:
                    t.append(f"def gen_{i} : Json := {lterm(gd[n])}")
                if n in pd and n in gd:
                    e.append(f"/-- `$defs/{n}` of `{c['pub_file']}` is what the models define. -/")
                    e.append(
                        f"theorem {ns}.def_{i} : normalize {ns}.pub_{i} = normalize {ns}.gen_{i} :=\n"
                        f"  Json.beq_sound _ _ (by decide +kernel)"
                    )
            t.append(f"end HugrVerif.Gen.Schema.{ns}")
            e.append("end HugrVerif.Props.C17")
            wanted[tmod] = "\n".join(t) + "\n"
            wanted[emod] = "\n".join(e) + "\n"
            t_mods.append(tmod)
            e_mods.append(emod)
        prest = {k: v for k, v in c["pub"].items() if k != "$defs"}
        grest = {k: v for k, v in c["gen"].items() if k != "$defs"}
        roots = [n for n in ("SerialHugr", "TestingHugr", "Extension", "Package") if n in pd]
        table_body += [
            f"namespace {ns}",
            "def pubDefs : Schema.Fields := [" + ", ".join(f"({lstr(n)}, pub_{ident[n]})" for n in names if n in pd) + "]",
            "def genDefs : Schema.Fields := [" + ", ".join(f"({lstr(n)}, gen_{ident[n]})" for n in names if n in gd) + "]",
            f"def pubRest : Schema.Fields := {lterm(prest)[len('Json.obj '):]}",
            f"def genRest : Schema.Fields := {lterm(grest)[len('Json.obj '):]}",
            "/-- The whole published file. -/",
            'def pubSchema : Json := .obj (("$defs", .obj pubDefs) :: pubRest)',
            "/-- The whole file the generator writes from the current models. -/",
            'def genSchema : Json := .obj (("$defs", .obj genDefs) :: genRest)',
            f"def pubFile : String := {lstr(c['pub_file'])}",
            f"def genFile : String := {lstr(c['gen_file'])}",
            f"def namePrefix : String := {lstr(ns)}",
            f"def modelVersion : String := {lstr(c['version'])}",
            "def roots : List String := [" + ", ".join(lstr(r) for r in roots) + "]",
            f"end {ns}",
        ]
        chain = "rfl"
        common = [n for n in names if n in pd and n in gd]
        for n in reversed(common):
            chain = f"normDefs_cons_congr {ns}.def_{ident[n]} ({chain})"
        index_body += [
            f"/-- Both files define the same names. -/",
            f"theorem {ns}.keys : {ns}.pubDefs.map (·.1) = {ns}.genDefs.map (·.1) := by decide",
            f"theorem {ns}.defs : normDefs {ns}.pubDefs = normDefs {ns}.genDefs :=\n  {chain}",
            f"theorem {ns}.rest : normFields {ns}.pubRest = normFields {ns}.genRest := by decide +kernel",
            f"/-- Only modelled keywords occur. -/",
            f"theorem {ns}.supported : supported {ns}.pubSchema = true ∧ supported {ns}.genSchema = true := by\n"
            f"  constructor <;> decide +kernel",
            f"/-- The published file carries the name the generator gives it (prefix + model version). -/",
            f"theorem {ns}.file_name : {ns}.pubFile = {ns}.genFile := by decide",
        ]
    pub_names = sorted(published(repo)) if cfgs else []
    gen_names = sorted(generated(repo)["files"]) if cfgs else []
    tables += ["import HugrVerif.Schema"] + [f"import HugrVerif.Gen.{m}" for m in t_mods]
    tables += ["namespace HugrVerif.Gen.Schema", "open HugrVerif"] + table_body
    tables += [
        "/-- `*.json` files under specification/schema. -/",
        "def publishedFiles : List String := [" + ", ".join(lstr(n) for n in pub_names) + "]",
        "/-- Files written by scripts/generate_schema.py. -/",
        "def generatedFiles : List String := [" + ", ".join(lstr(n) for n in gen_names) + "]",
        "def configNames : List String := [" + ", ".join(lstr(c["name"]) for c in cfgs) + "]",
        f"def serializationVersion : String := {lstr(ver.get('serialization_version', ''))}",
        f"def serialHugrVersion : String := {lstr(ver.get('SerialHugr', ''))}",
        f"def testingHugrVersion : String := {lstr(ver.get('TestingHugr', ''))}",
        "/-- (file-name prefix, published `$defs`) for the driver. -/",
        "def pubTables : List (String × Schema.Fields) := ["
        + ", ".join(f"({lstr(c['name'])}, {c['name']}.pubDefs)" for c in cfgs) + "]",
        "def genTables : List (String × Schema.Fields) := ["
        + ", ".join(f"({lstr(c['name'])}, {c['name']}.genDefs)" for c in cfgs) + "]",
        "end HugrVerif.Gen.Schema",
    ]
    index += ["import HugrVerif.Proofs.Schema", "import HugrVerif.Gen.SchemaTables"]
    index += [f"import HugrVerif.Gen.{m}" for m in e_mods]
    index += ["namespace HugrVerif.Props.C17", "open HugrVerif HugrVerif.Schema HugrVerif.Gen.Schema"]
    index += index_body + ["end HugrVerif.Props.C17"]
    wanted["SchemaTables"] = "\n".join(tables) + "\n"
    wanted["SchemaIndex"] = "\n".join(index) + "\n"
    for m, text in wanted.items():
        _write_if_changed(gen_dir / f"{m}.lean", text)
    for pat in ("SchemaT_*.lean", "SchemaE_*.lean"):
        for f in gen_dir.glob(pat):
            if f.stem not in wanted:
                f.unlink()
    return problems


# ----------------------------------------------------------------------------- Python evaluator
# statement-by-statement mirror of Schema.eval (None = no verdict, strict)

SEMVER_PATTERN = (
    r"^(0|[1-9]\d*)\.(0|[1-9]\d*)\.(0|[1-9]\d*)(?:-((?:0|[1-9]\d*|\d*[a-zA-Z-][0-9a-zA-Z-]*)"
    r"(?:\.(?:0|[1-9]\d*|\d*[a-zA-Z-][0-9a-zA-Z-]*))*))?(?:\+([0-9a-zA-Z-]+(?:\.[0-9a-zA-Z-]+)*))?$"
)
FUEL = 2000


def _matcher(pat: str, text: str):
    if pat != SEMVER_PATTERN:
        return None
    if any(ord(c) >= 128 or c == "\n" for c in text):
        return None
    return re.search(pat, text) is not None


def _is_int(j):
    return (isinstance(j, int) and not isinstance(j, bool)) or (isinstance(j, float) and j.is_integer())


def canon(j):
    if j is None:
        return ("z",)
    if isinstance(j, bool):
        return ("b", j)
    if _is_int(j):
        return ("i", int(j))
    if isinstance(j, float):
        return ("n", repr(j))
    if isinstance(j, str):
        return ("s", j)
    if isinstance(j, list):
        return ("a", tuple(canon(x) for x in j))
    return ("o", tuple(sorted((k, canon(v)) for k, v in j.items())))


def eqv(a, b) -> bool:
    return canon(a) == canon(b)


def _type_ok(t, j):
    if t == "null":
        return j is None
    if t == "boolean":
        return isinstance(j, bool)
    if t == "integer":
        return _is_int(j)
    if t == "number":
        return isinstance(j, (int, float)) and not isinstance(j, bool)
    if t == "string":
        return isinstance(j, str)
    if t == "array":
        return isinstance(j, list)
    if t == "object":
        return isinstance(j, dict)
    return None


def _all(vals):
    vals = list(vals)
    if any(v is None for v in vals):
        return None
    return all(vals)


def _count(vals):
    vals = list(vals)
    if any(v is None for v in vals):
        return None
    return sum(1 for v in vals if v)


def ev(defs: dict, s, j, fuel: int = FUEL):
    if isinstance(s, bool):
        return s
    if not isinstance(s, dict) or fuel == 0:
        return None
    rec = lambda s2, j2: ev(defs, s2, j2, fuel - 1)  # noqa: E731
    out = []
    for k, v in s.items():
        out.append(_kw(defs, rec, s, j, k, v))
    return _all(out)


def _kw(defs, rec, sibs, j, k, v):
    if k == "$ref":
        if not isinstance(v, str) or not v.startswith("#/$defs/") or v[8:] not in defs:
            return None
        return rec(defs[v[8:]], j)
    if k == "type":
        if isinstance(v, str):
            return _type_ok(v, j)
        if isinstance(v, list):
            c = _count(_type_ok(t, j) if isinstance(t, str) else None for t in v)
            return None if c is None else c > 0
        return None
    if k == "properties":
        if not isinstance(v, dict):
            return None
        if not isinstance(j, dict):
            return True
        return _all(rec(sub, j[n]) if n in j else True for n, sub in v.items())
    if k == "required":
        if not isinstance(v, list):
            return None
        if isinstance(j, dict):
            return _all((n in j) if isinstance(n, str) else None for n in v)
        return _all(True if isinstance(n, str) else None for n in v)
    if k == "additionalProperties":
        if not isinstance(j, dict):
            return True
        props = sibs.get("properties")
        names = set(props) if isinstance(props, dict) else set()
        return _all(True if n in names else rec(v, x) for n, x in j.items())
    if k == "items":
        if not isinstance(j, list):
            return True
        pre = sibs.get("prefixItems")
        n = len(pre) if isinstance(pre, list) else 0
        return _all(rec(v, x) for x in j[n:])
    if k == "prefixItems":
        if not isinstance(v, list):
            return None
        if not isinstance(j, list):
            return True
        return _all(rec(s2, x) for s2, x in zip(v, j))
    if k in ("anyOf", "oneOf"):
        if not isinstance(v, list):
            return None
        c = _count(rec(s2, j) for s2 in v)
        if c is None:
            return None
        return c > 0 if k == "anyOf" else c == 1
    if k == "allOf":
        if not isinstance(v, list):
            return None
        return _all(rec(s2, j) for s2 in v)
    if k == "const":
        return eqv(v, j)
    if k == "enum":
        if not isinstance(v, list):
            return None
        return any(eqv(c, j) for c in v)
    if k == "minItems":
        if not _is_int(v):
            return None
        return len(j) >= v if isinstance(j, list) else True
    if k == "maxItems":
        if not _is_int(v):
            return None
        return len(j) <= v if isinstance(j, list) else True
    if k == "uniqueItems":
        if v is True:
            if not isinstance(j, list):
                return True
            cs = [canon(x) for x in j]
            return len(set(cs)) == len(cs)
        if v is False:
            return True
        return None
    if k == "pattern":
        if not isinstance(v, str):
            return None
        return _matcher(v, j) if isinstance(j, str) else True
    if k in ANNOTATIONS:
        return True
    return None


def _verdict(v) -> str:
    return "!unsupported" if v is None else ("true" if v else "false")


# ----------------------------------------------------------------------------- documents


class NoInstance(Exception):
    pass


STRS = ["", "a", "live", "Module", "x.y", "0.1.0", "é"]
SEMVERS = ["0.1.0", "1.2.3-alpha.1", "10.20.30+build.5", "1.0.0-0.3.7", "01.2.3", "1.2", "1.2.3-01", "v1.0.0"]
SIMPLE = [None, True, False, 0, 7, -3, 1.0, 2.5, "7", "s", [], {}, [1, "a"], {"k": 1}]


def _rand_any(rng):
    return copy.deepcopy(rng.choice(SIMPLE))


def gen_instance(defs, s, rng, depth=0, maxdepth=5):
    """Random (mostly valid) instance of schema `s`."""
    if depth > maxdepth + 10:
        raise NoInstance
    if s is True or s == {}:
        return _rand_any(rng)
    if s is False or not isinstance(s, dict):
        raise NoInstance
    if "$ref" in s:
        r = s["$ref"]
        if not isinstance(r, str) or r[8:] not in defs:
            raise NoInstance
        return gen_instance(defs, defs[r[8:]], rng, depth, maxdepth)
    if "const" in s:
        return copy.deepcopy(s["const"])
    if isinstance(s.get("enum"), list) and s["enum"]:
        return copy.deepcopy(rng.choice(s["enum"]))
    for k in ("oneOf", "anyOf"):
        if isinstance(s.get(k), list) and s[k]:
            branches = list(s[k])
            rng.shuffle(branches)
            for b in branches:
                try:
                    return gen_instance(defs, b, rng, depth + 1, maxdepth)
                except NoInstance:
                    continue
            raise NoInstance
    if isinstance(s.get("allOf"), list) and s["allOf"]:
        return gen_instance(defs, s["allOf"][0], rng, depth + 1, maxdepth)
    t = s.get("type")
    if isinstance(t, list) and t:
        t = rng.choice(t)
    if t is None:
        if "properties" in s or "required" in s:
            t = "object"
        elif "items" in s or "prefixItems" in s:
            t = "array"
        else:
            return _rand_any(rng)
    deep = depth >= maxdepth
    if t == "object":
        props = s.get("properties") if isinstance(s.get("properties"), dict) else {}
        req = [n for n in s.get("required", []) if isinstance(n, str)] if isinstance(s.get("required"), list) else []
        out = {}
        for name, sub in props.items():
            if name in req or (not deep and rng.random() < 0.5):
                try:
                    out[name] = gen_instance(defs, sub, rng, depth + 1, maxdepth)
                except NoInstance:
                    if name in req:
                        raise
        for name in req:
            if name not in props:
                out[name] = _rand_any(rng)
        ap = s.get("additionalProperties", True)
        if ap is not False and not deep and rng.random() < 0.25:
            try:
                out["x" + str(rng.randint(0, 9))] = gen_instance(defs, ap, rng, depth + 1, maxdepth)
            except NoInstance:
                pass
        return out
    if t == "array":
        pre = s.get("prefixItems") if isinstance(s.get("prefixItems"), list) else []
        items = s.get("items", True)
        lo = s.get("minItems", 0) if _is_int(s.get("minItems", 0)) else 0
        hi = s.get("maxItems") if _is_int(s.get("maxItems")) else max(lo, len(pre)) + 2
        n = lo if deep else rng.randint(lo, max(lo, min(hi, max(lo, len(pre)) + 2)))
        out = []
        for i in range(int(n)):
            out.append(gen_instance(defs, pre[i] if i < len(pre) else items, rng, depth + 1, maxdepth))
        if s.get("uniqueItems") is True:
            seen, ded = set(), []
            for x in out:
                c = canon(x)
                if c not in seen:
                    seen.add(c)
                    ded.append(x)
            out = ded
        return out
    if t == "string":
        return rng.choice(SEMVERS) if "pattern" in s else rng.choice(STRS)
    if t == "integer":
        return rng.choice([0, 1, 2, 5, -1, 2**40, 3.0])
    if t == "number":
        return rng.choice([0, 1, 2.5, -1.25, 3.0])
    if t == "boolean":
        return rng.random() < 0.5
    if t == "null":
        return None
    return _rand_any(rng)


def paths(doc, pre=()):
    yield pre
    if isinstance(doc, dict):
        for k, v in doc.items():
            yield from paths(v, pre + (k,))
    elif isinstance(doc, list):
        for i, v in enumerate(doc):
            yield from paths(v, pre + (i,))


def _get(doc, path):
    for p in path:
        doc = doc[p]
    return doc


def _set(doc, path, val):
    if not path:
        return val
    doc = copy.deepcopy(doc)
    parent = _get(doc, path[:-1])
    parent[path[-1]] = val
    return doc


def _delete(doc, path):
    doc = copy.deepcopy(doc)
    parent = _get(doc, path[:-1])
    del parent[path[-1]]
    return doc


def _consts(defs) -> list:
    out = set()

    def walk(s):
        if isinstance(s, dict):
            if isinstance(s.get("const"), str):
                out.add(s["const"])
            for v in s.values():
                walk(v)
        elif isinstance(s, list):
            for v in s:
                walk(v)

    walk(defs)
    return sorted(out)


def mutate(doc, rng, consts):
    """One random structural mutation."""
    ps = list(paths(doc))
    path = rng.choice(ps)
    here = _get(doc, path)
    ops = ["retype"]
    if path:
        ops.append("delete")
    if isinstance(here, dict):
        ops += ["addkey", "addkey"]
    if isinstance(here, list):
        ops += ["append", "dup"] if here else ["append"]
    if isinstance(here, str) and consts:
        ops += ["tag", "tag"]
    if isinstance(here, int) and not isinstance(here, bool):
        ops.append("str")
    op = rng.choice(ops)
    if op == "delete":
        return _delete(doc, path)
    if op == "addkey":
        new = dict(here)
        new[rng.choice(["zz_extra", "parent", "op", "t", "v", "extensions"])] = _rand_any(rng)
        return _set(doc, path, new)
    if op == "append":
        return _set(doc, path, list(here) + [_rand_any(rng)])
    if op == "dup":
        return _set(doc, path, list(here) + [copy.deepcopy(rng.choice(here))])
    if op == "tag":
        return _set(doc, path, rng.choice(consts))
    if op == "str":
        return _set(doc, path, str(here))
    return _set(doc, path, _rand_any(rng))



# synthetic schemas (exercise every modelled keyword, also in combinations the files do not use) ----

_DATA = [None, True, False, 0, 1, 1.0, 2, 2.5, "a", "b", "", [], [1], [1, 2], [1, 1], [{"a": 1, "b": 2}, {"b": 2, "a": 1}],
         {}, {"a": 1}, {"a": 1, "b": 2}, {"b": 2, "a": 1}, {"a": "x", "c": None}, [0, "a", True], "1.2.3", "01.2.3"]


def _rand_schema(rng, depth, refs):
    r = rng.random()
    if depth <= 0 or r < 0.2:
        c = rng.randint(0, 7)
        if c == 0:
            return rng.random() < 0.7
        if c == 1:
            return {}
        if c == 2 and refs:
            return {"$ref": "#/$defs/" + rng.choice(refs)}
        if c == 3:
            return {"const": copy.deepcopy(rng.choice(_DATA))}
        if c == 4:
            return {"enum": [copy.deepcopy(rng.choice(_DATA)) for _ in range(rng.randint(1, 3))]}
        if c == 5:
            return {"type": rng.sample(["null", "boolean", "integer", "number", "string", "array", "object"],
                                       rng.randint(1, 3))}
        return {"type": rng.choice(["null", "boolean", "integer", "number", "string", "array", "object"])}
    sub = lambda: _rand_schema(rng, depth - 1, refs)  # noqa: E731
    s = {}
    for _ in range(rng.randint(1, 3)):
        k = rng.choice(["object", "array", "anyOf", "oneOf", "allOf", "type", "annot", "ref", "const", "pattern",
                        "object", "array"])
        if k == "object":
            if rng.random() < 0.8:
                s["properties"] = {n: sub() for n in rng.sample(["a", "b", "c", "title"], rng.randint(0, 3))}
            if rng.random() < 0.6:
                s["required"] = rng.sample(["a", "b", "c", "d"], rng.randint(0, 2))
            if rng.random() < 0.6:
                s["additionalProperties"] = rng.choice([True, False, sub()])
        elif k == "array":
            if rng.random() < 0.5:
                s["prefixItems"] = [sub() for _ in range(rng.randint(0, 2))]
            if rng.random() < 0.6:
                s["items"] = sub()
            if rng.random() < 0.4:
                s["minItems"] = rng.randint(0, 2)
            if rng.random() < 0.4:
                s["maxItems"] = rng.randint(0, 3)
            if rng.random() < 0.4:
                s["uniqueItems"] = rng.random() < 0.8
        elif k in ("anyOf", "oneOf", "allOf"):
            s[k] = [sub() for _ in range(rng.randint(1, 3))]
        elif k == "type":
            s["type"] = rng.choice(["null", "boolean", "integer", "number", "string", "array", "object",
                                    ["integer", "null"], ["string", "array"]])
        elif k == "annot":
            s[rng.choice(["title", "description", "default", "discriminator"])] = copy.deepcopy(rng.choice(_DATA))
        elif k == "ref" and refs:
            s["$ref"] = "#/$defs/" + rng.choice(refs)
        elif k == "const":
            s["const"] = copy.deepcopy(rng.choice(_DATA))
        elif k == "pattern":
            s["pattern"] = SEMVER_PATTERN
    items = list(s.items())
    rng.shuffle(items)
    return dict(items)


def _keywords(s, acc=None):
    acc = set() if acc is None else acc
    if isinstance(s, dict):
        for k, v in s.items():
            acc.add(k)
            if k in SCHEMA_KW:
                _keywords(v, acc)
            elif k in SCHEMA_LIST_KW and isinstance(v, list):
                for x in v:
                    _keywords(x, acc)
            elif k in SCHEMA_MAP_KW and isinstance(v, dict):
                for x in v.values():
                    _keywords(x, acc)
    return acc


def _syn_specs(rng, n_schemas, docs_per):
    """Random acyclic `$defs` tables; per table a few data values, instances and mutated instances."""
    specs = []
    for _ in range(n_schemas):
        defs = {}
        for i in range(rng.randint(1, 3)):
            defs[f"d{i}"] = _rand_schema(rng, rng.randint(1, 3), list(defs))
        root = f"d{len(defs) - 1}"
        # `_keywords` expects a schema; walk the table as a `$defs` map
        docs = [copy.deepcopy(rng.choice(_DATA)) for _ in range(docs_per // 2)]
        for _ in range(docs_per - len(docs)):
            try:
                d = gen_instance(defs, defs[root], rng, maxdepth=3)
                if rng.random() < 0.5:
                    d = mutate(d, rng, ["a", "b"])
                docs.append(d)
            except Exception:  # noqa: BLE001
                docs.append(copy.deepcopy(rng.choice(_DATA)))
        for d in docs:
            specs.append({"kind": "syn", "defs": {"$defs": defs}["$defs"], "root": root, "doc": d})
    return specs


# real documents from the implementation -----------------------------------------------------------


def _builder_docs(rng, n) -> list[tuple[str, object]]:
    """(root, document) pairs from Hugr.to_json()/Package.to_json() of small random builder programs."""
    from hugr import ops, tys, val
    from hugr.build import Cfg, Dfg
    from hugr.build.cond_loop import Conditional
    from hugr.build.function import Module
    from hugr.package import Package
    from hugr.std.float import FLOAT_T, FloatVal
    from hugr.std.int import INT_T, DivMod, IntVal
    from hugr.std.logic import Not

    pool = [tys.Bool, tys.Qubit, INT_T, tys.Unit, tys.USize(), FLOAT_T, tys.Tuple(tys.Bool, INT_T),
            tys.Sum([[tys.Bool], [INT_T, tys.Qubit]]), tys.FunctionType([tys.Bool], [tys.Bool]),
            tys.Either([tys.Qubit], [tys.Qubit, INT_T]), tys.Option(tys.Bool),
            tys.Variable(0, tys.TypeBound.Copyable)]
    copy_pool = [tys.Bool, INT_T, tys.Unit, tys.USize(), FLOAT_T, tys.Tuple(tys.Bool, INT_T)]

    def vals():
        return rng.choice([
            val.TRUE, val.FALSE, IntVal(rng.randint(0, 100)), FloatVal(rng.choice([0.5, 2.0, -1.25])),
            val.Tuple(val.TRUE, IntVal(rng.randint(0, 9))),
            val.Sum(1, tys.Sum([[INT_T], [tys.Bool, INT_T]]), [val.TRUE, IntVal(34)]),
            val.Unit,
        ])

    def p_id():
        row = [rng.choice(pool) for _ in range(rng.randint(0, 4))]
        h = Dfg(*row)
        h.set_outputs(*h.inputs())
        return h.hugr

    def p_not():
        h = Dfg(tys.Bool)
        if rng.random() < 0.5:
            h.metadata["name"] = rng.choice(["f", "", "main"])
        (b,) = h.inputs()
        for _ in range(rng.randint(1, 4)):
            b = h.add_op(Not, b, metadata={"k": rng.randint(0, 3)} if rng.random() < 0.3 else None)
        h.set_outputs(b)
        return h.hugr

    def p_tuple():
        row = [rng.choice(copy_pool) for _ in range(rng.randint(1, 3))]
        h = Dfg(*row)
        t = h.add(ops.MakeTuple()(*h.inputs()))
        outs = h.add(ops.UnpackTuple()(t))
        h.set_outputs(*outs[: len(row)])
        return h.hugr

    def p_divmod():
        h = Dfg(INT_T, INT_T)
        a, b = h.inputs()
        a, b = h.add(DivMod(a, b))
        h.set_outputs(a, b)
        return h.hugr

    def p_nested():
        h = Dfg(tys.Bool, tys.Bool)
        a, b = h.inputs()
        with h.add_nested(a) as nested:
            (a1,) = nested.inputs()
            x = nested.add(Not(a1))
            if rng.random() < 0.5:
                x = nested.add(Not(b))
            nested.set_outputs(x)
        h.set_outputs(nested, b)
        return h.hugr

    def p_const():
        d = Dfg()
        outs = [d.load(vals()) for _ in range(rng.randint(1, 3))]
        if rng.random() < 0.3:
            inner = Dfg(tys.Qubit)
            inner.set_outputs(*inner.inputs())
            outs.append(d.load(val.Function(inner.hugr)))
        d.set_outputs(*outs)
        return d.hugr

    def p_module():
        mod = Module()
        f_id = mod.define_function("id", [tys.Qubit])
        f_id.set_outputs(f_id.input_node[0])
        if rng.random() < 0.5:
            mod.declare_function("poly", tys.PolyFuncType(
                [tys.TypeTypeParam(tys.TypeBound.Any)],
                tys.FunctionType.endo([tys.Variable(0, tys.TypeBound.Any)])))
        if rng.random() < 0.5:
            mod.add_alias_defn("my_int", INT_T)
            mod.add_alias_decl("my_bool", tys.TypeBound.Copyable)
        f_main = mod.define_main([tys.Qubit])
        q = f_main.input_node[0]
        if rng.random() < 0.5:
            call = f_main.call(f_id, q)
        else:
            load = f_main.load_function(f_id)
            call = f_main.add(ops.CallIndirect()(load, q))
        if rng.random() < 0.3:
            f_main.add_state_order(call, f_main.output_node)
        f_main.set_outputs(call)
        return mod.hugr

    def p_cfg():
        cfg = Cfg(tys.Bool, INT_T)
        entry = cfg.add_entry()
        entry.set_block_outputs(*entry.inputs())
        m1 = cfg.add_successor(entry[0])
        m1.set_single_succ_outputs(*m1.inputs())
        m2 = cfg.add_successor(entry[1])
        (i,) = m2.inputs()
        n = m2.add(DivMod(i, i))
        m2.set_single_succ_outputs(n[0])
        cfg.branch_exit(m1[0])
        cfg.branch_exit(m2[0])
        return cfg.hugr

    def p_cond():
        either = tys.Either([tys.Qubit], [tys.Qubit, INT_T])
        h = Conditional(either, [tys.Bool])
        with h.add_case(0) as c0:
            q, b = c0.inputs()
            c0.set_outputs(q, b)
        with h.add_case(1) as c1:
            q, _i, b = c1.inputs()
            c1.set_outputs(q, b)
        return h.hugr

    def p_loop():
        either = tys.Either([tys.Qubit], [tys.Qubit, INT_T])
        h = Dfg(tys.Qubit)
        (q,) = h.inputs()
        with h.add_tail_loop([q], [h.load(val.TRUE)]) as tl:
            q, b = tl.inputs()
            with tl.add_if(b, q) as if_:
                (q,) = if_.inputs()
                if_.set_outputs(if_.add(ops.Continue(either)(q)))
            with if_.add_else() as else_:
                (q,) = else_.inputs()
                else_.set_outputs(else_.add(ops.Break(either)(q, else_.load(IntVal(1)))))
            tl.set_loop_outputs(else_.conditional_node, b)
        h.set_outputs(*tl[:3])
        return h.hugr

    progs = [p_id, p_not, p_tuple, p_divmod, p_nested, p_const, p_module, p_cfg, p_cond, p_loop]
    out = []
    failed = 0
    for i in range(n):
        prog = progs[i % len(progs)]
        try:
            hugr = prog()
            if rng.random() < 0.15:
                out.append(("Package", json.loads(Package([hugr]).to_json())))
            else:
                out.append(("SerialHugr", json.loads(hugr.to_json())))
        except Exception as e:  # noqa: BLE001
            failed += 1
            if failed <= 3:
                log(f"[C17] builder program {prog.__name__} failed: {e!r}")
    return out


def _extension_docs() -> list[tuple[str, object]]:
    d = SRC / "hugr" / "std" / "_json_defs"
    return [("Extension", json.loads(f.read_text())) for f in sorted(d.rglob("*.json"))]


# ----------------------------------------------------------------------------- jsonschema (python3-vt)

_JS_SCRIPT = r"""
import json, sys
from jsonschema import Draft202012Validator
req = json.load(sys.stdin)
vals = {}
out = []
for cfg, root, doc in req["cases"]:
    if isinstance(cfg, dict):  # synthetic: the $defs table itself
        v = Draft202012Validator({"$ref": "#/$defs/" + root, "$defs": cfg}) if root in cfg else None
    else:
        key = (cfg, root)
        if key not in vals:
            defs = req["defs"][cfg]
            vals[key] = Draft202012Validator({"$ref": "#/$defs/" + root, "$defs": defs}) if root in defs else None
        v = vals[key]
    try:
        out.append(None if v is None else bool(v.is_valid(doc)))
    except Exception as e:
        out.append("error: " + repr(e)[:200])
json.dump(out, sys.stdout)
"""

_js_cache: dict[str, object] = {}


def _key(spec) -> str:
    # (not sort_keys: member order is part of a synthetic case)
    return hashlib.sha1(json.dumps([_table(spec), spec["root"], spec["doc"]]).encode()).hexdigest()


def _table(spec):
    """Name of the published file's configuration, or the synthetic `$defs` table itself."""
    return spec["defs"] if spec.get("kind") == "syn" else spec["cfg"]


def _js_batch(specs):
    todo = [s for s in specs if s.get("kind") in ("doc", "syn") and _key(s) not in _js_cache]
    if not todo:
        return
    cfgs, _ = configurations()
    defs = {c["name"]: c["pub"].get("$defs", {}) for c in cfgs}
    req = {"defs": defs, "cases": [[_table(s), s["root"], s["doc"]] for s in todo]}
    try:
        p = subprocess.run([VT_PY, "-c", _JS_SCRIPT], input=json.dumps(req), capture_output=True,
                           text=True, timeout=3000)
    except (OSError, subprocess.TimeoutExpired) as e:
        raise InfraError(f"jsonschema subprocess: {e}") from e
    if p.returncode != 0:
        raise InfraError("jsonschema subprocess failed: " + p.stderr[-1500:])
    res = json.loads(p.stdout)
    for s, r in zip(todo, res):
        _js_cache[_key(s)] = r


# ----------------------------------------------------------------------------- check API


def _cfg(name):
    cfgs, _ = configurations()
    for c in cfgs:
        if c["name"] == name:
            return c
    return None


def _doc_specs(rng, cfg_names, n_builder, n_schema, n_mut):
    cfgs = {c["name"]: c for c in configurations()[0]}
    cfg_names = [n for n in cfg_names if n in cfgs]
    specs = []
    if not cfg_names:
        return specs
    base: list[tuple[str, str, object]] = []
    hugr_cfgs = [n for n in cfg_names if "SerialHugr" in cfgs[n]["pub"].get("$defs", {})] or cfg_names
    for root, doc in _builder_docs(rng, n_builder):
        base.append((rng.choice(hugr_cfgs), root, doc))
    for root, doc in _extension_docs():
        base.append((rng.choice(cfg_names), root, doc))
    # schema-directed instances: every definition of every configuration in turn
    order = [(n, d) for n in cfg_names for d in sorted(cfgs[n]["pub"].get("$defs", {}))]
    rng.shuffle(order)
    for i in range(n_schema):
        name, d = order[i % len(order)] if order else (None, None)
        if name is None:
            break
        defs = cfgs[name]["pub"]["$defs"]
        try:
            base.append((name, d, gen_instance(defs, defs[d], rng, maxdepth=rng.randint(2, 5))))
        except (NoInstance, RecursionError):
            continue
    for name, root, doc in base:
        specs.append({"kind": "doc", "cfg": name, "root": root, "doc": doc, "origin": "base"})
    consts = {n: _consts(cfgs[n]["pub"].get("$defs", {})) for n in cfg_names}
    for i in range(n_mut):
        name, root, doc = base[i % len(base)]
        m = doc
        try:
            for _ in range(rng.randint(1, 3)):
                m = mutate(m, rng, consts[name])
        except Exception:  # noqa: BLE001
            continue
        specs.append({"kind": "doc", "cfg": name, "root": root, "doc": m, "origin": "mutant"})
    return specs


def cases(rng, tier):
    names = [c["name"] for c in configurations()[0]]
    quick_names = [n for n in names if not n.startswith("testing")] or names
    if tier == "quick":
        specs = _doc_specs(rng, quick_names, 40, 110, 150) + _syn_specs(rng, 60, 4)
    elif tier == "thorough":
        specs = _doc_specs(rng, names, 300, 1200, 2000) + _syn_specs(rng, 500, 4)
    else:  # search: oracle only
        return [{"kind": "order"}, {"kind": "aliases"}, {"kind": "enums"}, {"kind": "validators"}] + _doc_specs(rng, names, 60, 500, 900)
    _js_batch(specs)
    return [{"kind": "order"}, {"kind": "aliases"}, {"kind": "enums"}, {"kind": "validators"}] + specs


def run_impl(spec) -> str:
    """Verdict of the published schema file on the document, by the jsonschema package."""
    if spec.get("kind") not in ("doc", "syn"):
        return json.dumps(_describe(spec), sort_keys=True)
    if _key(spec) not in _js_cache:
        _js_batch([spec])
    r = _js_cache[_key(spec)]
    if r is None:
        return "!no-such-root"
    if isinstance(r, str):
        return r
    return "true" if r else "false"


def payload(spec):
    if spec.get("kind") == "syn":
        return "schema.eval", dumps([doc_sexp(spec["defs"]), spec["root"], doc_sexp(spec["doc"])])
    if spec.get("kind") != "doc":
        return None
    return "schema.accepts", dumps([spec["cfg"], "pub", spec["root"], doc_sexp(spec["doc"])])


def doc_sexp(j):
    if j is None:
        return A("null")
    if isinstance(j, bool):
        return A("true" if j else "false")
    if isinstance(j, int):
        return A(str(j))
    if isinstance(j, float):
        if j.is_integer():
            return A(str(int(j)))
        return [A("num"), repr(j)]
    if isinstance(j, str):
        return j
    if isinstance(j, list):
        return [A("arr"), *[doc_sexp(x) for x in j]]
    return [A("obj"), *[[k, doc_sexp(v)] for k, v in j.items()]]


def compare(spec, impl_obs, model_obs) -> bool:
    """Lean eval == jsonschema == Python evaluator (all on the published schema)."""
    if spec.get("kind") == "syn":
        defs = spec["defs"]
    else:
        c = _cfg(spec["cfg"])
        if c is None:
            return False
        defs = c["pub"].get("$defs", {})
    py = _verdict(ev(defs, {"$ref": "#/$defs/" + spec["root"]}, spec["doc"]))
    return model_obs == impl_obs and model_obs == py


def _describe(spec):
    return {k: v for k, v in spec.items() if k != "origin"}


def oracle(spec) -> list[Failure]:
    kind = spec.get("kind")
    if kind == "doc":
        c = _cfg(spec["cfg"])
        if c is None:
            return []
        pd, gd = c["pub"].get("$defs", {}), c["gen"].get("$defs", {})
        ref = {"$ref": "#/$defs/" + spec["root"]}
        v1, v2 = ev(pd, ref, spec["doc"]), ev(gd, ref, spec["doc"])
        if v1 != v2:
            return [Failure(f"schema:{spec['cfg']}:{spec['root']}", "published-vs-generated-differ",
                            f"published file {c['pub_file']} says {_verdict(v1)}, the schema generated from the "
                            f"current models says {_verdict(v2)}")]
        return []
    if kind == "diff":
        c = _cfg(spec["cfg"])
        if c is None:
            return []
        d = first_difference(normalize(c["pub"]), normalize(c["gen"]))
        if d is not None:
            return [Failure(f"schema:{spec['cfg']}:{spec.get('def', '')}", "published-vs-generated-differ-no-document",
                            f"at {d[0]}: published {json.dumps(d[1])[:200]} vs generated {json.dumps(d[2])[:200]}")]
        return []
    if kind == "files":
        f = _files_failure()
        return [f] if f else []
    if kind == "aliases":
        return _alias_failures()
    if kind == "enums":
        return _enum_failures()
    if kind == "validators":
        return _validator_failures()
    if kind == "order":
        r = reordered()
        if "error" in r:
            return [Failure("model_rebuild", "rebuild-in-another-order-raises", r["error"][-300:])]
        g = generated()["files"]
        for name in sorted(g):
            if name not in r["files"]:
                return [Failure("model_rebuild", "schema-depends-on-rebuild-order", f"{name} not written")]
            d = first_difference(normalize(g[name]), normalize(r["files"][name]))
            if d is not None:
                return [Failure("model_rebuild", "schema-depends-on-rebuild-order",
                                f"{name} at {d[0]}: {json.dumps(d[1])[:160]} (generator script order) vs "
                                f"{json.dumps(d[2])[:160]} (each root configured after the other one)")]
        for key, doc in sorted(r.get("interleaved", {}).items()):
            name = key.split("/", 1)[1]
            if name not in g:
                continue
            d = first_difference(normalize(g[name]), normalize(doc))
            if d is not None:
                return [Failure("model_rebuild", "schema-depends-on-rebuild-order",
                                f"{name} at {d[0]}: {json.dumps(d[1])[:160]} (generator script order) vs "
                                f"{json.dumps(d[2])[:160]} (configured, the other root configured otherwise, configured again)")]
        return []
    return []


def _alias_failures():
    """Same fields: the member names the decoder reads for a model field (field name, alias, every choice of a
    validation alias) are exactly the property the schema generated from that model shows for it."""
    import importlib
    import inspect

    import pydantic

    fails = []
    seen = set()
    for m in ("tys", "ops", "serial_hugr", "extension", "testing_hugr"):
        mod = importlib.import_module("hugr._serialization." + m)
        for _, c in inspect.getmembers(mod, inspect.isclass):
            if not (issubclass(c, pydantic.BaseModel) and c.__module__.startswith("hugr._serialization")) or c in seen:
                continue
            seen.add(c)
            if issubclass(c, pydantic.RootModel):
                continue
            try:
                sch = c.model_json_schema(mode="validation")
                if "properties" not in sch and "$ref" in sch:  # recursive models are emitted as a reference
                    sch = sch.get("$defs", {}).get(sch["$ref"].rsplit("/", 1)[-1], {})
                if "properties" not in sch:
                    continue
                props = set(sch["properties"])
            except Exception:  # noqa: BLE001
                continue
            for fname, f in c.model_fields.items():
                va = f.validation_alias
                if va is None:
                    keys = {f.alias or fname}
                elif isinstance(va, str):
                    keys = {va}
                elif isinstance(va, pydantic.AliasChoices):
                    keys = {ch if isinstance(ch, str) else str(ch.path[0]) for ch in va.choices}
                else:  # AliasPath
                    keys = {str(va.path[0])}
                if c.model_config.get("populate_by_name") or c.model_config.get("validate_by_name"):
                    keys.add(fname)
                shown = keys & props
                if len(shown) != 1 or keys - props:
                    fails.append(Failure(f"{c.__module__.split('.')[-1]}.{c.__name__}.{fname}", "decoder-reads-members-the-schema-does-not-define",
                                         f"decoder reads {sorted(keys)}, schema properties {sorted(keys & props)}"))
    return fails[:3]


def _enum_failures():
    """Same enumerations: the values the decoder takes for a field of an enumeration type are exactly the values the
    published schema lists for it.  An `Enum` is decoded by value lookup with no coercion, so the comparison is
    exact on every probe: all one-character strings of printable ASCII, near misses of every listed value and of
    every member name (case, doubling, padding), and a few non-strings."""
    import enum
    import importlib
    import inspect

    import pydantic

    fails = []
    seen = set()
    cfgs = configurations()[0]
    for m in ("tys", "ops", "serial_hugr", "extension", "testing_hugr"):
        mod = importlib.import_module("hugr._serialization." + m)
        for name, c in inspect.getmembers(mod, inspect.isclass):
            if not (issubclass(c, enum.Enum) and c.__module__.startswith("hugr._serialization")) or c in seen:
                continue
            seen.add(c)
            listed = None
            for cfg in cfgs:
                d = cfg["pub"].get("$defs", {}).get(name)
                if isinstance(d, dict) and "enum" in d:
                    if listed is not None and listed != d["enum"]:
                        fails.append(Failure(f"schema:{cfg['name']}:{name}", "enumeration-differs-between-files", f"{listed} vs {d['enum']}"))
                    listed = d["enum"]
            if listed is None:
                continue
            probes = [chr(k) for k in range(32, 127)] + [0, 1, None, True, [], {}]
            for v in list(listed) + [x.name for x in c]:
                if isinstance(v, str):
                    probes += [v, v.lower(), v.upper(), v.capitalize(), v + v, " " + v, v + " ", v[:-1], v + "_"]
                probes += [[v], {"value": v}]
            ta = pydantic.TypeAdapter(c)
            for strict in (False, True):
                for pr in probes:
                    try:
                        ta.validate_json(json.dumps(pr), strict=strict)
                        took = True
                    except Exception:  # noqa: BLE001
                        took = False
                    if took != any(eqv(pr, v) for v in listed):
                        fails.append(Failure(f"{c.__module__.split('.')[-1]}.{name}", "decoder-and-schema-disagree-on-enumeration-value",
                                             f"{'strict' if strict else 'lax'} decoder {'takes' if took else 'refuses'} "
                                             f"{json.dumps(pr)}; the published schema lists {json.dumps(listed)}"))
                        return fails
    return fails[:3]


def _validator_failures():
    """Same types: a serialization model that carries validation CODE (a pydantic field / model validator) can refuse
    values its JSON schema admits — the generated schema cannot show such code, so a structural comparison of the files
    is blind to it (seeded change C17-16).  The unchanged models declare none.  For every model that does, instances of
    its published definition are generated, each field the code covers is set to boundary values OF THE TYPE THE
    SCHEMA DECLARES for it (no coercion is involved: an integer for an integer field, a string for a string field),
    and the decoder's verdict is compared with the published schema's.  Only a concrete distinguishing document is a
    failure: a validator that changes no verdict is harmless."""
    import importlib
    import inspect

    import pydantic

    fails = []
    cfgs = configurations()[0]
    pd = next((c["pub"].get("$defs", {}) for c in cfgs if c["name"].endswith("testing_hugr_schema_strict")), None) \
        or next((c["pub"].get("$defs", {}) for c in cfgs), {})
    BOUND = {"integer": [0, 1, -1, 7, 2**31, 2**63 - 1, 2**63, 2**64 - 1, 2**64, 2**200, -(2**63) - 1],
             "string": ["", " ", "x", " x ", "\u00e9", "a" * 300, "A.b-c_d", "0"],
             "boolean": [True, False], "number": [0, -1, 1.5, 1e300]}
    rng = random.Random(17)
    seen = set()
    for m in ("tys", "ops", "serial_hugr", "extension", "testing_hugr"):
        mod = importlib.import_module("hugr._serialization." + m)
        for name, c in inspect.getmembers(mod, inspect.isclass):
            if not (issubclass(c, pydantic.BaseModel) and c.__module__.startswith("hugr._serialization")) or c in seen:
                continue
            seen.add(c)
            d = c.__pydantic_decorators__
            fields = set()
            for dec in list(d.field_validators.values()) + list(getattr(d, "validators", {}).values()):
                fields |= set(getattr(dec.info, "fields", ()) or ())
            if d.model_validators or getattr(d, "root_validators", None) or "*" in fields:
                fields = set(c.model_fields)
            if not fields or name not in pd:
                continue
            props = pd[name].get("properties", {})
            for _ in range(12):
                try:
                    base = gen_instance(pd, pd[name], rng, maxdepth=2)
                except (NoInstance, RecursionError):
                    continue
                if not isinstance(base, dict) or ev(pd, {"$ref": "#/$defs/" + name}, base) is not True:
                    continue
                for f in sorted(fields):
                    alias = c.model_fields[f].alias or f if f in c.model_fields else f
                    ps = props.get(alias)
                    if not isinstance(ps, dict):
                        continue
                    for v in BOUND.get(ps.get("type"), []):
                        doc = {**base, alias: v}
                        want = ev(pd, {"$ref": "#/$defs/" + name}, doc)
                        if want is None:
                            continue
                        for strict in (False, True):
                            try:
                                c.model_validate_json(json.dumps(doc), strict=strict)
                                took = True
                            except Exception:  # noqa: BLE001
                                took = False
                            if took != want:
                                return [Failure(f"{m}.{name}.{f}", "decoder-and-schema-disagree-on-a-validated-field",
                                                f"{'strict' if strict else 'lax'} decoder {'takes' if took else 'refuses'} "
                                                f"{json.dumps(doc)[:300]}; the published schema {'accepts' if want else 'rejects'} it")]
    return fails


def _files_failure():
    try:
        cfgs, probs = configurations()
        g = generated()
    except Exception as e:  # noqa: BLE001
        return Failure("schema:files", "generator-fails", repr(e)[:300])
    ver = g["versions"]
    bad: list = []
    pubs, gens = sorted(published(bad=bad)), sorted(g["files"])
    if bad:
        return Failure("schema:files", "published-file-not-json", f"{bad} cannot be parsed")
    if len(set(ver.values())) != 1 or pubs != gens:
        return Failure("schema:files", "version-or-file-name-differs",
                       f"versions {ver}; published files {pubs}; generator writes {gens}")
    return None


def nontrivial(spec, obs) -> bool:
    if spec.get("kind") == "syn":
        return obs in ("true", "false")
    return spec.get("kind") == "doc" and isinstance(spec["doc"], (dict, list)) and len(spec["doc"]) > 0 \
        and obs in ("true", "false")


def stats(spec, obs, counters):
    if spec.get("kind") == "syn":
        counters[f"synthetic-schema:{obs}"] += 1
        for k in _keywords({"$defs": spec["defs"]}) - {"$defs"}:
            counters["synthetic-kw:" + k] += 1
        return
    if spec.get("kind") != "doc":
        counters["non-document"] += 1
        return
    counters[f"verdict:{obs}"] += 1
    counters[f"file:{spec['cfg']}"] += 1
    counters[f"origin:{spec.get('origin', 'replay')}"] += 1
    r = spec["root"]
    counters["root:" + (r if r in ("SerialHugr", "TestingHugr", "Extension", "Package") else "other-def")] += 1


def exhaustive(tier) -> bool:
    return False


def shrink(spec, pred):
    if spec.get("kind") not in ("doc", "syn"):
        return spec
    doc = spec["doc"]

    def ok(d):
        try:
            return pred({**spec, "doc": d})
        except Exception:  # noqa: BLE001
            return False

    return {**spec, "doc": _shrink_doc(doc, ok)}


def _shrink_doc(doc, ok):
    changed = True
    rounds = 0
    while changed and rounds < 50:
        changed = False
        rounds += 1
        for path in sorted(paths(doc), key=len):
            if not path:
                continue
            try:
                cand = _delete(doc, path)
            except (KeyError, IndexError, TypeError):
                continue
            if ok(cand):
                doc = cand
                changed = True
                break
        if changed:
            continue
        for path in sorted(paths(doc), key=len):
            here = _get(doc, path)
            for simple in ([], {}, 0, ""):
                if type(here) is type(simple) and here != simple and isinstance(here, (list, dict, str)):
                    cand = _set(doc, path, simple)
                    if ok(cand):
                        doc = cand
                        changed = True
                        break
            if changed:
                break
    return doc


# ----------------------------------------------------------------------------- search after a failed equality


def first_difference(a, b, path=""):
    """(json-pointer, a-part, b-part) of the first difference (objects unordered)."""
    if isinstance(a, dict) and isinstance(b, dict):
        for k in sorted(set(a) | set(b)):
            if k not in a:
                return (f"{path}/{k}", "<absent>", b[k])
            if k not in b:
                return (f"{path}/{k}", a[k], "<absent>")
            d = first_difference(a[k], b[k], f"{path}/{k}")
            if d:
                return d
        return None
    if isinstance(a, list) and isinstance(b, list):
        if len(a) != len(b):
            return (path, a, b)
        for i, (x, y) in enumerate(zip(a, b)):
            d = first_difference(x, y, f"{path}/{i}")
            if d:
                return d
        return None
    return None if canon(a) == canon(b) and type(a) is type(b) else (path, a, b)


def distinguishing_document(pd, gd, name, seed=0, budget=400, seconds=10.0):
    """A document on which `$defs/name` of the published and of the generated table give different
    verdicts (schema-directed generation from both, then systematic single mutations)."""
    rng = random.Random(seed)
    ref = {"$ref": "#/$defs/" + name}
    consts = sorted(set(_consts(pd)) | set(_consts(gd)))
    deadline = time.time() + seconds

    def differs(doc):
        v1, v2 = ev(pd, ref, doc), ev(gd, ref, doc)
        return v1 is not None and v2 is not None and v1 != v2

    bases = []
    for defs in (pd, gd):
        if name not in defs:
            continue
        for i in range(budget // 10):
            try:
                bases.append(gen_instance(defs, defs[name], rng, maxdepth=1 + i % 4))
            except (NoInstance, RecursionError):
                continue
    best = None

    def consider(doc):
        nonlocal best
        if differs(doc):
            size = len(json.dumps(doc))
            if best is None or size < best[0]:
                best = (size, doc)

    for doc in SIMPLE:
        consider(doc)
    bases.sort(key=lambda d: len(json.dumps(d)))
    tried = 0
    for doc in bases:
        consider(doc)
        if (best is not None and tried > budget) or time.time() > deadline:
            break
        for path in list(paths(doc))[:60]:
            tried += 1
            if path:
                consider(_delete(doc, path))
            here = _get(doc, path)
            for sv in SIMPLE:
                consider(_set(doc, path, copy.deepcopy(sv)))
            if isinstance(here, dict):
                new = dict(here)
                new["zz_extra"] = 0
                consider(_set(doc, path, new))
            if isinstance(here, list):
                consider(_set(doc, path, list(here) + [0]))
                if here:
                    consider(_set(doc, path, list(here) + [copy.deepcopy(here[0])]))
            if isinstance(here, str):
                for c in consts[:80]:
                    consider(_set(doc, path, c))
        if best is not None:
            break
    if best is None:
        for _ in range(budget):
            if not bases or time.time() > deadline + seconds / 4:
                break
            doc = rng.choice(bases)
            try:
                for _ in range(rng.randint(1, 3)):
                    doc = mutate(doc, rng, consts)
            except Exception:  # noqa: BLE001
                continue
            consider(doc)
    if best is None:
        return None
    return _shrink_doc(best[1], differs)


def obligation_search(build_err, problems):
    f = _files_failure()
    if f is not None and f.cls == "generator-fails":
        return None
    try:
        cfgs, _ = configurations()
    except Exception:  # noqa: BLE001
        return None
    fallback = None
    t_end = time.time() + 45
    for c in cfgs:
        pd, gd = c["pub"].get("$defs", {}), c["gen"].get("$defs", {})
        np_, ng = normalize(c["pub"]), normalize(c["gen"])
        for name in sorted(set(pd) | set(gd)):
            a, b = np_.get("$defs", {}).get(name), ng.get("$defs", {}).get(name)
            if a is not None and b is not None and first_difference(a, b) is None:
                continue
            doc = None
            if time.time() > t_end:
                pass
            elif a is not None and b is not None:
                if first_difference(strip_annotations(pd[name]), strip_annotations(gd[name])) is not None:
                    doc = distinguishing_document(pd, gd, name)
            else:
                # a definition exists on one side only: look at the definitions that refer to it
                for user in sorted(set(pd) & set(gd)):
                    if f'"#/$defs/{name}"' in json.dumps(pd[user]) + json.dumps(gd[user]):
                        doc = distinguishing_document(pd, gd, user)
                        if doc is not None:
                            name = user
                            break
            if doc is not None:
                spec = {"kind": "doc", "cfg": c["name"], "root": name, "doc": doc}
                fs = oracle(spec)
                if fs:
                    return {"spec": spec, "site": fs[0].site, "cls": fs[0].cls, "detail": fs[0].detail}
            if fallback is None:
                d = first_difference(a if a is not None else "<absent>", b if b is not None else "<absent>",
                                     f"/$defs/{name}")
                fallback = {"kind": "diff", "cfg": c["name"], "def": name, "path": d[0] if d else "",
                            "published": d[1] if d else None, "generated": d[2] if d else None}
        if fallback is None:
            d = first_difference({k: v for k, v in np_.items() if k != "$defs"},
                                 {k: v for k, v in ng.items() if k != "$defs"})
            if d:
                fallback = {"kind": "diff", "cfg": c["name"], "def": "", "path": d[0], "published": d[1],
                            "generated": d[2]}
    if fallback is not None:
        fs = oracle(fallback)
        if fs:
            return {"spec": fallback, "site": fs[0].site, "cls": fs[0].cls, "detail": fs[0].detail}
    if f is not None:
        return {"spec": {"kind": "files", "what": f.detail}, "site": f.site, "cls": f.cls, "detail": f.detail}
    return None
