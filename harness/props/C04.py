"""C04 — the HUGR graph store agrees with a sequential port-multigraph model."""
from __future__ import annotations

import collections
import itertools

from core import Failure, ddmin
from sexp import A, dumps

PROP = "C04"
LEAN_TARGETS = ["HugrVerif.Props.C04"]
DRIVE_TARGETS = ["HugrVerif.Drive.Store"]
RULE = (
    "histories of add_node / add_const / add_link / add_order_link / delete_link / delete_node (leaf) / "
    "insert_hugr over <= 12 nodes with port offsets from {-1,0,1,2,5}, biased to repeated, multi-target and "
    "order ports, ~25% deletions, index reuse, insertion of a second generated store (with holes); after "
    "every mutator all enumerated queries are compared (model: exact sequences; oracle: multisets against an "
    "independent reference multigraph). Thorough: additionally every continuation of length <= 3 over 3 nodes x "
    "offsets {-1,0,1} after fixed warm-up prefixes. Non-trivial = the history has a deletion or an insert_hugr "
    "and at least 2 links; distinct by full spec."
)
TRUSTED = [
    "Python list/dict semantics of the store's containers (Py.Dict); Node equality by index only",
]
ASSUMPTIONS = [
    "histories end at the first raising call (the statement does not promise exception safety, DESIGN F25)",
    "delete_node only on leaf nodes (the statement's quantifier)",
    "num_incoming/num_outgoing are not among the enumerated queries (DESIGN F27)",
]

OFFS = [-1, 0, 1, 2, 5]

# ----------------------------------------------------------------------------- reference multigraph (oracle)


class Ref:
    """Plain sequential hierarchical port multigraph."""

    def __init__(self):
        self.nodes = {}  # idx -> dict(label, parent, children(list), req_out, meta)
        self.links = []  # list of ((src, soff), (dst, doff))

    def add_node(self, idx, label, parent, num_outs, meta):
        self.nodes[idx] = dict(label=label, parent=parent, children=[], req_out=num_outs or 0, meta=meta)
        if parent is not None:
            self.nodes[parent]["children"].append(idx)

    def add_link(self, s, so, d, do):
        self.links.append(((s, so), (d, do)))

    def add_order_link(self, s, d):
        if ((s, -1), (d, -1)) not in self.links:
            self.links.append(((s, -1), (d, -1)))

    def delete_link(self, s, so, d, do):
        l = ((s, so), (d, do))
        if l in self.links:
            self.links.remove(l)

    def delete_node(self, idx):
        p = self.nodes[idx]["parent"]
        if p is not None:
            self.nodes[p]["children"].remove(idx)
        del self.nodes[idx]
        self.links = [l for l in self.links if l[0][0] != idx and l[1][0] != idx]

    def peers_out(self, n, off):
        return [d for s, d in self.links if s == (n, off)]

    def peers_in(self, n, off):
        return [s for s, d in self.links if d == (n, off)]

    def max_off(self, n, out):
        offs = [(s if out else d)[1] for s, d in self.links if (s if out else d)[0] == n]
        return max(offs, default=-1)


# ----------------------------------------------------------------------------- running the implementation


def _mk_op(label, nports=0):
    from hugr import ops, tys

    if nports:
        sig = tys.FunctionType([tys.Bool] * nports, [tys.Bool] * nports)
        return ops.Custom(f"n{label}", signature=sig, extension="verif")
    return ops.Custom(f"n{label}", extension="verif")


def _label(op):
    from hugr import ops

    if isinstance(op, ops.Custom):
        return op.op_name
    if isinstance(op, ops.Const):
        return "const"
    if isinstance(op, ops.Module):
        return "module"
    return type(op).__name__


class Run:
    """Executes a history on a real Hugr (and optionally a reference alongside)."""

    def __init__(self, with_ref=True, nports=0):
        from hugr.hugr import Hugr

        self.nports = nports
        self.h = Hugr()
        self.ref = Ref() if with_ref else None
        if self.ref is not None:
            self.ref.add_node(0, "module", None, 0, {})
        self.counter = 0
        self.handles = {}  # idx -> (handle, requested num_outs)

    def node(self, idx):
        from hugr.hugr.node_port import Node

        return Node(idx)

    def apply(self, op):
        """Returns ('ok', info) or ('raise', class)."""
        from hugr import val

        h = self.h
        k = op[0]
        try:
            if k == "add_node":
                _, parent, num_outs, meta = op
                self.counter += 1
                lab = self.counter
                n = h.add_node(
                    _mk_op(lab, self.nports), self.node(parent) if parent is not None else None, num_outs,
                    dict(meta) if meta else None,
                )
                self.handles[n.idx] = (n, num_outs)
                if self.ref is not None:
                    self.ref.add_node(n.idx, f"n{lab}", parent if parent is not None else 0, num_outs, dict(meta or {}))
                return ("ok", n.idx)
            if k == "add_const":
                _, parent = op
                n = h.add_const(val.TRUE, self.node(parent) if parent is not None else None)
                self.handles[n.idx] = (n, None)
                if self.ref is not None:
                    self.ref.add_node(n.idx, "const", parent if parent is not None else 0, None, {})
                return ("ok", n.idx)
            if k == "add_link":
                _, s, so, d, do = op
                h.add_link(self.node(s).out(so), self.node(d).inp(do))
                if self.ref is not None:
                    self.ref.add_link(s, so, d, do)
                return ("ok", None)
            if k == "add_order_link":
                _, s, d = op
                h.add_order_link(self.node(s), self.node(d))
                if self.ref is not None:
                    self.ref.add_order_link(s, d)
                return ("ok", None)
            if k == "delete_link":
                _, s, so, d, do = op
                h.delete_link(self.node(s).out(so), self.node(d).inp(do))
                if self.ref is not None:
                    self.ref.delete_link(s, so, d, do)
                return ("ok", None)
            if k == "delete_node":
                _, n = op
                h.delete_node(self.node(n))
                self.handles.pop(n, None)
                if self.ref is not None:
                    self.ref.delete_node(n)
                return ("ok", None)
            if k == "insert_hugr":
                _, sub, parent = op
                r2 = Run(with_ref=True, nports=self.nports)
                for j, o in enumerate(sub):
                    t, _ = r2.apply(o)
                    if t != "ok":
                        return ("raise", "sub-history")
                    if j in (len(sub) // 3, (2 * len(sub)) // 3):
                        # B has a past: it was serialised and inserted somewhere before it got its final shape (seeded
                        # change C04-15: the hierarchy walk memoised under a key that a delete + add leaves unchanged)
                        for look in (lambda: r2.h.to_json(), lambda: type(r2.h)().insert_hugr(r2.h)):
                            try:
                                look()
                            except Exception:  # noqa: BLE001
                                pass
                before_b = snapshot(r2.h)
                mapping = h.insert_hugr(r2.h, self.node(parent) if parent is not None else None)
                mp = {a.idx: b.idx for a, b in mapping.items()}
                self.last_insert = (r2, mp, before_b)
                for a, b in mapping.items():
                    self.handles[b.idx] = (b, None)
                if self.ref is not None:
                    rb = r2.ref
                    # hierarchy (breadth-first, children in child order): the image keeps B's child order
                    todo, seq = [0], []
                    while todo:
                        i = todo.pop(0)
                        seq.append(i)
                        todo.extend(rb.nodes[i]["children"])
                    for i in seq:
                        nd = rb.nodes[i]
                        par = mp[nd["parent"]] if nd["parent"] is not None else (parent if parent is not None else 0)
                        self.ref.add_node(mp[i], nd["label"], par, r2.h[r2.node(i)]._num_outs, dict(nd["meta"]))
                    for (s, so), (d, do) in rb.links:
                        self.ref.add_link(mp[s], so, mp[d], do)
                return ("ok", sorted(mp.items()))
            return ("raise", "bad-op")
        except KeyError:
            return ("raise", "KeyError")
        except Exception as e:  # noqa: BLE001
            from hugr.exceptions import ParentBeforeChild

            if isinstance(e, ParentBeforeChild):
                return ("raise", "ParentBeforeChild")
            return ("raise", "Exception")


def _ports_range(h, n, out, extra):
    from hugr.hugr.node_port import Direction

    cnt = h.num_ports(n, Direction.OUTGOING if out else Direction.INCOMING)
    return [-1] + list(range(0, max(cnt, extra + 1) + 1))


def snapshot(h):
    """All enumerated queries of a real Hugr, as nested lists (sequence-exact)."""
    from hugr.hugr.node_port import Direction

    nodes = [n.idx for n in h]
    out = [A("st"), len(h), h.num_nodes(), nodes]
    links = [[s.node.idx, s.offset, d.node.idx, d.offset] for s, d in h.links()]
    out.append(links)
    maxoff = collections.defaultdict(lambda: -1)
    for s, so, d, do in links:
        maxoff[(s, 1)] = max(maxoff[(s, 1)], so)
        maxoff[(d, 0)] = max(maxoff[(d, 0)], do)
    per = []
    for n in h:
        data = h[n]
        rec = [n.idx, _label(data.op), data.parent.idx if data.parent is not None else A("none")]
        rec.append([[c.idx, c._num_out_ports if c._num_out_ports is not None else A("none")] for c in h.children(n)])
        rec.append(h.num_in_ports(n))
        rec.append(h.num_out_ports(n))
        rec.append(h.num_ports(n, Direction.INCOMING))
        rec.append(h.num_ports(n, Direction.OUTGOING))
        outs = []
        for off in _ports_range(h, n, True, maxoff[(n.idx, 1)]):
            peers = [[p.node.idx, p.offset] for p in h.linked_ports(n.out(off))]
            if peers:
                outs.append([off, peers])
        ins = []
        for off in _ports_range(h, n, False, maxoff[(n.idx, 0)]):
            peers = [[p.node.idx, p.offset] for p in h.linked_ports(n.inp(off))]
            if peers:
                ins.append([off, peers])
        rec.append(outs)
        rec.append(ins)
        rec.append([[p.offset, q.node.idx, q.offset] for p, qs in h.outgoing_links(n) for q in qs])
        rec.append([[p.offset, q.node.idx, q.offset] for p, qs in h.incoming_links(n) for q in qs])
        rec.append([m.idx for m in h.outgoing_order_links(n)])
        rec.append([m.idx for m in h.incoming_order_links(n)])
        rec.append(sorted((str(k), repr(v)) for k, v in data.metadata.items()))
        per.append(rec)
    out.append(per)
    return out


def run_impl(spec):
    r = Run(with_ref=False)
    obs = [snapshot(r.h)]
    for op in spec["ops"]:
        tag, info = r.apply(op)
        if tag != "ok":
            obs.append([A("raise"), A(info)])
            break
        obs.append([A("ok"), info if info is not None else A("none")])
        obs.append(snapshot(r.h))
    return dumps(obs)


# ----------------------------------------------------------------------------- oracle


def _ms(xs):
    return sorted(map(repr, xs))


_WRAP = []


def _as_tonode(n):
    """an object that is a `ToNode` without being a `Node` (what a builder is): hashable, `to_node()` gives the node"""
    if not _WRAP:
        from hugr.hugr.node_port import ToNode

        class Wrapped(ToNode):
            def __init__(self, node):
                self._node = node

            def to_node(self):
                return self._node

        _WRAP.append(Wrapped)
    return _WRAP[0](n)


def check_against_ref(h, ref: Ref, site, fails, handles=None):
    from hugr.hugr.node_port import Direction, Node

    def F(cls, detail=""):
        fails.append(Failure(site, cls, detail))

    live = sorted(ref.nodes)
    got_nodes = [n.idx for n in h]
    if got_nodes != live:
        return F("node-iteration", f"got {got_nodes} expected {live}")
    if len(h) != len(live) or h.num_nodes() != len(live):
        return F("node-count", f"{len(h)} vs {len(live)}")
    # the other ways of iterating / looking up nodes agree with `iter`
    via_nodes = [(n.idx, id(d)) for n, d in h.nodes()]
    via_items = [(n.idx, id(d)) for n, d in h.items()]
    via_get = [(i, id(h[Node(i)])) for i in live]
    if via_nodes != via_get or via_items != via_get:
        return F("node-iteration", "nodes()/items() differ from lookup of the iterated nodes")
    if any(Node(i) not in h for i in live) or any(Node(i) in h for i in range(max(live) + 3) if i not in ref.nodes):
        return F("node-membership", "`in` disagrees with the live nodes")
    # deleted nodes unreachable
    for idx in range(0, max(live) + 3):
        if idx not in ref.nodes:
            try:
                h[Node(idx)]
                return F("deleted-node-reachable", f"node {idx}")
            except KeyError:
                pass
    links = [((s.node.idx, s.offset), (d.node.idx, d.offset)) for s, d in h.links()]
    if _ms(links) != _ms(ref.links):
        return F("links-multiset", f"got {sorted(links)} expected {sorted(ref.links)}")
    for (s, _), (d, _) in links:
        if s not in ref.nodes or d not in ref.nodes:
            return F("link-mentions-deleted-node")
    for idx in live:
        n = Node(idx)
        nd = ref.nodes[idx]
        data = h[n]
        if _label(data.op) != nd["label"]:
            return F("lookup-op", f"node {idx}")
        par = data.parent.idx if data.parent is not None else None
        if par != nd["parent"]:
            return F("parent", f"node {idx}: {par} vs {nd['parent']}")
        ch = [c.idx for c in h.children(n)]
        if ch != nd["children"]:
            return F("children", f"node {idx}: {ch} vs {nd['children']}")
        if dict(data.metadata) != nd["meta"]:
            return F("metadata", f"node {idx}")
        for out in (True, False):
            d = Direction.OUTGOING if out else Direction.INCOMING
            cnt = h.num_ports(n, d)
            cnt2 = h.num_out_ports(n) if out else h.num_in_ports(n)
            if cnt != cnt2:
                return F("port-count-inconsistent", f"node {idx}")
            mo = ref.max_off(idx, out)
            if cnt < mo + 1:
                return F("port-count-below-used-offset", f"node {idx} {'out' if out else 'in'}: {cnt} < {mo + 1}")
            if out and cnt < nd["req_out"]:
                return F("port-count-below-requested", f"node {idx}: {cnt} < {nd['req_out']}")
            for off in [-1] + list(range(0, max(cnt, mo + 1) + 2)):
                port = n.out(off) if out else n.inp(off)
                got = [(p.node.idx, p.offset) for p in h.linked_ports(port)]
                exp = ref.peers_out(idx, off) if out else ref.peers_in(idx, off)
                if _ms(got) != _ms(exp):
                    return F("linked_ports", f"{'out' if out else 'in'} port ({idx},{off}): got {got} expected {exp}")
                for q in set(exp):
                    ok = h.has_link(n.out(off), Node(q[0]).inp(q[1])) if out else h.has_link(Node(q[0]).out(q[1]), n.inp(off))
                    if not ok:
                        return F("has_link-misses-link", f"({idx},{off}) - {q}")
            listing = h.outgoing_links(n) if out else h.incoming_links(n)
            flat = [((p.node.idx, p.offset), (q.node.idx, q.offset)) for p, qs in listing for q in qs]
            exp = [
                (s, d) if out else (d, s)
                for s, d in ref.links
                if (s if out else d)[0] == idx and (s if out else d)[1] >= 0
            ]
            if _ms(flat) != _ms(exp):
                return F("link-listing", f"node {idx} {'out' if out else 'in'}: got {flat} expected {exp}")
            # the same listing asked through another `ToNode` than the node handle itself (the queries take `ToNode`: a
            # builder, or any object with `to_node()`) — seeded change C04-16: ports built from the raw argument
            try:
                w = _as_tonode(n)
                listing2 = h.outgoing_links(w) if out else h.incoming_links(w)
                flat2 = [((p.node.idx, p.offset), (q.node.idx, q.offset)) for p, qs in listing2 for q in qs]
                # (`num_incoming` is declared for `Node` only: not asked through the wrapper)
                cnt3 = h.num_outgoing(w) if out else None
                cnt4 = h.num_outgoing(n) if out else None
                same = (
                    h[w] is h[n] and [c.idx for c in h.children(w)] == ch and h.num_ports(w, d) == cnt
                    and (h.num_out_ports(w) if out else h.num_in_ports(w)) == cnt2
                    and [m.idx for m in h.outgoing_order_links(w)] == [m.idx for m in h.outgoing_order_links(n)]
                    and [m.idx for m in h.incoming_order_links(w)] == [m.idx for m in h.incoming_order_links(n)]
                )
            except Exception as e:  # noqa: BLE001
                return F("link-listing", f"node {idx} asked through a ToNode wrapper: {type(e).__name__}")
            if _ms(flat2) != _ms(exp) or cnt3 != cnt4:
                return F("link-listing", f"node {idx} {'out' if out else 'in'} asked through a ToNode wrapper: got {flat2} expected {exp}")
            if not same:
                return F("node-queries", f"node {idx}: lookup / children / port counts / order-link listings differ when asked through a ToNode wrapper")
        oo = [m.idx for m in h.outgoing_order_links(n)]
        if _ms(oo) != _ms([d[0] for s, d in ref.links if s == (idx, -1)]):
            return F("order-link-listing", f"node {idx} out: {oo}")
        oi = [m.idx for m in h.incoming_order_links(n)]
        if _ms(oi) != _ms([s[0] for s, d in ref.links if d == (idx, -1)]):
            return F("order-link-listing", f"node {idx} in: {oi}")
    # a few negative has_link probes
    for a, b in itertools.islice(itertools.product(live, live), 12):
        for so, do in ((0, 0), (-1, -1), (1, 0)):
            exp = ((a, so), (b, do)) in ref.links
            if h.has_link(Node(a).out(so), Node(b).inp(do)) != exp:
                return F("has_link", f"({a},{so})->({b},{do}) expected {exp}")


SITES = {
    "add_node": "Hugr.add_node", "add_const": "Hugr.add_const", "add_link": "Hugr.add_link",
    "add_order_link": "Hugr.add_order_link", "delete_link": "Hugr.delete_link",
    "delete_node": "Hugr.delete_node", "insert_hugr": "Hugr.insert_hugr",
}


def _valid_call(ref: Ref, op):
    """Is this call within the statement's domain (live nodes, leaf deletion)?"""
    k = op[0]
    live = ref.nodes
    if k in ("add_node", "add_const"):
        return op[1] is None or op[1] in live
    if k in ("add_link", "delete_link"):
        return op[1] in live and op[3] in live
    if k == "add_order_link":
        return op[1] in live and op[2] in live
    if k == "delete_node":
        return op[1] in live and not live[op[1]]["children"] and op[1] != 0
    if k == "insert_hugr":
        return op[2] is None or op[2] in live
    return False


def oracle(spec):
    fails: list[Failure] = []
    r = Run(with_ref=True)
    for op in spec["ops"]:
        site = SITES.get(op[0], op[0])
        valid = _valid_call(r.ref, op)
        if op[0] == "insert_hugr":
            # the inserted HUGR must itself be a legal history with parents listed before children
            pass
        tag, info = r.apply(op)
        if tag != "ok":
            if valid and not (op[0] == "insert_hugr" and info in ("ParentBeforeChild", "sub-history")):
                fails.append(Failure(site, "raises-on-valid-call", str(info)))
            break
        if not valid:
            break  # outside the statement's domain: stop comparing
        if op[0] in ("add_node", "add_const"):
            hd, req = r.handles[info]
            if hd.idx != info:
                fails.append(Failure(site, "handle-index"))
        check_against_ref(r.h, r.ref, site, fails)
        if fails:
            break
    return fails


# ----------------------------------------------------------------------------- generation


def _gen_history(rng, n_ops, max_nodes, allow_insert, del_rate=0.25):
    ops = []
    live = {0: []}  # idx -> children list (simulate indices incl. free-list reuse)
    free = []
    nslots = 1
    links = []

    def new_idx():
        nonlocal nslots
        if free:
            return free.pop()
        nslots += 1
        return nslots - 1

    for _ in range(n_ops):
        x = rng.random()
        nodes = sorted(live)
        if (x < 0.22 and len(live) < max_nodes) or len(live) < 3:
            parent = rng.choice(nodes) if rng.random() < 0.7 else None
            if rng.random() < 0.15:
                ops.append(["add_const", parent])
            else:
                num_outs = rng.choice([None, None, 0, 1, 2, 3])
                meta = rng.choice([None, None, {"k": 1}, {"a": "x", "b": [1, 2]}])
                ops.append(["add_node", parent, num_outs, meta])
            i = new_idx()
            live[i] = []
            live[parent if parent is not None else 0].append(i)
        elif x < 0.22 + del_rate * 0.5 and links:
            if rng.random() < 0.85:
                l = rng.choice(links)
                links.remove(l)
                ops.append(["delete_link", l[0], l[1], l[2], l[3]])
            else:
                ops.append(["delete_link", rng.choice(nodes), rng.choice(OFFS), rng.choice(nodes), rng.choice(OFFS)])
        elif x < 0.22 + del_rate:
            leaves = [n for n in nodes if n != 0 and not live[n]]
            if not leaves:
                continue
            n = rng.choice(leaves)
            ops.append(["delete_node", n])
            del live[n]
            for c in live.values():
                if n in c:
                    c.remove(n)
            links = [l for l in links if l[0] != n and l[2] != n]
            free.append(n)
        elif x < 0.22 + del_rate + 0.08:
            s, d = rng.choice(nodes), rng.choice(nodes)
            ops.append(["add_order_link", s, d])
            if (s, -1, d, -1) not in links:
                links.append((s, -1, d, -1))
        elif allow_insert and x > 0.96 and len(live) < max_nodes - 3:
            sub = _gen_history(rng, rng.randint(2, 12), 6, False, del_rate=0.2)
            parent = rng.choice(nodes) if rng.random() < 0.8 else None
            ops.append(["insert_hugr", sub["ops"], parent])
            # simulate indices: replay sub to find its live nodes in order
            sub_live = _simulate_live(sub["ops"])
            mp = {}
            for i in sub_live:
                mp[i] = new_idx()
                live[mp[i]] = []
            # (children bookkeeping is approximate; only used to pick leaves)
            for i, par in sub_live.items():
                tgt = mp[par] if par is not None else (parent if parent is not None else 0)
                live[tgt].append(mp[i])
            for l in _simulate_links(sub["ops"]):
                links.append((mp[l[0]], l[1], mp[l[2]], l[3]))
        else:
            if links and rng.random() < 0.45:
                # repeated / multi-target ports: reuse an endpoint of an existing link
                l = rng.choice(links)
                if rng.random() < 0.5:
                    s, so = l[0], l[1]
                    d, do = rng.choice(nodes), rng.choice(OFFS)
                else:
                    d, do = l[2], l[3]
                    s, so = rng.choice(nodes), rng.choice(OFFS)
                if rng.random() < 0.3:
                    s, so, d, do = l
            else:
                s, so, d, do = rng.choice(nodes), rng.choice(OFFS), rng.choice(nodes), rng.choice(OFFS)
            ops.append(["add_link", s, so, d, do])
            links.append((s, so, d, do))
    return {"ops": ops}


def _simulate_live(ops):
    """idx -> parent for the nodes alive after a (valid) sub-history."""
    live = {0: None}
    free = []
    nslots = 1
    for op in ops:
        if op[0] in ("add_node", "add_const"):
            if free:
                i = free.pop()
            else:
                i = nslots
                nslots += 1
            live[i] = op[1] if op[1] is not None else 0
        elif op[0] == "delete_node":
            live.pop(op[1], None)
            free.append(op[1])
    return dict(sorted(live.items()))


def _simulate_links(ops):
    links = []
    for op in ops:
        if op[0] == "add_link":
            links.append(tuple(op[1:]))
        elif op[0] == "add_order_link":
            if (op[1], -1, op[2], -1) not in links:
                links.append((op[1], -1, op[2], -1))
        elif op[0] == "delete_link":
            if tuple(op[1:]) in links:
                links.remove(tuple(op[1:]))
        elif op[0] == "delete_node":
            links = [l for l in links if l[0] != op[1] and l[2] != op[1]]
    return links


WARMUPS = [
    [],
    [["add_node", None, 2, None], ["add_node", None, None, None], ["add_link", 1, 0, 2, 0], ["add_link", 1, 0, 2, 1], ["add_link", 1, 0, 2, 0]],
    [["add_node", None, None, None], ["add_node", None, None, None], ["add_link", 1, 0, 2, 0], ["add_link", 1, 1, 2, 0], ["add_link", 2, 0, 2, 0]],
    [["add_node", None, None, None], ["add_node", None, None, None], ["add_order_link", 1, 2], ["add_order_link", 2, 1], ["add_link", 1, 0, 2, 0]],
    [["add_node", None, None, None], ["add_node", None, None, None], ["add_link", 1, 0, 2, 0], ["delete_node", 1]],
    [["add_node", None, None, None], ["add_node", None, None, None], ["delete_node", 1], ["add_node", 2, 1, None]],
    [["add_node", None, 3, None], ["add_node", 1, None, None], ["add_link", 1, 2, 2, 1], ["add_order_link", 1, 2]],
    [["add_node", None, None, None], ["add_node", None, None, None], ["add_link", 1, 0, 2, 0], ["add_link", 1, 0, 2, 0], ["delete_link", 1, 0, 2, 0]],
]


def _small_ops():
    ns = [0, 1, 2]
    offs = [-1, 0, 1]
    ops = [["add_node", None, None, None], ["add_node", 1, 1, None]]
    for n in (1, 2):
        ops.append(["delete_node", n])
    for s in (1, 2):
        for d in (1, 2):
            ops.append(["add_order_link", s, d])
            for so in offs:
                for do in offs:
                    ops.append(["add_link", s, so, d, do])
                    ops.append(["delete_link", s, so, d, do])
    return ops


def cases(rng, tier):
    if tier == "quick":
        n = 1500
    elif tier == "thorough":
        n = 40000
        small = _small_ops()
        for w in WARMUPS:
            for seq in itertools.product(small, repeat=2):
                yield {"ops": [list(o) for o in w] + [list(o) for o in seq]}
        for w in WARMUPS[1:4]:
            for seq in itertools.product(small[:40], repeat=3):
                yield {"ops": [list(o) for o in w] + [list(o) for o in seq]}
    else:
        n = 30000
    for _ in range(n):
        yield _gen_history(rng, rng.randint(5, 60), 12, True)


def exhaustive(tier):
    return False


def payload(spec):
    def enc(op):
        k = op[0]
        if k == "add_node":
            _, parent, num_outs, meta = op
            m = sorted((str(a), repr(b)) for a, b in (meta or {}).items())
            return [A(k), parent if parent is not None else A("none"), num_outs if num_outs is not None else A("none"), [[a, b] for a, b in m]]
        if k == "add_const":
            return [A(k), op[1] if op[1] is not None else A("none")]
        if k == "insert_hugr":
            return [A(k), [enc(o) for o in op[1]], op[2] if op[2] is not None else A("none")]
        return [A(k)] + list(op[1:])

    return "store.run", dumps([enc(o) for o in spec["ops"]])


def nontrivial(spec, obs):
    ks = [o[0] for o in spec["ops"]]
    return (("delete_node" in ks) or ("delete_link" in ks) or ("insert_hugr" in ks)) and sum(
        k in ("add_link", "add_order_link") for k in ks
    ) >= 2


def stats(spec, obs, counters):
    for o in spec["ops"]:
        counters[f"op.{o[0]}"] += 1
    counters["histories"] += 1
    counters["ended-by-raise"] += "(raise" in obs
    counters[f"len.{len(spec['ops']) // 10 * 10}+"] += 1


def shrink(spec, pred):
    ops = ddmin(spec["ops"], lambda o: pred({"ops": o}))
    return {"ops": ops}
