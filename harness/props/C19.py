"""C19 — shot results convert to register bitstrings by the documented convention.

spec  = {"shots": [[[tag, value], ...], ...]}        value: bool | int | float | (nested) list
One spec is one multi-shot `QsysResult`; the observation holds, per shot, `to_register_bits()` and
`collate_tags()`, and for the whole result `register_bitstrings` / `register_counts` under all four
(strict_names, strict_lengths) combinations plus `collated_counts()`.

Ties to /repo:
  (a) correspondence: the observation of the real code is compared with the Lean model (Qsys.lean);
  (b) translation: REG_INDEX_PATTERN (pattern text, flags, and the `re` function it is used with) is read
      from result.py on every run and written to lean/HugrVerif/Gen/QsysPattern.lean; the theorem
      `Props.C19.pattern_is_modelled` re-checks that it is the pattern the hand-written matcher is for.
The oracle is a small reference written from the module docstring: replay entries in order as writes.
"""
from __future__ import annotations

import ast
import copy
import itertools
import json
from collections import Counter
from pathlib import Path

from core import Failure, ddmin
from sexp import A, dumps, loads

PROP = "C19"
TITLE = "Shot results convert to register bitstrings by the documented convention"
LEAN_TARGETS = ["HugrVerif.Props.C19"]
DRIVE_TARGETS = ["HugrVerif.Drive.Qsys"]
RULE = (
    "multi-shot results of 1-6 shots, each shot 0-12 entries over 3 register names with whole-register and "
    "indexed writes colliding on the same register, values from ints/bools 0/1, non-bits (2, -1, 1.0, ...), "
    "lists and nested lists; shots of one result are variations of a common template so that strict_names / "
    "strict_lengths both accept and reject; every result is observed under all four flag combinations. "
    "Separate profiles: collation (nested lists), exotic tags (upper case, trailing newline, ...), random ASCII "
    "tags around the pattern boundary, and non-ASCII tags (checked by the oracle only, the model answers "
    "!unsupported). thorough: every shot of "
    "<= 4 entries over the 32-entry alphabet {a,b} x ({[0],[1],[2]} x {0,1,True,2} + whole x {0,[True,1],[1,0,1],2}) "
    "enumerated completely (packed 6 shots per result) + 100000 random results. Non-trivial = some shot writes "
    "one register at least twice, or the result has >= 2 shots; distinct by full spec."
)
TRUSTED = [
    "Python `re` semantics of ^([a-z][\\w_]*)\\[(\\d+)\\]$ under re.match on ASCII tags (hand-written matcher "
    "Qsys.parseTag, characterised by theorem parseTag_iff; pattern text/flags/function regenerated from source)",
    "Python dict / defaultdict / Counter insertion-order semantics modelled by Py.Dict",
]
ASSUMPTIONS = [
    "values are bool | int | float | (nested) lists of those (DataValue); tags are str",
    "tags containing non-ASCII characters are outside the Lean model (oracle-checked only)",
    "order of registers inside returned dicts / of pairs inside collated keys is not claimed (compared as sets)",
]

RESULT_PY = Path("hugr-py/src/hugr/qsystem/result.py")
FLAGS = [(False, False), (False, True), (True, False), (True, True)]  # (strict_names, strict_lengths)

# ----------------------------------------------------------------------------- translator (tie b)


def _lean_str(s: str) -> str:
    out = []
    for ch in s:
        if ch == "\\":
            out.append("\\\\")
        elif ch == '"':
            out.append('\\"')
        elif ch == "\n":
            out.append("\\n")
        elif ch == "\t":
            out.append("\\t")
        elif 32 <= ord(ch) < 127:
            out.append(ch)
        else:
            out.append("\\u{%x}" % ord(ch))
    return '"' + "".join(out) + '"'


MODELLED = ("^([a-z][\\w_]*)\\[(\\d+)\\]$", "", "match(P,_)")  # Qsys.modelledPattern / modelledFlags / modelledUse


def _read_pattern_ast(src: str):
    """(pattern text, flags text, use) read off the source text; raises `_Unparsed` when the source is not written
    the way this reader expects.  The compiled pattern is any module-level `NAME = re.compile(<literal>, ...)`
    (by preference the one called REG_INDEX_PATTERN); its uses are looked for in the whole module (a refactoring may
    move the matching into a helper)."""
    tree = ast.parse(src)
    cands = {}
    for node in tree.body:
        if isinstance(node, ast.Assign) and len(node.targets) == 1 and isinstance(node.targets[0], ast.Name):
            v = node.value
            if (isinstance(v, ast.Call) and ast.unparse(v.func) == "re.compile" and v.args
                    and isinstance(v.args[0], ast.Constant) and isinstance(v.args[0].value, str)):
                rest = [ast.unparse(a) for a in v.args[1:]] + [f"{k.arg}={ast.unparse(k.value)}" for k in v.keywords]
                cands[node.targets[0].id] = (v.args[0].value, ",".join(rest))
    if "REG_INDEX_PATTERN" in cands:
        name = "REG_INDEX_PATTERN"
    elif len(cands) == 1:
        name = next(iter(cands))
    else:
        raise _Unparsed("no module-level `re.compile(<string literal>, ...)` that can be identified as the tag pattern")
    pattern, flags = cands[name]
    uses = set()
    for c in ast.walk(tree):
        if not isinstance(c, ast.Call):
            continue
        fn = ast.unparse(c.func)
        args = [ast.unparse(a) for a in c.args]
        if fn.startswith("re.") and args[:1] == [name]:
            uses.add(fn[3:] + "(" + ",".join(["P"] + ["_"] * (len(args) - 1)) + ")")
        elif fn.startswith(name + "."):
            uses.add(fn[len(name) + 1:] + "(" + ",".join(["P"] + ["_"] * len(args)) + ")")
    if not uses:
        raise _Unparsed(f"no use of {name} found in result.py")
    return pattern, flags, ";".join(sorted(uses))


class _Unparsed(Exception):
    pass


def _probe_tags():
    """Tags on both sides of every boundary of the documented convention `^([a-z][\\w_]*)\\[(\\d+)\\]$` used
    with `match` (a total enumeration over a small alphabet, lengths <= 5, plus hand-picked longer ones)."""
    import itertools

    alpha = ["a", "Z", "_", "0", "7", "[", "]", "\n", " ", "é"]
    tags = ["".join(t) for n in range(0, 6) for t in itertools.product(alpha, repeat=n)]
    tags += ["abc[12]", "abc[12]\n", "abc[12]\n\n", "abc[12]x", "x[00]", "x[٣]", "xé[1]", "x1_[10]", "a[1][2]", "a[[1]]",
             "a b[1]", "q[1", "q1]", "[1]", "A[1]", "_a[1]", "a[-1]", "a[1.0]", "a[ 1]", "ａ[1]", "a[1]]"]
    return tags


def _read_pattern_by_running(repo: Path):
    """Fallback when the source is not written the way `_read_pattern_ast` expects: classify every probe tag with
    the real `QsysShot.to_register_bits` (indexed write of one bit at position n of register `name` / whole-register
    write) and compare with the hand-written reference `ref_parse`; when they agree everywhere the documented
    convention is what the code implements and the modelled texts are emitted."""
    import importlib.util
    import sys

    path = Path(repo) / RESULT_PY
    spec = importlib.util.spec_from_file_location("_c19_result_fresh", path)
    mod = importlib.util.module_from_spec(spec)
    sys.modules[spec.name] = mod
    try:
        spec.loader.exec_module(mod)
    finally:
        sys.modules.pop(spec.name, None)
    for tag in _probe_tags():
        want = ref_parse(tag)
        try:
            got = mod.QsysShot([(tag, 1)]).to_register_bits()
        except Exception as e:  # noqa: BLE001
            raise _Unparsed(f"to_register_bits raises {type(e).__name__} on tag {tag!r}") from None
        exp = {want[0]: "0" * want[1] + "1"} if want is not None and want[1] < 4096 else {tag: "1"}
        if want is not None and want[1] >= 4096:
            continue
        if got != exp:
            raise _Unparsed(f"tag {tag!r} is not handled by the documented convention: {got!r}")
    return MODELLED


def read_pattern(repo: Path):
    """(pattern text, flags text, name of the `re` function applied to it, problems)."""
    problems = []
    src = (Path(repo) / RESULT_PY).read_text()
    try:
        pattern, flags, use = _read_pattern_ast(src)
        return pattern, flags, use, problems
    except (_Unparsed, SyntaxError) as e:
        why = str(e)
    try:
        pattern, flags, use = _read_pattern_by_running(Path(repo))
        problems.append(f"note: result.py: {why}; the tag convention was read off the behaviour of to_register_bits instead")
        return pattern, flags, use, problems
    except _Unparsed as e:
        problems.append(f"result.py: {why}; behaviour: {e}")
    except Exception as e:  # noqa: BLE001
        problems.append(f"result.py: {why}; the module cannot be executed: {e!r}")
    return None, None, None, problems


def translate(repo, gen_dir):
    pattern, flags, use, problems = read_pattern(repo)
    if pattern is None:
        return problems
    text = (
        "/- REGENERATED on every run by harness/props/C19.py from hugr-py/src/hugr/qsystem/result.py.\n"
        "   Do not edit.  `Props.C19.pattern_is_modelled` compares these with the pattern that the\n"
        "   hand-written matcher `Qsys.parseTag` implements. -/\n"
        "namespace HugrVerif.Gen.QsysPattern\n\n"
        f"def pattern : String := {_lean_str(pattern)}\n"
        f"def flags : String := {_lean_str(flags or '')}\n"
        f"def usedAs : String := {_lean_str(use)}\n\n"
        "end HugrVerif.Gen.QsysPattern\n"
    )
    f = Path(gen_dir) / "QsysPattern.lean"
    if not f.exists() or f.read_text() != text:
        f.write_text(text)
    return problems


# ----------------------------------------------------------------------------- reference (oracle side)


class Reject(Exception):
    """The documented convention rejects the input (the code must raise ValueError)."""


def ref_parse(tag: str):
    """`name[n]` per the documented pattern ^([a-z][\\w_]*)\\[(\\d+)\\]$ (written by hand, no `re`)."""
    s = tag[:-1] if tag.endswith("\n") else tag  # `$` also matches before one final newline
    if not s.endswith("]"):
        return None
    i = s.find("[")
    if i <= 0:
        return None
    name, digits = s[:i], s[i + 1 : -1]
    if not ("a" <= name[0] <= "z"):
        return None
    if not all(ch == "_" or ch.isalnum() for ch in name[1:]):
        return None
    if not digits or not all(ch.isdecimal() for ch in digits):
        return None
    return name, int(digits)


def ref_bit(v) -> int:
    if type(v) is bool:
        return int(v)
    if type(v) is int and v in (0, 1):
        return v
    raise Reject


def ref_replay(entries) -> dict[str, str]:
    regs: dict[str, list[int]] = {}
    for tag, val in entries:
        p = ref_parse(tag)
        if p is not None:
            name, n = p
            b = ref_bit(val)
            bits = regs.setdefault(name, [])
            while len(bits) <= n:
                bits.append(0)
            bits[n] = b
        elif isinstance(val, list):
            regs[tag] = [ref_bit(v) for v in val]
        else:
            regs[tag] = [ref_bit(val)]
    return {r: "".join("01"[b] for b in bits) for r, bits in regs.items()}


def _try(f, *a):
    try:
        return f(*a)
    except Reject:
        return Reject


def ref_bitstrings(per_shot, strict_names, strict_lengths):
    """per_shot: list of dict | Reject."""
    if any(b is Reject for b in per_shot):
        return Reject
    if strict_names and any(set(b) != set(per_shot[0]) for b in per_shot):
        return Reject
    out: dict[str, list[str]] = {}
    for b in per_shot:
        for r, s in b.items():
            out.setdefault(r, []).append(s)
    if strict_lengths and any(len({len(s) for s in ss}) > 1 for ss in out.values()):
        return Reject
    return out


def _flat(v):
    if isinstance(v, list):
        for x in v:
            yield from _flat(x)
    else:
        yield v


def ref_collate(entries) -> dict[str, list]:
    out: dict[str, list] = {}
    for tag, val in entries:
        out.setdefault(tag, []).append(val)
    return out


def ref_collated_key(entries):
    return frozenset(
        (tag, "".join("01"[ref_bit(p)] for p in _flat(vals))) for tag, vals in ref_collate(entries).items()
    )


# ----------------------------------------------------------------------------- implementation adapter


def _call(f, *a, **k):
    try:
        return ("ok", f(*a, **k))
    except ValueError:
        return ("err", "ValueError")
    except Exception:  # noqa: BLE001
        return ("err", "Exception")


_last = [None, None]


def _eval(spec):
    """Run every observed call of the real code once per spec (shared by run_impl and oracle)."""
    if _last[0] is spec:
        return _last[1]
    from hugr.qsystem.result import QsysResult, QsysShot

    shots = [[(t, v) for t, v in sh] for sh in spec["shots"]]
    # every way of building the same shots / results (chosen by the spec, so that a replay makes the same calls):
    # constructor from a list, from a one-shot iterator, entry by entry with `append`; results from raw entry
    # lists, from QsysShot objects, from a generator
    style = len(json.dumps(spec["shots"])) % 3

    def mk_shot(sh):
        if style == 0:
            return QsysShot(sh)
        if style == 1:
            return QsysShot(iter(sh))
        o = QsysShot()
        for t, v in sh:
            o.append(t, v)
        return o

    def mk_result():
        if style == 0:
            return QsysResult(shots)
        if style == 1:
            return QsysResult(mk_shot(sh) for sh in shots)
        return QsysResult([mk_shot(sh) for sh in shots])

    r = {
        "bits": [_call(mk_shot(sh).to_register_bits) for sh in shots],
        "collate": [_call(mk_shot(sh).collate_tags) for sh in shots],
        "bitstrings": [],
        "counts": [],
    }
    for sn, sl in FLAGS:
        r["bitstrings"].append(_call(mk_result().register_bitstrings, strict_names=sn, strict_lengths=sl))
        r["counts"].append(_call(mk_result().register_counts, strict_names=sn, strict_lengths=sl))
    r["collated"] = _call(mk_result().collated_counts)
    # the per-shot views agree with the per-result ones and with the entries
    r["views"] = []
    try:
        res = mk_result()
        if [list(x.entries) for x in res.results] != shots:
            r["views"].append("results-do-not-hold-the-given-entries")
        if res.collated_shots() != [mk_shot(sh).collate_tags() for sh in shots]:
            r["views"].append("collated_shots-differs-from-per-shot-collate_tags")
        for sh in shots:
            try:
                if mk_shot(sh).as_dict() != dict(sh):
                    r["views"].append("as_dict-not-last-value-per-tag")
                    break
            except TypeError:
                pass
    except Exception as e:  # noqa: BLE001
        r["views"].append("views-raise:" + type(e).__name__)
    # the same shot object converted, its entries edited in place (same length), converted again:
    # the property speaks about the entries the shot has at the time of the call
    r["edited"] = []
    for sh in shots:
        obj = QsysShot(list(sh))
        _call(obj.to_register_bits)
        obj.entries.reverse()
        r["edited"].append(_call(obj.to_register_bits))
    _last[0], _last[1] = spec, r
    return r


def _data(v):
    if isinstance(v, bool):
        return [A("b"), v]
    if isinstance(v, int):
        return [A("i"), v]
    if isinstance(v, float):
        return [A("f"), repr(v)]
    if isinstance(v, list):
        return [A("l")] + [_data(x) for x in v]
    raise TypeError(type(v))


def _obs(res, conv):
    if res[0] == "err":
        return A(res[1])
    try:
        return conv(res[1])
    except Exception:  # noqa: BLE001
        return A("Unprintable")


def _o_bits(d):
    return [A("dict")] + [[str(k), str(v)] for k, v in d.items()]


def _o_collate(d):
    return [A("dict")] + [[str(k), [A("vals")] + [_data(x) for x in vs]] for k, vs in d.items()]


def _o_bitstrings(d):
    return [A("dict")] + [[str(k), [A("list")] + [str(s) for s in ss]] for k, ss in d.items()]


def _o_counts(d):
    return [A("dict")] + [
        [str(k), [A("dict")] + [[str(s), int(n)] for s, n in c.items()]] for k, c in d.items()
    ]


def _o_collated(c):
    return [A("counter")] + [
        [[A("tuple")] + [[str(t), str(s)] for t, s in key], int(n)] for key, n in c.items()
    ]


def run_impl(spec):
    r = _eval(spec)
    return dumps(
        [
            A("result"),
            [A("shots")]
            + [[A("shot"), _obs(b, _o_bits), _obs(c, _o_collate)] for b, c in zip(r["bits"], r["collate"])],
            [A("bitstrings")] + [_obs(x, _o_bitstrings) for x in r["bitstrings"]],
            [A("counts")] + [_obs(x, _o_counts) for x in r["counts"]],
            [A("collated"), _obs(r["collated"], _o_collated)],
        ]
    )


# ----------------------------------------------------------------------------- model payload / compare


def _ascii(spec) -> bool:
    return all(t.isascii() for sh in spec["shots"] for t, _ in sh)


def payload(spec):
    return "qsys.result", dumps([[A("shot")] + [[t, _data(v)] for t, v in sh] for sh in spec["shots"]])


def _canon(x):
    """Order-insensitive reading of dict-like parts of an observation."""
    if isinstance(x, list) and x and isinstance(x[0], A):
        if x[0] == "dict":
            return ("dict", tuple(sorted((_canon(e) for e in x[1:]), key=repr)))
        if x[0] == "counter":
            c = Counter()
            for key, n in x[1:]:
                c[tuple(sorted((_canon(p) for p in key[1:]), key=repr))] += int(n)
            return ("counter", tuple(sorted(c.items(), key=repr)))
    if isinstance(x, list):
        return tuple(_canon(e) for e in x)
    return (type(x).__name__, str(x))


def compare(spec, impl_obs, model_obs):
    if impl_obs == model_obs:
        return True
    try:
        return _canon(loads(impl_obs)) == _canon(loads(model_obs))
    except Exception:  # noqa: BLE001
        return False


# ----------------------------------------------------------------------------- oracle


def _is_ok(res):
    return res[0] == "ok"


def _verdict(site, res, expected, fails, what, same):
    """Compare an implementation outcome with the reference outcome (dict | Reject)."""
    if res[0] == "err" and res[1] != "ValueError":
        fails.append(Failure(site, "wrong-exception", f"{what}: raised {res[1]}"))
    elif expected is Reject and _is_ok(res):
        fails.append(Failure(site, f"{what}-accepted", f"returned {res[1]!r}"))
    elif expected is not Reject and not _is_ok(res):
        fails.append(Failure(site, f"{what}-rejected", f"raised ValueError, expected {expected!r}"))
    elif expected is not Reject and not same(res[1], expected):
        return False
    return True


def oracle(spec):
    r = _eval(spec)
    fails: list[Failure] = []
    shots = spec["shots"]

    # -- per shot: to_register_bits = replay of the entries in order; collate_tags
    per_shot = []
    for i, sh in enumerate(shots):
        exp = _try(ref_replay, sh)
        per_shot.append(exp)
        res = r["bits"][i]
        site = "QsysShot.to_register_bits"
        if _is_ok(res):
            d = res[1]
            if not isinstance(d, dict) or not all(isinstance(s, str) for s in d.values()):
                fails.append(Failure(site, "not-a-dict-of-str", repr(d)))
                continue
            if any(ch not in "01" for s in d.values() for ch in s):
                fails.append(Failure(site, "non-01-character", f"shot {i}: {d!r}"))
                continue
        if not _verdict(site, res, exp, fails, "non-bit" if exp is Reject else "bits", lambda a, b: a == b):
            fails.append(Failure(site, "differs-from-replay", f"shot {i}: got {res[1]!r}, replay gives {exp!r}"))
        if shots and len(sh) > 1:
            rev = list(reversed(sh))
            expr = _try(ref_replay, rev)
            rese = r["edited"][i]
            if not _verdict(site, rese, expr, fails, "non-bit" if expr is Reject else "bits-after-edit", lambda a, b: a == b):
                fails.append(Failure(site, "stale-after-entries-edited-in-place",
                                     f"shot {i} reversed: got {rese[1]!r}, replay gives {expr!r}"))
        resc = r["collate"][i]
        if not _is_ok(resc) or resc[1] != ref_collate(sh):
            fails.append(Failure("QsysShot.collate_tags", "collate-differs", f"shot {i}: {resc[1]!r}"))

    for v in r.get("views", []):
        fails.append(Failure("QsysResult/QsysShot views", v, ""))

    # -- result level (defined in terms of the per-shot strings: only judged when those are right,
    #    a wrong per-shot conversion is already reported above)
    shot_level_ok = not any(f.site == "QsysShot.to_register_bits" for f in fails)
    for (sn, sl), resb, resc in zip(FLAGS if shot_level_ok else [], r["bitstrings"], r["counts"]):
        exp = ref_bitstrings(per_shot, sn, sl)
        loose = ref_bitstrings(per_shot, False, False)
        site = "QsysResult.register_bitstrings"
        if loose is Reject:
            what = "non-bit"
        elif exp is Reject:
            only_names = ref_bitstrings(per_shot, sn, False) is Reject
            what = "strict-names-differing-sets" if only_names else "strict-lengths-differing-lengths"
        elif sn and not _is_ok(resb):
            what = "strict-names-same-sets"
        elif sl and not _is_ok(resb):
            what = "strict-lengths-same-lengths"
        else:
            what = "bitstrings"
        if not _verdict(site, resb, exp, fails, what, lambda a, b: a == b):
            fails.append(Failure(site, "not-per-shot-strings-in-shot-order", f"flags={sn, sl}: {resb[1]!r} expected {exp!r}"))
        site = "QsysResult.register_counts"
        expc = Reject if exp is Reject else {k: Counter(v) for k, v in exp.items()}
        if not _verdict(site, resc, expc, fails, what, lambda a, b: a == b):
            fails.append(Failure(site, "counts-differ", f"flags={sn, sl}: {resc[1]!r} expected {expc!r}"))

    # -- collated counts
    site = "QsysResult.collated_counts"
    keys = [_try(ref_collated_key, sh) for sh in shots]
    exp = Reject if any(k is Reject for k in keys) else Counter(keys)

    def same_collated(got, exp):
        c = Counter()
        for key, n in got.items():
            if len({t for t, _ in key}) != len(key):
                return False
            c[frozenset(key)] += n
        return c == exp

    if not _verdict(site, r["collated"], exp, fails, "non-bit" if exp is Reject else "collated", same_collated):
        fails.append(Failure(site, "collated-differs", f"{r['collated'][1]!r} expected {exp!r}"))
    return fails


# ----------------------------------------------------------------------------- generation

NAMES = ["c", "ab", "r_1"]
NONBITS = [2, -1, 1.0, 0.0, 0.5, 3, 255, -2]
EXOTIC = [
    "A[0]", "a[0]x", "a[]", "a[-1]", "a[0][1]", "[0]", "_a[0]", "a b[1]", "aB_9[10]", "a[1]\n", "a[1]\n\n",
    "a\n[1]", " a[0]", "a[0] ", "a[ 0]", "a[0x1]", "a[1_0]", "a[01]", "a[1]]", "a[[1]", "a", "aB_9", "a[1", "a1]",
    "a[2]\t", "z_[3]", "a[0]\n", "9a[0]", "a-b[0]", "",
]
NONASCII = ["é[0]", "aé[1]", "a[٣]", "a[²]", "a²[1]", "a[1٣]", "é"]


def _bit(rng):
    return rng.choice([0, 1, 0, 1, True, False])


def _bits(rng, n):
    return [_bit(rng) for _ in range(n)]


def _nested(rng, depth):
    out = []
    for _ in range(rng.randint(0, 3)):
        if depth > 0 and rng.random() < 0.35:
            out.append(_nested(rng, depth - 1))
        else:
            out.append(_bit(rng) if rng.random() < 0.96 else rng.choice(NONBITS))
    return out


def _entry(rng, names, p_bad):
    name = rng.choice(names)
    if rng.random() < 0.5 and "[" not in name:
        idx = rng.choice([0, 0, 1, 1, 2, 3, 5, 8])
        text = str(idx)
        u = rng.random()
        if u < 0.08:
            text = "0" + text
        tag = f"{name}[{text}]" + ("\n" if u > 0.97 else "")
        u = rng.random()
        if u < p_bad:
            val = rng.choice(NONBITS)
        elif u < p_bad + 0.01:
            val = [_bit(rng)]
        else:
            val = _bit(rng)
        return [tag, val]
    u = rng.random()
    if u < 0.3:
        val = _bit(rng)
    elif u < 0.3 + p_bad:
        val = rng.choice(NONBITS)
    else:
        val = _bits(rng, rng.choice([0, 1, 2, 2, 3, 3, 4, 5]))
        if val and rng.random() < p_bad:
            val[rng.randrange(len(val))] = rng.choice(NONBITS + [[1]])
    return [name, val]


def _revalue(rng, e):
    """Same tag, same shape, fresh bits (so strict flags often accept)."""
    tag, val = e
    if isinstance(val, list):
        n = len(val) if rng.random() < 0.9 else rng.randint(0, 5)
        if all(type(v) in (int, bool) and v in (0, 1) for v in val):
            return [tag, _bits(rng, n)]
        return [tag, val]
    if type(val) in (int, bool) and val in (0, 1):
        return [tag, _bit(rng)]
    return [tag, val]


_FUZZ = "abzAZ_09[]\n -x"


def _fuzz_tag(rng):
    """ASCII tags at and around the pattern boundary (ties `parseTag` to `re` on the real code)."""
    if rng.random() < 0.5:
        return "".join(rng.choice(_FUZZ) for _ in range(rng.randint(0, 8)))
    ok = lambda: rng.random() < 0.8  # noqa: E731  each part well-formed with p=0.8, else a near miss
    name = rng.choice(["a", "b_", "zZ9", "q_0A"]) if ok() else rng.choice(["A", "_a", "a b", "9", "", "a-"])
    lb = "[" if ok() else rng.choice(["[[", "", "("])
    digits = (
        "".join(rng.choice("0123456789") for _ in range(rng.randint(1, 3)))
        if ok()
        else rng.choice(["", "1 ", "-1", "1_0", "0x1", "1]"])
    )
    rb = "]" if ok() else rng.choice(["]]", "", ")"])
    tail = rng.choice(["", "", "", "\n"]) if ok() else rng.choice(["\n\n", "x", " ", "\t", "\n "])
    return name + lb + digits + rb + tail


def _rand_result(rng, profile):
    names = list(NAMES)
    p_bad = 0.025
    if profile == "tagfuzz":
        tags = [_fuzz_tag(rng) for _ in range(3)]
        return {
            "shots": [
                [[rng.choice(tags), _bit(rng) if rng.random() < 0.8 else _bits(rng, 2)] for _ in range(rng.randint(1, 4))]
                for _ in range(rng.randint(1, 2))
            ]
        }
    if profile == "exotic":
        names = names + rng.sample(EXOTIC, 4)
    elif profile == "nonascii":
        names = names + rng.sample(NONASCII, 3)
    if profile == "collate":
        tags = ["c", "ab", "c[0]", "ab[1]", "X"]
        mk = lambda: [rng.choice(tags), _nested(rng, 2) if rng.random() < 0.7 else _bit(rng)]  # noqa: E731
    else:
        mk = lambda: _entry(rng, names, p_bad)  # noqa: E731
    base = [mk() for _ in range(rng.choice([0, 1, 2, 3, 4, 5, 6, 8, 10, 12]))]
    shots = []
    for _ in range(rng.randint(1, 6)):
        u = rng.random()
        if u < 0.12:
            sh = [mk() for _ in range(rng.randint(0, 12))]
        else:
            sh = [_revalue(rng, e) for e in base]
            if u < 0.30 and sh:
                del sh[rng.randrange(len(sh))]
            elif u < 0.45:
                sh.insert(rng.randint(0, len(sh)), mk())
            elif u < 0.55:
                rng.shuffle(sh)
        shots.append(sh)
    if rng.random() < 0.12 and shots:
        # a twin of an earlier shot: same tags and shapes, one bit replaced by the float that compares (and
        # hashes) equal to it: the later shot must still be rejected (a value that is not a bit)
        src = copy.deepcopy(rng.choice(shots))
        spots = [(i, None) for i, (_, v) in enumerate(src) if type(v) in (int, bool) and v in (0, 1)] + [
            (i, j) for i, (_, v) in enumerate(src) if isinstance(v, list) for j, x in enumerate(v)
            if type(x) in (int, bool) and x in (0, 1)]
        if spots:
            i, j = rng.choice(spots)
            if j is None:
                src[i][1] = float(src[i][1])
            else:
                src[i][1][j] = float(src[i][1][j])
            shots.append(src)
    return {"shots": shots}


def _profile(rng):
    u = rng.random()
    if u < 0.18:
        return "collate"
    return "exotic" if u < 0.26 else "nonascii" if u < 0.29 else "tagfuzz" if u < 0.37 else "regs"


def _alphabet():
    idx_vals = [0, 1, True, 2]
    whole_vals = [0, [True, 1], [1, 0, 1], 2]
    out = []
    for r in ("a", "b"):
        for i in range(3):
            out.extend([f"{r}[{i}]", v] for v in idx_vals)
        out.extend([r, v] for v in whole_vals)
    assert len(out) == 32
    return out


def _exhaustive_shots(maxlen=4):
    alpha = _alphabet()
    for n in range(maxlen + 1):
        yield from itertools.product(alpha, repeat=n)


def cases(rng, tier):
    if tier == "quick":
        n = 1500
    elif tier == "thorough":
        n = 100000
        pack: list = []
        for sh in _exhaustive_shots():
            pack.append([list(e) for e in sh])
            if len(pack) == 6:
                yield {"shots": pack}
                pack = []
        if pack:
            yield {"shots": pack}
    else:  # search
        n = 60000
    for _ in range(n):
        yield _rand_result(rng, _profile(rng))


def exhaustive(tier):
    return tier == "thorough"


# ----------------------------------------------------------------------------- bookkeeping


def _targets(sh):
    out = []
    for t, _ in sh:
        p = ref_parse(t)
        out.append((p[0], "idx") if p else (t, "whole"))
    return out


def nontrivial(spec, obs):
    if len(spec["shots"]) >= 2:
        return True
    return any(len({r for r, _ in tg}) < len(tg) for tg in map(_targets, spec["shots"]))


def _top_items(text: str) -> list[str]:
    """Heads of the space-separated s-expressions in `text`: an atom's text, or "(" + its first atom."""
    out, i, n = [], 0, len(text)
    while i < n:
        if text[i] == " ":
            i += 1
            continue
        if text[i] != "(":
            j = text.find(" ", i)
            j = n if j < 0 else j
            out.append(text[i:j])
            i = j
            continue
        j = i + 1
        while j < n and text[j] not in " ()":
            j += 1
        out.append(text[i:j])
        depth, k, quoted = 0, i, False
        while k < n:
            ch = text[k]
            if quoted:
                if ch == "\\":
                    k += 1
                elif ch == '"':
                    quoted = False
            elif ch == '"':
                quoted = True
            elif ch == "(":
                depth += 1
            elif ch == ")":
                depth -= 1
                if depth == 0:
                    break
            k += 1
        i = k + 1
    return out


def _outcome(head: str) -> str:
    return "ok" if head.startswith("(") else head


def stats(spec, obs, counters):
    """Input distribution from the spec, outcomes from the observation of the real code."""
    counters["results"] += 1
    counters[f"shots_per_result.{len(spec['shots'])}"] += 1
    if not _ascii(spec):
        counters["results.nonascii_tag(oracle only)"] += 1
    for sh in spec["shots"]:
        counters["shots"] += 1
        counters["entries"] += len(sh)
        tg = _targets(sh)
        kinds: dict = {}
        for reg, k in tg:
            kinds.setdefault(reg, set()).add(k)
        counters["entries.indexed_tag"] += sum(1 for _, k in tg if k == "idx")
        counters["entries.indexed_tag_with_final_newline"] += sum(
            1 for (t, _), (_, k) in zip(sh, tg) if k == "idx" and t.endswith("\n")
        )
        if len({t for t, _ in sh}) < len(sh):
            counters["shots.repeated_tag"] += 1
        if any(len(k) == 2 for k in kinds.values()):
            counters["shots.whole_and_indexed_same_register"] += 1
        if any(type(x) is bool for _, v in sh for x in _flat(v)):
            counters["shots.with_bool"] += 1
        if any(isinstance(x, list) for _, v in sh if isinstance(v, list) for x in v):
            counters["shots.with_nested_list"] += 1
    try:
        i = obs.rindex(") (bitstrings ")
        j = obs.rindex(") (counts ")
        k = obs.rindex(") (collated ")
        counters["shots.to_register_bits.ok"] += obs.count("(shot (dict", 0, i)
        for name in ("ValueError", "Exception", "Unprintable"):
            c = obs.count(f"(shot {name} ", 0, i)
            if c:
                counters[f"shots.to_register_bits.{name}"] += c
        for (sn, sl), head in zip(FLAGS, _top_items(obs[i + len(") (bitstrings ") : j])):
            counters[f"register_bitstrings.names={int(sn)}.lengths={int(sl)}.{_outcome(head)}"] += 1
        counters["collated_counts." + _outcome(_top_items(obs[k + len(") (collated ") : -2])[0])] += 1
    except (ValueError, IndexError):
        counters["observation.unparsed"] += 1


def shrink(spec, pred):
    def ok(shots):
        return pred({"shots": shots})

    shots = ddmin(spec["shots"], ok) if len(spec["shots"]) > 1 else list(spec["shots"])
    for i in range(len(shots)):
        if len(shots[i]) > 1:
            shots[i] = ddmin(shots[i], lambda es: ok(shots[:i] + [es] + shots[i + 1 :]))
        if shots[i] and ok(shots[:i] + [[]] + shots[i + 1 :]):
            shots[i] = []
    # simplify values
    for i in range(len(shots)):
        for j in range(len(shots[i])):
            tag, val = shots[i][j]
            if isinstance(val, list) and len(val) > 1:
                def with_val(v, i=i, j=j, tag=tag):
                    sh = shots[i][:j] + [[tag, v]] + shots[i][j + 1 :]
                    return ok(shots[:i] + [sh] + shots[i + 1 :])
                shots[i][j] = [tag, ddmin(val, with_val)]
    return {"shots": shots}
