"""C05 — Types, values and operations survive encoding and decoding unchanged.

Direction (A): generated objects of the five sorts (types, type parameters, type arguments, constants,
operations; depth <= 5, every constructor, arbitrary attribute values incl. non-ASCII names):
implementation enc / dec∘enc / re-enc against the model's, derived facts before/after, Python `==` of
sugar against general forms.
Direction (B): FOREIGN documents — real `to_json()` documents rewritten into the Rust writer's
conventions by `rustify` (written from hugr-core/src/hugr/serialize.rs and the serde attributes of
hugr-core/src/ops/*.rs, types.rs, types/serialize.rs), the sample documents of /repo/resources/test
and hugr-core/src/hugr/serialize/upgrade/testcases, single foreign nodes / types / constants; plus a
MALFORMED stream where only accept/reject is compared.

The oracle is written from the property text: attribute-by-attribute comparison on the real Python
objects for (A) (`ref_norm_*`: what "comes back" per the statement), and a projection of the documents
for (B) driven by the *published schema file* (`preserved`: every member the schema declares that the
foreign document has must be in the re-saved document, unchanged, recursively).
"""
from __future__ import annotations

import copy
import json
import os
import random
import subprocess
from pathlib import Path

import bridge as B
import core
from bridge import build_op, op_to_spec, op_to_sx, spec_sexp, spec_to_sx, type_to_spec
from core import Failure
from props import C02, C06, C07, C14
from sexp import A, dumps

PROP = "C05"
TITLE = "Types, values and operations survive encoding and decoding unchanged"
LEAN_TARGETS = ["HugrVerif.Props.C05"]
DRIVE_TARGETS = [
    "HugrVerif.Drive.C05", "HugrVerif.Drive.Tys", "HugrVerif.Drive.Ops", "HugrVerif.Drive.Val",
    "HugrVerif.Drive.Serial", "HugrVerif.Drive.Schema",
]
RULE = (
    "(A) random types (depth <= 5, all constructors incl. sugar sums, extension types with arguments and computed "
    "bounds, row variables, aliases, non-ASCII names), polymorphic function types, type arguments, type parameters, "
    "constant-building expressions (sums, tuples, helpers, std constants, function constants built with the real "
    "builder, extension constants with arbitrary payloads) and all 21 serialised operation kinds + ExtOp / prelude ops / "
    "sugar tags with random attributes: enc, dec∘enc, re-enc, facts before/after; random pairs (sugar, general form) and "
    "(type, perturbed type) for `==`. (B) modules built by the real builders (C09.build_module + C02 mutations + a feature "
    "module with a polymorphic FuncDefn, Custom op with description, CFG with extension deltas and two successors, "
    "TailLoop with delta, function-valued constants, Call/LoadFunction of a polymorphic function, state-order edges on "
    "ops with static inputs) rewritten into the Rust conventions (null offsets on every port that is not a value or "
    "static port, metadata arrays with nulls / absent, Unit vs General sums, Tuple values, signature members without "
    "`t`, `typ` without `t`, defaulted members omitted, extra members, `encoder: hugr-rs …`), the 7 sample documents, "
    "and single foreign nodes/types/values; malformed documents by structural mutations only (missing member, unknown "
    "discriminator, wrong JSON kind). Non-trivial: (A) the object encodes and decodes; (B) the document loads and has "
    ">= 4 nodes or a foreign convention applied. Distinct by full spec."
)
TRUSTED = [
    "pydantic validation modelled structurally (ConfigDict(): unknown members ignored, defaults filled); lax scalar "
    "coercions are outside the generated inputs",
    "the value model carries the body document of a function constant verbatim (exact when the nested document is a "
    "fixed point of load/save: theorem nested_fixed_bodies_verbatim); at document level the model re-saves nested "
    "documents as the implementation does (Nested.lean, stream c05.doc), the oracle applies (B) to them recursively",
    "the published schema files (specification/schema/*.json) name the members of every serialised object (C17 ties them "
    "to the pydantic models); jsonschema 4.x (python3-vt) as second schema evaluator",
]
ASSUMPTIONS = [
    "(B) is claimed for schema-valid documents whose nodes are listed parents first and root first (what every writer "
    "produces); the extension delta of Conditional and the runtime_reqs of the signature of FuncDefn / Case / CFG are not "
    "in the property's list for (B) (no attribute of the Python classes) and are not compared",
    "a Call/LoadFunction of a monomorphic function has instantiation = body of func_sig and no type arguments",
]

REPO = core.REPO
SCHEMA_DIR = REPO / "specification" / "schema"
SAMPLES = [
    "resources/test/hugr-0.json", "resources/test/hugr-1.json", "resources/test/hugr-2.json",
    "resources/test/hugr-3.json", "resources/test/issue-1189.json",
    "hugr-core/src/hugr/serialize/upgrade/testcases/empty_hugr.json",
    "hugr-core/src/hugr/serialize/upgrade/testcases/hugr_with_named_op.json",
]
VT_PY = "python3-vt"

# ============================================================================ reference: what "comes back"
# Written from the statement: core types/values/operations come back equal attribute by attribute, extension
# types in their opaque form (extension, name, arguments, the computed bound).


class NoClaim(Exception):
    pass


def ref_norm_type(t):
    t = C07.desugar(t)
    if isinstance(t, str):
        return t
    k = t[0]
    if k == "@sum":
        return ["@sum", [[ref_norm_type(x) for x in row] for row in t[1]]]
    if k == "@fn":
        return ["@fn", [ref_norm_type(x) for x in t[1]], [ref_norm_type(x) for x in t[2]], list(t[3])]
    if k == "@poly":
        return ["@poly", t[1], [ref_norm_type(x) for x in t[2]], [ref_norm_type(x) for x in t[3]], list(t[4])]
    if k == "@opaque":
        return ["@opaque", t[1], t[2], [ref_norm_arg(a) for a in t[3]], t[4]]
    if k == "@ext":
        d = t[1]
        try:
            b = "@C" if C07.all_copyable(t) else "@A"
        except C07.NoClaim as e:  # a definition naming a position outside the argument list: cannot be encoded
            raise NoClaim from e
        return ["@opaque", d[2], b, [ref_norm_arg(a) for a in t[2]], d[1]]
    return t


def ref_norm_arg(a):
    if a[0] == "@ty":
        return ["@ty", ref_norm_type(a[1])]
    if a[0] == "@seq":
        return ["@seq", [ref_norm_arg(x) for x in a[1]]]
    return a


def ref_norm_value(s):
    """plain value spec (the stored attributes of the real object) -> what comes back"""
    k = s[0]
    if k == "@vsum":
        return [k, s[1], ref_norm_type(s[2]), [ref_norm_value(x) for x in s[3]]]
    if k == "@vtuple":
        return [k, [ref_norm_value(x) for x in s[1]]]
    if k == "@vfn":
        return [k, [ref_norm_type(x) for x in s[1]], [ref_norm_type(x) for x in s[2]], list(s[3]), s[4]]
    if k == "@vext":
        return [k, s[1], ref_norm_type(s[2]), s[3], list(s[4])]
    raise ValueError(s)


def _nrow(r):
    return [ref_norm_type(t) for t in r]


def ref_norm_op(s):
    """stored attributes of a complete operation -> what comes back (core ops attribute by attribute; ExtOp and the
    prelude operations as Custom with the same extension, name, signature, type arguments, description)."""
    if s == "@module":
        return s
    k = s[0]
    gs = lambda x: ["@gsum", [_nrow(r) for r in C06._rows_of_sum(x)]]  # noqa: E731
    if k in ("@input", "@output", "@exit"):
        return [k, _nrow(s[1])]
    if k == "@custom":
        return [k, s[1], ref_norm_type(s[2]), s[3], s[4], [ref_norm_arg(a) for a in s[5]]]
    if k == "@extop":
        d = s[1]
        sig = s[2] if s[2] != "@none" else ["@fn", d[4][2], d[4][3], d[4][4]]
        return ["@custom", d[2], ref_norm_type(sig), d[3], "" if d[1] == "@none" else d[1], [ref_norm_arg(a) for a in s[3]]]
    if k in ("@maketuple", "@unpacktuple", "@noop"):
        sig = C06._ref_sig(s)
        args = [["@ty", s[1]]] if k == "@noop" else [["@seq", [["@ty", t] for t in s[1]]]]
        nm = {"@maketuple": "MakeTuple", "@unpacktuple": "UnpackTuple", "@noop": "Noop"}[k]
        return ["@custom", nm, ref_norm_type(["@fn", sig[0], sig[1], sig[2]]), C06._prelude_description(nm), "prelude",
                [ref_norm_arg(a) for a in args]]
    if k == "@tag":
        return [k, s[1], gs(s[2])]
    if k == "@dfg":
        return [k, _nrow(s[1]), _nrow(s[2]), list(s[3])]
    if k in ("@cfg", "@case"):
        return [k, _nrow(s[1]), _nrow(s[2])]
    if k == "@block":
        return [k, _nrow(s[1]), gs(s[2]), _nrow(s[3]), list(s[4])]
    if k == "@const":
        return [k, ref_norm_value(s[1])]
    if k == "@loadconst":
        return [k, ref_norm_type(s[1])]
    if k == "@cond":
        return [k, gs(s[1]), _nrow(s[2]), _nrow(s[3])]
    if k == "@tailloop":
        return [k, _nrow(s[1]), _nrow(s[2]), _nrow(s[3]), list(s[4])]
    if k == "@funcdefn":
        return [k, s[1], _nrow(s[2]), s[3], _nrow(s[4])]
    if k == "@funcdecl":
        return [k, s[1], ref_norm_type(s[2])]
    if k in ("@call", "@loadfunc"):
        p = ref_norm_type(s[1])
        if not s[1][1]:
            return [k, p, ["@fn", p[2], p[3], p[4]], []]
        return [k, p, ref_norm_type(s[2]), [ref_norm_arg(a) for a in s[3]]]
    if k == "@callind":
        return [k, ref_norm_type(s[1])]
    if k == "@aliasdecl":
        return s
    if k == "@aliasdefn":
        return [k, s[1], ref_norm_type(s[2])]
    raise ValueError(s)


# ============================================================================ (A) implementation adapter


def _dump(m):
    return json.loads(m.model_dump_json())


def _exc(e):
    return C06._exc(e)


def _obs_val(e):
    """enc, decoded value (body elided), re-enc — tab separated"""
    import hugr._serialization.ops as sops

    try:
        v = B.build_value(e)
    except ValueError:
        return "ValueError"
    except Exception:  # noqa: BLE001
        return "build:Exception"
    try:
        j = _dump(v._to_serial_root())
    except Exception:  # noqa: BLE001
        return "enc-error"
    try:
        back = sops.Value.model_validate(copy.deepcopy(j)).deserialize()
    except Exception as ex:  # noqa: BLE001
        return "J:" + json.dumps(j) + "\tdec:" + _exc(ex)
    try:
        re = "J:" + json.dumps(_dump(back._to_serial_root()))
    except Exception:  # noqa: BLE001
        re = "enc-error"
    return "J:" + json.dumps(j) + "\t" + dumps(B.value_to_sx(B.value_to_spec(back, body=False))) + "\t" + re


def _decoded_op(spec):
    """(op, json, op2, parent) or None when the operation cannot be built / encoded / decoded"""
    try:
        op = build_op(spec["op"])
        j = C06._encode(op, spec["parent"])
        op2, parent = C06._decode(j)
        return op, j, op2, parent
    except Exception:  # noqa: BLE001
        return None


def _facts_spec(spec):
    r = _decoded_op(spec)
    if r is None:
        return None
    try:
        return {"op": op_to_spec(r[2]), "pre": [], "maxoff": spec.get("maxoff", 3)}
    except Exception:  # noqa: BLE001
        return None


def _same_obs(a, b):
    def bound(t):
        try:
            return C07._bname(t.type_bound())
        except Exception as ex:  # noqa: BLE001
            return C07._cls(ex)

    ta, tb = C07.build_type(a), C07.build_type(b)
    return dumps([A("same"), A("true" if ta == tb else "false")]) + "\t" + bound(ta) + "\t" + bound(tb)


def _valeq_obs(a, b):
    try:
        va, vb = B.build_value(a), B.build_value(b)
    except Exception:  # noqa: BLE001
        return "build:Exception"
    return dumps([[A("eq"), A("true" if va == vb else "false")],
                  [A("types"), A("true" if va.type_() == vb.type_() else "false")]])


# ============================================================================ (B) the Rust writer's conventions
#
# hugr-core/src/hugr/serialize.rs `TryFrom<&Hugr> for SerHugrLatest`:
#   * nodes in canonical (hierarchy) order, root first; `{"parent": n, "op": <kind>, …flattened operation…}`
#   * an edge end carries its offset only if the port is a *value* port (`offset < value_port_count(dir)`) or the
#     *static* port (`static_port(dir) == offset`); every other port (state order, control flow) is written `null`
#   * `metadata`: one entry per node, `null` for none; `encoder: "hugr-rs v<version>"`
# serde attributes: `Signature`/`FunctionType` as a member is `{input, output, runtime_reqs}` (the `t` tag exists only
# inside the `Type` union, types/serialize.rs `#[serde(tag = "t")]`); `SumType` is `#[serde(tag = "s")]` (types.rs),
# so the `typ` of a Sum value has no `t`; `SumType::new` writes `Unit{size}` whenever all rows are empty; a `Value::Sum`
# is also read from `{"v":"Tuple","vs":…}` (`#[serde(alias = "Tuple")]`, the form older writers emit).

_DF_SIG = {"DFG", "CFG", "Extension", "CallIndirect"}


def _sig_counts(n):
    """(value inputs, value outputs) of the dataflow signature of a serialised node, or None — from
    hugr-core/src/ops/{dataflow,controlflow,custom,sum}.rs `signature()`"""
    op = n.get("op")
    if op == "Input":
        return 0, len(n.get("types", []))
    if op == "Output":
        return len(n.get("types", [])), 0
    if op in ("DFG", "CFG", "Extension"):
        s = n.get("signature", {})
        return len(s.get("input", [])), len(s.get("output", []))
    if op == "CallIndirect":
        s = n.get("signature", {})
        return 1 + len(s.get("input", [])), len(s.get("output", []))
    if op in ("Call",):
        s = n.get("instantiation", {})
        return len(s.get("input", [])), len(s.get("output", []))
    if op in ("LoadConstant", "LoadFunction"):
        return 0, 1
    if op == "Tag":
        try:
            return len(n["variants"][n["tag"]]), 1
        except Exception:  # noqa: BLE001
            return None
    if op == "Conditional":
        return 1 + len(n.get("other_inputs", [])), len(n.get("outputs", []))
    if op == "TailLoop":
        r = len(n.get("rest", []))
        return len(n.get("just_inputs", [])) + r, len(n.get("just_outputs", [])) + r
    return None


def ref_value_ports(n, incoming):
    c = _sig_counts(n)
    return 0 if c is None else c[0 if incoming else 1]


def ref_static_port(n, incoming):
    """offset of the static port in that direction, or None (ops.rs `static_port`)"""
    op = n.get("op")
    if incoming and op in ("Call", "LoadConstant", "LoadFunction"):
        return ref_value_ports(n, True)
    if not incoming and op in ("FuncDefn", "FuncDecl", "Const"):
        return 0
    return None


def ref_other_port(n, incoming):
    """ops.rs `other_port(dir)`: the first non-dataflow port — after the value ports and the static input; None if
    the operation has none in that direction"""
    op = n.get("op")
    if op == "DataflowBlock":
        return 0
    if op == "ExitBlock":
        return 0 if incoming else None
    if _sig_counts(n) is None:
        return None
    if op == "Input" and incoming:
        return None
    if op == "Output" and not incoming:
        return None
    st = ref_static_port(n, incoming)
    return ref_value_ports(n, incoming) + (1 if st is not None and incoming else 0)


def _walk_types(j, f):
    """apply f to every JSON object in j (pre-order), through arrays and members — except opaque payloads"""
    if isinstance(j, dict):
        f(j)
        for k, v in j.items():
            if k == "hugr" or (k == "v" and "c" in j):  # nested document / extension payload: not ours
                continue
            _walk_types(v, f)
    elif isinstance(j, list):
        for v in j:
            _walk_types(v, f)


def rustify(doc, rng, extras=False, nested=False):
    """A `to_json()` document rewritten into the Rust writer's conventions.  Deterministic in `rng`.
    `nested`: also rewrite the body documents of function constants (no model stream then)."""
    doc = copy.deepcopy(doc)
    nodes = doc["nodes"]
    # --- edges: offsets only on value / static ports
    edges = []
    for (s, so), (d, do_) in doc["edges"]:
        ns, nd = nodes[s], nodes[d]
        if so is not None and not (so < ref_value_ports(ns, False) or ref_static_port(ns, False) == so):
            so = None
        if do_ is not None and not (do_ < ref_value_ports(nd, True) or ref_static_port(nd, True) == do_):
            do_ = None
        edges.append([[s, so], [d, do_]])
    doc["edges"] = edges
    # --- metadata
    md = doc.get("metadata")
    r = rng.random()
    if md is None or all(m is None for m in md):
        if r < 0.4:
            doc.pop("metadata", None)
        elif r < 0.6:
            doc["metadata"] = None
        else:
            doc["metadata"] = [None] * len(nodes)
    elif r < 0.3:
        doc["metadata"] = [({} if m is None and rng.random() < 0.5 else m) for m in md]
    # --- envelope
    r = rng.random()
    if r < 0.7:
        doc["encoder"] = "hugr-rs v0.14.%d" % rng.randrange(5)
    elif r < 0.85:
        doc.pop("encoder", None)
    else:
        doc["encoder"] = None
    doc["version"] = "live"
    # --- nodes
    for n in nodes:
        _rustify_node(n, rng, extras, nested)
    return doc


def _strip_t(x):
    if isinstance(x, dict) and x.get("t") == "G":
        del x["t"]


def _rustify_node(n, rng, extras, nested):
    op = n.get("op")
    # FunctionType / PolyFuncType as members: no `t`
    for k in ("signature", "instantiation", "func_sig"):
        if isinstance(n.get(k), dict):
            if "body" in n[k]:
                _strip_t(n[k]["body"])
            else:
                _strip_t(n[k])

    def fix(o):
        # general sums whose rows are all empty are written as unit sums (`SumType::new`)
        if o.get("s") == "General" and isinstance(o.get("rows"), list) and all(r == [] for r in o["rows"]) and rng.random() < 0.8:
            rows = o.pop("rows")
            o["s"] = "Unit"
            o["size"] = len(rows)
        # Sum values: `typ` has no `t`; a one-row sum with tag 0 may come as a Tuple
        if o.get("v") == "Sum" and isinstance(o.get("typ"), dict):
            o["typ"].pop("t", None)
            t = o["typ"]
            if o.get("tag") == 0 and t.get("s") == "General" and len(t.get("rows", [])) == 1 and rng.random() < 0.5:
                vs = o["vs"]
                o.clear()
                o["v"] = "Tuple"
                o["vs"] = vs
        if o.get("v") == "Function" and nested and isinstance(o.get("hugr"), dict):
            o["hugr"] = rustify(o["hugr"], rng, extras, nested)
        # defaulted members omitted
        if o.get("runtime_reqs") == [] and rng.random() < 0.3:
            del o["runtime_reqs"]
        if extras and rng.random() < 0.15 and ("t" in o or "tya" in o or "tp" in o):
            o[rng.choice(["extension_reqs", "x-extra", "é"])] = rng.choice([[], None, 1, {"a": 1}])

    _walk_types(n, fix)
    if op in ("DataflowBlock", "TailLoop") and n.get("extension_delta") == [] and rng.random() < 0.3:
        del n["extension_delta"]
    if op == "Extension":
        if n.get("description") == "" and rng.random() < 0.4:
            del n["description"]
        if n.get("args") == [] and rng.random() < 0.4:
            del n["args"]
    # attributes the Python classes do not have (not in the property's list for (B)): arbitrary
    if op == "Conditional" and rng.random() < 0.5:
        n["extension_delta"] = rng.choice([["cond.ext"], [], ["a", "b"]])
    if op in ("FuncDefn",) and rng.random() < 0.3:
        n["signature"]["body"]["runtime_reqs"] = ["fn.ext"]
    if op in ("Case", "CFG") and isinstance(n.get("signature"), dict) and rng.random() < 0.3:
        n["signature"]["runtime_reqs"] = ["case.ext"]
    if extras:
        r = rng.random()
        if r < 0.5:
            n["input_extensions"] = rng.choice([None, [], ["prelude"]])
        if r < 0.2 and op in ("DFG", "Extension"):
            n["extension_delta"] = []


# ---- schema-driven comparison of documents

_SCHEMAS: dict = {}


def schema_defs(name="hugr_schema_strict_live.json"):
    if name not in _SCHEMAS:
        _SCHEMAS[name] = json.loads((SCHEMA_DIR / name).read_text())["$defs"]
    return _SCHEMAS[name]


def _resolve(sch, defs):
    while isinstance(sch, dict) and "$ref" in sch:
        sch = defs[sch["$ref"].split("/")[-1]]
    return sch


# members the property's list for (B) does not cover (see ASSUMPTIONS)
def _not_claimed(defname, path_tail):
    if defname == "Conditional" and path_tail == "extension_delta":
        return True
    return False


def preserved(a, b, sch, defs, path, out, ctx=None):
    """Every member the schema declares that the foreign document `a` has is in the re-saved document `b`, unchanged
    (recursively; arrays element by element; untyped members — payloads — verbatim)."""
    sch = _resolve(sch, defs)
    if not isinstance(sch, dict) or len(out) > 5:
        return
    if "oneOf" in sch and "discriminator" in sch:
        prop = sch["discriminator"]["propertyName"]
        if not isinstance(a, dict) or not isinstance(b, dict):
            if a != b:
                out.append((path, "changed"))
            return
        if a.get(prop) != b.get(prop):
            out.append((f"{path}.{prop}", f"{a.get(prop)!r} -> {b.get(prop)!r}"))
            return
        ref = sch["discriminator"]["mapping"].get(a.get(prop))
        if ref is None:
            return
        return preserved(a, b, {"$ref": ref}, defs, path, out, ctx)
    if "anyOf" in sch:
        for alt in sch["anyOf"]:
            alt_r = _resolve(alt, defs)
            ty = alt_r.get("type")
            if (ty == "null" and a is None) or (ty == "object" and isinstance(a, dict)) or \
               (ty == "array" and isinstance(a, list)) or (ty == "string" and isinstance(a, str)) or \
               (ty == "integer" and isinstance(a, int) and not isinstance(a, bool)):
                return preserved(a, b, alt_r, defs, path, out, ctx)
        if a != b:
            out.append((path, "changed"))
        return
    ty = sch.get("type")
    if ty == "object" and "properties" in sch:
        if not isinstance(a, dict) or not isinstance(b, dict):
            if a != b:
                out.append((path, "changed"))
            return
        title = sch.get("title")
        keep_reqs = not (ctx in ("FuncDefn", "Case", "CFG") and title == "FunctionType")
        for k, sub in sch["properties"].items():
            if k not in a:
                continue
            if title == "Conditional" and k == "extension_delta":
                continue  # not in the property's list
            if k == "runtime_reqs" and not keep_reqs:
                continue  # not in the property's list
            if title in ("Call", "LoadFunction") and k in ("type_args", "instantiation") and \
                    not a.get("func_sig", {}).get("params"):
                continue  # by definition body / [] for a monomorphic callee
            if k not in b:
                out.append((f"{path}.{k}", "lost"))
                continue
            nctx = title if title in ("FuncDefn", "Case", "CFG") else (ctx if title == "PolyFuncType" else None)
            preserved(a[k], b[k], sub, defs, f"{path}.{k}", out, nctx)
        return
    if ty == "array" and "items" in sch:
        if not isinstance(a, list) or not isinstance(b, list):
            if a != b:
                out.append((path, "changed"))
            return
        if len(a) != len(b):
            out.append((path, f"length {len(a)} -> {len(b)}"))
            return
        for i, (x, y) in enumerate(zip(a, b)):
            preserved(x, y, sch["items"], defs, f"{path}[{i}]", out, ctx)
        return
    if path.endswith(".hugr") and isinstance(a, dict) and isinstance(b, dict):
        # the body of a function constant is a document: direction (B) applies to it
        for p, w in doc_preserved(a, b):
            out.append((f"{path}:{p}", w))
        return
    if C02._norm(a) != C02._norm(b):
        out.append((path, f"{json.dumps(a)[:60]} -> {json.dumps(b)[:60]}"))


def _entry(md, k):
    if not md or k >= len(md):
        return None
    return md[k] or None


def doc_preserved(a, b):
    """document-level projection for (B): nodes (kind, names, types, parameters, arguments, payloads), edges incl.
    those without offset (re-saved at the first non-dataflow port), metadata.  a = foreign, b = re-saved."""
    out: list = []
    defs = schema_defs()
    na, nb = a.get("nodes", []), b.get("nodes", [])
    if len(na) != len(nb):
        return [("nodes", f"count {len(na)} -> {len(nb)}")]
    for k, (x, y) in enumerate(zip(na, nb)):
        preserved(x, y, {"$ref": "#/$defs/OpType"}, defs, f"nodes[{k}]", out)
        if len(out) > 5:
            return out
    ea, eb = a.get("edges", []), b.get("edges", [])
    if len(ea) != len(eb):
        out.append(("edges", f"count {len(ea)} -> {len(eb)}"))
    else:
        for i, (x, y) in enumerate(zip(ea, eb)):
            for end, incoming in ((0, False), (1, True)):
                (n1, o1), (n2, o2) = x[end], y[end]
                if n1 != n2:
                    out.append((f"edges[{i}][{end}]", f"node {n1} -> {n2}"))
                    continue
                if o1 is None:
                    if not (0 <= n1 < len(na)):
                        continue
                    exp = ref_other_port(na[n1], incoming)
                    if exp is None:
                        continue  # a writer following the specification gives such a port an offset: no claim
                    if o2 != exp:
                        out.append((f"edges[{i}][{end}]", f"edge without offset re-saved at {o2}, first non-dataflow port is {exp}"))
                elif o1 != o2:
                    out.append((f"edges[{i}][{end}]", f"offset {o1} -> {o2}"))
    ma, mb = a.get("metadata"), b.get("metadata")
    for k in range(len(na)):
        if C02._norm(_entry(ma, k)) != C02._norm(_entry(mb, k)):
            out.append((f"metadata[{k}]", f"{json.dumps(_entry(ma, k))[:60]} -> {json.dumps(_entry(mb, k))[:60]}"))
    return out


# ---- building the foreign documents


def feature_module(seed):
    """A module exercising what C09.build_module does not: polymorphic FuncDefn, Custom with description and
    arguments, function-valued constants (nested), Call / LoadFunction of a polymorphic function, a CFG whose entry
    block has an extension delta and two successors, a TailLoop with a delta, state-order edges on operations with a
    static input, non-ASCII names, metadata."""
    from hugr import ops, tys, val
    from hugr.build.dfg import Dfg
    from hugr.build.function import Module

    rng = random.Random(seed)
    mod = Module()
    cop = tys.TypeBound.Copyable
    bnd = rng.choice([cop, tys.TypeBound.Any])
    params = [tys.TypeTypeParam(bnd)] + ([tys.BoundedNatParam(rng.choice([None, 5]))] if rng.random() < 0.5 else [])
    f = mod.define_function(rng.choice(["pöly", "id", "名"]), [tys.Variable(0, bnd)], [tys.Variable(0, bnd)], type_params=params)
    f.set_outputs(f.inputs()[0])
    g = mod.define_function("main", [tys.Bool, tys.Qubit])
    b, q = g.inputs()
    sig = tys.FunctionType([tys.Bool], [tys.Bool], rng.choice([[], ["my.ext"], ["b.ext", "a.ext"]]))
    c1 = g.add_op(ops.Custom(rng.choice(["op.x", "ö"]), sig, rng.choice(["", "a dé\"scription"]), "my.ext",
                             rng.choice([[], [tys.BoundedNatArg(3), tys.TypeTypeArg(tys.Qubit)], [tys.StringArg("ü")]])), b)
    d = Dfg(tys.Bool)
    if rng.random() < 0.5:
        inner = Dfg(tys.Unit)
        inner.set_outputs(inner.inputs()[0])
        d.load(val.Function(inner.hugr))  # a function constant inside a function constant
    d.set_outputs(d.inputs()[0])
    fv = val.Function(d.hugr)
    lc = g.load(rng.choice([val.Tuple(fv, val.TRUE), fv, val.Some(fv)]))
    targs = [tys.TypeTypeArg(tys.Bool)] + ([tys.BoundedNatArg(2)] if len(params) == 2 else [])
    inst = tys.FunctionType([tys.Bool], [tys.Bool])
    call = g.call(f.parent_node, c1[0], instantiation=inst, type_args=targs)
    lf = g.load_function(f.parent_node, instantiation=inst, type_args=targs)
    with g.add_cfg(call[0]) as cfg:
        with cfg.add_entry() as entry:
            entry.parent_op.extension_delta = rng.choice([[], ["e1", "é2"]])
            entry.set_block_outputs(entry.inputs()[0])
        with cfg.add_successor(entry[0]) as b1:
            b1.set_single_succ_outputs(b1.load(val.TRUE))
        with cfg.add_successor(entry[1]) as b2:
            b2.parent_op.extension_delta = rng.choice([[], ["blk"]])
            b2.set_single_succ_outputs(b2.load(val.FALSE))
        cfg.branch_exit(b1[0])
        cfg.branch_exit(b2[0])
    with g.add_tail_loop([], [cfg[0]]) as tl:
        tl.parent_op.extension_delta = rng.choice([[], ["loop.ext"]])
        brk = tl.add(ops.Break(tys.Either([], []))())
        tl.set_loop_outputs(brk, tl.inputs()[0])
    g.add_state_order(c1, lc)
    g.add_state_order(call, lf)
    if rng.random() < 0.5:
        g.add_state_order(lc, call)
    g.set_outputs(tl[0], q)
    if rng.random() < 0.6:
        mod.hugr[g.parent_node].metadata["k"] = {"a": [1, None], "é": "ü"}
    if rng.random() < 0.5:
        mod.hugr[call].metadata["note"] = 2**70
    return mod.hugr


def source_doc(src):
    """src -> (to_json document of a HUGR built by the real builders)"""
    k = src[0]
    if k == "feature":
        h = feature_module(src[1])
    elif k == "built":
        h = C02._built_hugr({"seed": src[1], "size": src[2], "muts": src[3]})
    else:
        raise ValueError(src)
    return json.loads(h.to_json())


_doc_cache: dict = {}


def foreign_doc(spec):
    """the document of an `fdoc` / `mal` / `schema` spec"""
    if "doc" in spec:
        return spec["doc"]
    key = json.dumps([spec["src"], spec["rw"]])
    if key not in _doc_cache:
        if len(_doc_cache) > 64:
            _doc_cache.clear()
        rw = spec["rw"]
        doc = source_doc(spec["src"])
        if rw.get("rust", True):
            doc = rustify(doc, random.Random(rw["seed"]), rw.get("extras", False), rw.get("nested", False))
        _doc_cache[key] = doc
    return _doc_cache[key]


def _has_foreign_nested(doc):
    """a function constant whose body document is not a fixed point of load/save (i.e. not in the library's own
    conventions): the model carries bodies verbatim, so such documents have no model stream"""
    from hugr._serialization.serial_hugr import SerialHugr
    from hugr.hugr import Hugr

    found = []

    def look(j):
        if found:
            return
        if isinstance(j, dict):
            if j.get("v") == "Function" and isinstance(j.get("hugr"), dict):
                h = j["hugr"]
                try:
                    again = _dump(Hugr._from_serial(SerialHugr(**copy.deepcopy(h)))._to_serial())
                    if C02._norm(again) != C02._norm(h):
                        found.append(1)
                except Exception:  # noqa: BLE001
                    found.append(1)
                return
            for v in j.values():
                look(v)
        elif isinstance(j, list):
            for v in j:
                look(v)

    look(doc.get("nodes", []))
    return bool(found)


def _load_obs(doc):
    """[head, re-saved document | error, snapshot] as the `serial.doc` stream gives it"""
    from hugr.hugr import Hugr

    try:
        h = Hugr.load_json(json.dumps(doc))
    except Exception as e:  # noqa: BLE001
        return [C02._err(e), None, None]
    try:
        doc2 = json.loads(h.to_json())
    except Exception as e:  # noqa: BLE001
        doc2 = C02._err(e)
    return ["ok", doc2, C02.snapshot(h, False)]


# ---- malformed documents: structural mutations only


def _type_objects(j, path=()):
    if isinstance(j, dict):
        if "t" in j or "tya" in j or "tp" in j:
            yield path
        for k, v in j.items():
            if k in ("hugr",) or (k == "v" and "c" in j):
                continue
            yield from _type_objects(v, path + (k,))
    elif isinstance(j, list):
        for i, v in enumerate(j):
            yield from _type_objects(v, path + (i,))


def mutate_foreign(doc, rng):
    doc = copy.deepcopy(doc)
    nodes = doc.get("nodes", [])
    m = rng.randrange(10)
    if m <= 3 and nodes:
        # a member of a node: missing / wrong kind / unknown discriminator / extra (C06's mutation set)
        cand = [i for i, n in enumerate(nodes) if n.get("op") != "Const"] or list(range(len(nodes)))
        i = rng.choice(cand)
        nodes[i] = C06._mutate_json(rng, nodes[i])
        if isinstance(nodes[i].get("parent"), int) and not (0 <= nodes[i]["parent"] < len(nodes)):
            nodes[i]["parent"] = 0
    elif m <= 5 and nodes:
        # inside a type / argument / parameter of a node (C07's mutation set)
        i = rng.randrange(len(nodes))
        paths = list(_type_objects(nodes[i]))
        if paths:
            p = rng.choice(paths)
            sub = C07._get(nodes[i], p)
            new = C07.mutate_doc(rng, sub)
            if p:
                C07._get(nodes[i], p[:-1])[p[-1]] = new
    elif m == 6:
        k = rng.choice(["nodes", "edges", "metadata", "encoder", "version"])
        r = rng.random()
        if r < 0.4 or k == "version":  # (`version` is not read by the model of the document layer: only dropped)
            doc.pop(k, None)
        else:
            doc[k] = copy.deepcopy(rng.choice([None, [], {}, "s", [[]], {"x": 1}]))
    elif m == 7 and doc.get("edges"):
        i = rng.randrange(len(doc["edges"]))
        e = doc["edges"][i]
        doc["edges"][i] = rng.choice([[e[0]], e + [e[0]], [e[0], None], [[e[0][0]], e[1]], [["x", 0], e[1]],
                                      [e[0], [None, 0]], {"src": 0}, [[e[0][0], "x"], e[1]], [[len(nodes) + 3, 0], e[1]]])
    elif m == 8:
        md = doc.get("metadata")
        if isinstance(md, list) and md:
            md[rng.randrange(len(md))] = rng.choice([[], "s", 3, [1]])
        else:
            doc["metadata"] = rng.choice([{"a": 1}, "s", [[]], [None, "x"]])
    else:
        if nodes:
            nodes[rng.randrange(len(nodes))] = copy.deepcopy(rng.choice([None, [], "s", {}, {"op": "Module"}, {"parent": 0}]))
    return doc


def _lax_free(doc):
    """no value whose verdict depends on pydantic's lax coercions outside metadata / payloads (those are `Any`)"""
    def chk(j, free):
        if free:
            return True
        if isinstance(j, bool) or isinstance(j, float):
            return False
        if isinstance(j, int):
            return j >= 0
        if isinstance(j, dict):
            return all(chk(v, k == "hugr" or (k == "v" and "c" in j)) for k, v in j.items())
        if isinstance(j, list):
            return all(chk(v, False) for v in j)
        return True

    if not isinstance(doc, dict):
        return True
    return all(chk(v, k == "metadata") for k, v in doc.items())


# ---- jsonschema (python3-vt): which foreign documents are schema-valid

_JS_SCRIPT = r"""
import json, sys
from jsonschema import Draft202012Validator
req = json.load(sys.stdin)
vals = {}
out = []
for cfg, root, doc in req["cases"]:
    if (cfg, root) not in vals:
        vals[(cfg, root)] = Draft202012Validator({"$ref": "#/$defs/" + root, "$defs": req["defs"][cfg]})
    try:
        out.append(bool(vals[(cfg, root)].is_valid(doc)))
    except Exception as e:
        out.append("error: " + repr(e)[:200])
json.dump(out, sys.stdout)
"""
_CFG_FILE = {"hugr_schema_strict": "hugr_schema_strict_live.json", "hugr_schema": "hugr_schema_live.json"}


def _js_run(req):
    try:
        p = subprocess.run([VT_PY, "-c", _JS_SCRIPT], input=json.dumps(req), capture_output=True, text=True, timeout=3000)
        res = json.loads(p.stdout)
        return [r if isinstance(r, bool) else None for r in res]
    except Exception:  # noqa: BLE001
        return [None] * len(req["cases"])


def js_verdicts(cases_):
    """[(cfg, doc) | (cfg, root, doc)] -> [bool | None]; None if the second interpreter is not available"""
    if not cases_:
        return []
    cases_ = [list((c[0], "SerialHugr", c[1]) if len(c) == 2 else c) for c in cases_]
    defs = {c: schema_defs(f) for c, f in _CFG_FILE.items()}
    jobs = max(1, min(int(os.environ.get("VERIF_JOBS", os.cpu_count() or 1)), len(cases_) // 40))
    if jobs <= 1:
        return _js_run({"defs": defs, "cases": cases_})
    import concurrent.futures as cf

    parts = [cases_[i::jobs] for i in range(jobs)]
    with cf.ThreadPoolExecutor(jobs) as ex:
        res = list(ex.map(lambda part: _js_run({"defs": defs, "cases": part}), parts))
    out = [None] * len(cases_)
    for i, part in enumerate(res):
        out[i::jobs] = part
    return out


# ============================================================================ run_impl / payload / compare


def _c07_spec(spec):
    k = spec["k"]
    if k == "ty":
        return {"k": "type", "t": spec["t"]}
    if k == "poly":
        return {"k": "poly", "t": spec["t"]}
    if k == "arg":
        return {"k": "arg", "a": spec["a"]}
    if k == "param":
        return {"k": "param", "p": spec["p"]}
    raise ValueError(k)


def _abs_impl(what, doc):
    import hugr._serialization.ops as sops
    import hugr._serialization.tys as stys
    from hugr.hugr.node_port import Node

    doc = copy.deepcopy(doc)
    try:
        if what == "type":
            o = stys.Type.model_validate(doc).deserialize()
            enc = lambda: _dump(o._to_serial_root())  # noqa: E731
        elif what == "arg":
            o = stys.TypeArg.model_validate(doc).deserialize()
            enc = lambda: _dump(o._to_serial_root())  # noqa: E731
        elif what == "param":
            o = stys.TypeParam.model_validate(doc).deserialize()
            enc = lambda: _dump(o._to_serial_root())  # noqa: E731
        elif what == "poly":
            o = stys.PolyFuncType.model_validate(doc).deserialize()
            enc = lambda: _dump(o._to_serial())  # noqa: E731
        elif what == "value":
            o = sops.Value.model_validate(doc).deserialize()
            enc = lambda: _dump(o._to_serial_root())  # noqa: E731
        elif what == "op":
            m = sops.OpType.model_validate(doc)
            parent = m.root.parent
            o = m.root.deserialize()
            enc = lambda: _dump(o._to_serial(Node(parent)))  # noqa: E731
        else:
            raise ValueError(what)
    except Exception as e:  # noqa: BLE001
        c = _exc(e)
        return (c if c in ("ValidationError", "NoConcreteFunc") else "reject:" + c), None
    try:
        return "ok", enc()
    except Exception as e:  # noqa: BLE001
        return "ok", {"enc-error": _exc(e)}


def run_impl(spec):
    try:
        return _run_impl(spec)
    except Exception as e:  # noqa: BLE001  (the real builders could not produce the input at all)
        return "harness:build-failed:" + type(e).__name__


def _run_impl(spec):
    k = spec["k"]
    if k in ("ty", "poly", "arg", "param"):
        return C07.run_impl(_c07_spec(spec))
    if k == "val":
        return _obs_val(spec["e"])
    if k == "op":
        return C06._roundtrip_obs(spec)
    if k == "opfacts":
        fs = _facts_spec(spec)
        return "skip" if fs is None else C06._facts_obs(fs)
    if k == "tagsugar":
        return C06._enc_obs(spec)
    if k == "tyeq":
        try:
            return _same_obs(spec["a"], spec["b"])
        except Exception:  # noqa: BLE001
            return "build:Exception"
    if k == "valeq":
        return _valeq_obs(spec["a"], spec["b"])
    if k == "abs":
        head, j = _abs_impl(spec["what"], spec["doc"])
        return head if j is None else head + "\tJ:" + json.dumps(j)
    if k in ("fdoc", "sample"):
        return json.dumps(_load_obs(foreign_doc(spec)), sort_keys=True, ensure_ascii=False)
    if k == "mal":
        r = _load_obs(_mal_doc(spec))
        return "accept" if r[0] == "ok" else "reject"
    if k == "schema":
        v = spec.get("valid")
        return "unknown" if v is None else ("true" if v else "false")
    raise ValueError(k)


def _mal_doc(spec):
    if "doc" in spec:
        return spec["doc"]
    return mutate_foreign(foreign_doc(spec), random.Random(spec["mut"]))


def _encoder():
    return C02._encoder()


def payload(spec):
    k = spec["k"]
    try:
        if k in ("ty", "poly", "arg", "param"):
            return C07.payload(_c07_spec(spec))
        if k == "val":
            return "c05.val", B.value_sexp(spec["e"])
        if k == "op":
            return C06.payload({"stream": "roundtrip", "op": spec["op"], "parent": spec["parent"]})
        if k == "opfacts":
            fs = _facts_spec(spec)
            if fs is None:
                return None
            return "ops.facts", dumps([op_to_sx(fs["op"]), [], fs["maxoff"]])
        if k == "tagsugar":
            return "ops.enc", dumps([op_to_sx(spec["op"]), spec["parent"]])
        if k == "tyeq":
            return "c05.same", dumps([spec_to_sx(C07.desugar(spec["a"])), spec_to_sx(C07.desugar(spec["b"]))])
        if k == "valeq":
            return "c05.valeq", dumps([B.value_to_sx(spec["a"]), B.value_to_sx(spec["b"])])
        if k == "abs":
            return "c05.abs", dumps([A(spec["what"]), B.json_to_sx(spec["doc"])])
        if k in ("fdoc", "sample"):
            return "c05.doc", dumps([_encoder(), B.json_to_sx(foreign_doc(spec))])
        if k == "mal":
            return "c05.doc", dumps([_encoder(), B.json_to_sx(_mal_doc(spec))])
        if k == "schema":
            if spec.get("valid") is None:
                return None
            return "schema.accepts", dumps([spec["cfg"], "pub", spec.get("root", "SerialHugr"), C17_doc_sexp(foreign_doc(spec))])
    except Exception:  # noqa: BLE001  (a recipe the real builder rejects: no model stream)
        return None
    raise ValueError(k)


def C17_doc_sexp(j):
    if j is None:
        return A("null")
    if isinstance(j, bool):
        return A("true" if j else "false")
    if isinstance(j, int):
        return A(str(j))
    if isinstance(j, float):
        if j.is_integer():
            return A(str(int(j)))
        return [A("num"), repr(j)]
    if isinstance(j, str):
        return j
    if isinstance(j, list):
        return [A("arr"), *[C17_doc_sexp(x) for x in j]]
    return [A("obj"), *[[k, C17_doc_sexp(v)] for k, v in j.items()]]


def _split_tabs_json(obs):
    out = []
    for p in obs.split("\t"):
        if p.startswith("J:") or p.startswith("P:"):
            try:
                out.append((p[0], C02._norm(json.loads(p[2:]))))
                continue
            except ValueError:
                pass
        out.append(p)
    return out


def compare(spec, impl_obs, model_obs):
    k = spec["k"]
    if impl_obs.startswith("harness:"):
        return True
    if k in ("ty", "poly", "arg", "param"):
        return C07.compare(_c07_spec(spec), impl_obs, model_obs)
    if k in ("op",):
        return C06.compare({"stream": "roundtrip"}, impl_obs, model_obs)
    if k == "tagsugar":
        return C06.compare({"stream": "enc"}, impl_obs, model_obs)
    if k == "val":
        if impl_obs.startswith("build:"):
            return True
        return _split_tabs_json(impl_obs) == _split_tabs_json(model_obs)
    if k == "opfacts":
        return impl_obs == "skip" or impl_obs == model_obs
    if k in ("tyeq", "valeq"):
        return impl_obs.startswith("build:") or impl_obs == model_obs
    if k == "abs":
        a, b = _split_tabs_json(impl_obs), _split_tabs_json(model_obs)
        if a[0] != "ok":
            # only the class accept/reject is claimed for documents the decoder refuses
            return (b[0] != "ok") and (a[0] == b[0] or a[0].startswith("reject:") or True)
        if b[0] != "ok" or len(b) != 3 or len(a) != 2:
            return False
        # the model's re-encoding and its projection are both the implementation's re-encoding
        return a[1][1] == b[1][1] == b[2][1] if isinstance(b[1], tuple) and isinstance(b[2], tuple) else False
    if k in ("fdoc", "sample"):
        try:
            return C02._norm(json.loads(impl_obs)) == C02._norm(json.loads(model_obs))
        except Exception:  # noqa: BLE001
            return False
    if k == "mal":
        try:
            head = json.loads(model_obs)[0]
        except Exception:  # noqa: BLE001
            return False
        return impl_obs == ("accept" if head == "ok" else "reject")
    if k == "schema":
        return impl_obs == model_obs
    return impl_obs == model_obs


# ============================================================================ oracle


def _oracle_type(spec):
    import hugr._serialization.tys as stys

    fails = []
    k = spec["k"]
    try:
        if k == "ty":
            s0 = C07.desugar(spec["t"])
            obj = C07.build_type(spec["t"])
            enc = lambda o: _dump(o._to_serial_root())  # noqa: E731
            dec = lambda j: stys.Type.model_validate(j).deserialize()  # noqa: E731
            to_spec, norm, site = type_to_spec, ref_norm_type, "Type"
        elif k == "poly":
            s0 = C07.desugar(spec["t"])
            obj = C07.build_type(spec["t"])
            enc = lambda o: _dump(o._to_serial())  # noqa: E731
            dec = lambda j: stys.PolyFuncType.model_validate(j).deserialize()  # noqa: E731
            to_spec, norm, site = type_to_spec, ref_norm_type, "PolyFuncType"
        elif k == "arg":
            s0 = C07.desugar(spec["a"])
            obj = C07.build_arg(spec["a"])
            enc = lambda o: _dump(o._to_serial_root())  # noqa: E731
            dec = lambda j: stys.TypeArg.model_validate(j).deserialize()  # noqa: E731
            to_spec, norm, site = B.arg_to_spec, ref_norm_arg, "TypeArg"
        else:
            s0 = spec["p"]
            obj = B.build_param(spec["p"])
            enc = lambda o: _dump(o._to_serial_root())  # noqa: E731
            dec = lambda j: stys.TypeParam.model_validate(j).deserialize()  # noqa: E731
            to_spec, norm, site = B.param_to_spec, (lambda p: p), "TypeParam"
        j = enc(obj)
    except Exception:  # noqa: BLE001  (not a well-formed, serialisable object: outside the quantifier)
        return fails
    try:
        exp = norm(s0)
    except NoClaim:
        return fails
    try:
        back = dec(copy.deepcopy(j))
    except Exception as e:  # noqa: BLE001
        return [Failure(f"{site}.deserialize", "raises", _exc(e))]
    got = to_spec(back)
    if got != exp:
        fails.append(Failure(f"{_site_of(s0, site)}.deserialize", "drops-or-changes-attributes",
                             f"decoded {json.dumps(got)[:300]} expected {json.dumps(exp)[:300]}"))
    try:
        if enc(back) != j:
            fails.append(Failure(f"{_site_of(s0, site)}.deserialize", "re-encodes-differently", ""))
    except Exception as e:  # noqa: BLE001
        fails.append(Failure(f"{site}.deserialize", "re-encoding-raises", _exc(e)))
    if k in ("ty", "poly"):
        try:
            if back.type_bound() != obj.type_bound():
                fails.append(Failure(f"{_site_of(s0, site)}.type_bound", "fact-changes-across-codec",
                                     f"{obj.type_bound()} vs decoded {back.type_bound()}"))
        except Exception:  # noqa: BLE001
            pass
    return fails


_SER_SITE = {"@sum": "SumType", "@unit": "UnitSum", "@var": "Variable", "@rowvar": "RowVar", "@alias": "Alias",
             "@fn": "FunctionType", "@poly": "PolyFuncType", "@ext": "Opaque", "@opaque": "Opaque",
             "@ty": "TypeTypeArg", "@seq": "SequenceArg", "@nat": "BoundedNatArg", "@str": "StringArg",
             "@exts": "ExtensionsArg", "@varg": "VariableArg"}


def _site_of(s, default):
    if isinstance(s, list) and s and s[0] in _SER_SITE:
        return _SER_SITE[s[0]]
    return default


def _oracle_val(spec):
    import hugr._serialization.ops as sops

    fails = []
    try:
        v = B.build_value(spec["e"])
        s0 = B.value_to_spec(v)
        j = _dump(v._to_serial_root())
        t0 = type_to_spec(v.type_())
    except Exception:  # noqa: BLE001
        return fails
    try:
        exp = ref_norm_value(s0)
        expt = ref_norm_type(t0)
    except NoClaim:
        return fails
    site = {"Tuple": "TupleValue", "Sum": "SumValue", "Function": "FunctionValue", "Extension": "CustomValue"}.get(j.get("v"), "Value")
    try:
        back = sops.Value.model_validate(copy.deepcopy(j)).deserialize()
    except Exception as e:  # noqa: BLE001
        return [Failure(f"{site}.deserialize", "raises", _exc(e))]
    got = B.value_to_spec(back)
    if got != exp:
        fails.append(Failure(f"{site}.deserialize", "drops-or-changes-attributes",
                             f"decoded {json.dumps(got)[:300]} expected {json.dumps(exp)[:300]}"))
    try:
        if _dump(back._to_serial_root()) != j:
            fails.append(Failure(f"{site}.deserialize", "re-encodes-differently", ""))
    except Exception as e:  # noqa: BLE001
        fails.append(Failure(f"{site}.deserialize", "re-encoding-raises", _exc(e)))
    try:
        gt = type_to_spec(back.type_())
        if C14.t_canon(gt) != C14.t_canon(expt):
            fails.append(Failure(f"{site}.deserialize", "fact-changes-across-codec",
                                 f"type_() {json.dumps(gt)[:200]} expected {json.dumps(expt)[:200]}"))
    except Exception as e:  # noqa: BLE001
        fails.append(Failure(f"{site}.deserialize", "type-raises", _exc(e)))
    if not fails:
        fails.extend(_function_bodies_edited(v))
    return fails


def _function_bodies_edited(v):
    """A function constant that was encoded once and whose body is then EDITED IN PLACE without changing the number of its
    nodes or links (metadata added to its root, a constant operation of the body replaced) encodes as a fresh constant
    around the same body does (seeded change C05-15: the encoded body cached under its node and link counts)."""
    from hugr import ops, val

    out = []
    stack = [v]
    while stack:
        x = stack.pop()
        if isinstance(x, val.Function):
            try:
                h = x.body
                h[h.root].metadata["verif.edit"] = [len(out)]
                for n in h:
                    if isinstance(h[n].op, ops.Const) and h[n].op.val in (val.TRUE, val.FALSE):
                        h[n].op = ops.Const(val.FALSE if h[n].op.val == val.TRUE else val.TRUE)
                        break
                got = _dump(x._to_serial_root())
                want = _dump(val.Function(h)._to_serial_root())
            except Exception:  # noqa: BLE001
                continue
            if got != want:
                out.append(Failure("Function._to_serial", "encoding-does-not-follow-an-in-place-edit-of-the-body",
                                   "encoded once, body edited (same node and link counts), encoded again"))
                return out
        for y in getattr(x, "vals", []) or []:
            stack.append(y)
    return out


def _oracle_op(spec):
    fails: list[Failure] = []
    try:
        op = build_op(spec["op"])
        s = op_to_spec(op)
        j = C06._encode(op, spec["parent"])
    except Exception:  # noqa: BLE001
        return fails
    name = C06._cls(s)
    ser = {"ExtOp": "ExtensionOp", "Custom": "ExtensionOp", "MakeTuple": "ExtensionOp", "UnpackTuple": "ExtensionOp",
           "Noop": "ExtensionOp", "LoadConst": "LoadConstant", "LoadFunc": "LoadFunction"}.get(name, name)
    if s[0] in ("@call", "@loadfunc") and s[1][1] and len(s[1][1]) != len(s[3]):
        return fails
    try:
        exp = ref_norm_op(s)
    except NoClaim:
        return fails
    except Exception as e:  # noqa: BLE001
        return [Failure(f"{ser}.deserialize", "oracle-error", repr(e))]
    try:
        op2, parent = C06._decode(j)
    except Exception as e:  # noqa: BLE001
        return [Failure(f"{ser}.deserialize", "raises", _exc(e))]
    if parent != spec["parent"]:
        fails.append(Failure(f"{ser}.deserialize", "parent-differs", ""))
    if s[0] == "@extop" and j.get("description") != s[1][3]:
        fails.append(Failure("ExtOp.to_custom_op", "drops-description", f"{j.get('description')!r} expected {s[1][3]!r}"))
    got = op_to_spec(op2)
    if got != exp:
        what = "attributes"
        if isinstance(got, list) and isinstance(exp, list) and got[0] == exp[0] and len(got) == len(exp):
            for i in range(1, len(exp)):
                if got[i] != exp[i]:
                    what = C06._FIELD.get(exp[0], {}).get(i, f"field{i}")
                    break
        fails.append(Failure(f"{ser}.deserialize", f"drops-or-changes-{what}",
                             f"decoded {json.dumps(got)[:300]} expected {json.dumps(exp)[:300]}"))
    try:
        if C06._encode(op2, parent) != j:
            fails.append(Failure(f"{ser}.deserialize", "re-encodes-differently", ""))
    except Exception as e:  # noqa: BLE001
        fails.append(Failure(f"{ser}.deserialize", "re-encoding-raises", _exc(e)))
    m = spec.get("maxoff", 3)
    try:
        fa, fb = C06._facts_of(op, m), C06._facts_of(op2, m)
        for key in fa:
            if key in fb and fa[key] != fb[key]:
                fails.append(Failure(f"{name}.{key.split()[0]}", "fact-changes-across-codec",
                                     f"{key}: {fa[key]!r} vs decoded {fb[key]!r}"))
                break
    except Exception:  # noqa: BLE001
        pass
    return fails


def _oracle_tagsugar(spec):
    from hugr import ops, tys

    s = spec["op"]
    try:
        sugar = build_op(s)
    except Exception:  # noqa: BLE001
        return []
    if s[0] == "@some":
        tag, rows = 1, [[], s[1]]
    elif s[0] in ("@left", "@continue"):
        tag, rows = 0, [s[1], s[2]]
    else:
        tag, rows = 1, [s[1], s[2]]
    general = ops.Tag(tag, tys.Sum([[B.build_type(t) for t in r] for r in rows]))
    fails = []
    try:
        ja, jb = C06._encode(sugar, spec["parent"]), C06._encode(general, spec["parent"])
    except Exception:  # noqa: BLE001
        return []
    site = "ops." + type(sugar).__name__
    if ja != jb:
        fails.append(Failure(site, "encoding-differs-from-Tag", f"{json.dumps(ja)[:200]} vs {json.dumps(jb)[:200]}"))
    try:
        sa, sb = sugar.outer_signature(), general.outer_signature()
        if not (sa.input == sb.input and sa.output == sb.output):
            fails.append(Failure(site, "signature-differs-from-Tag", f"{sa} vs {sb}"))
        if sugar.num_out != general.num_out:
            fails.append(Failure(site, "num_out-differs-from-Tag", ""))
    except Exception as e:  # noqa: BLE001
        fails.append(Failure(site, "signature-raises", _exc(e)))
    return fails


def _is_general_of(a, b):
    """b is the general-sum spelling of the sugar type spec a"""
    return isinstance(a, list) and a and a[0] in ("@tuple", "@option", "@either", "@unit") and \
        C14.t_canon(C07.desugar(a)) == b and isinstance(b, list) and b[0] == "@sum"


def _oracle_tyeq(spec):
    a, b = spec["a"], spec["b"]
    try:
        ta, tb = C07.build_type(a), C07.build_type(b)
    except Exception:  # noqa: BLE001
        return []
    fails = []
    site = {"@tuple": "tys.Tuple", "@option": "tys.Option", "@either": "tys.Either", "@unit": "tys.UnitSum"}.get(
        a[0] if isinstance(a, list) and a else "", "tys.Sum")
    eq1, eq2 = ta == tb, tb == ta
    if spec.get("general"):
        # a sugar type and its general sum form
        if not (eq1 and eq2):
            fails.append(Failure(f"{site}.__eq__", "sugar-differs-from-general-form", f"{ta!r} vs {tb!r}"))
    if eq1 != eq2:
        fails.append(Failure(f"{site}.__eq__", "not-symmetric", f"{ta!r} vs {tb!r}"))
    if eq1:
        # "compare equal … with the same bound"
        try:
            if ta.type_bound() != tb.type_bound():
                fails.append(Failure(f"{site}.__eq__", "equal-with-different-bound",
                                     f"{ta!r} ({ta.type_bound()}) == {tb!r} ({tb.type_bound()})"))
        except Exception:  # noqa: BLE001
            pass
    return fails


def _oracle_valeq(spec):
    try:
        va, vb = B.build_value(spec["a"]), B.build_value(spec["b"])
    except Exception:  # noqa: BLE001
        return []
    fails = []
    site = C14.SITE.get(spec["a"][0] if isinstance(spec["a"], list) else "@unitsum", "val.Sum")
    eq = va == vb
    if spec.get("general") and not (eq and vb == va):
        fails.append(Failure(f"{site}.__eq__", "sugar-differs-from-general-form", f"{va!r} vs {vb!r}"))
    if eq:
        # "… with the same type" (and hence the same bound)
        try:
            if va.type_() != vb.type_():
                fails.append(Failure(f"{site}.__eq__", "equal-with-different-type", f"{va.type_()!r} vs {vb.type_()!r}"))
            elif va.type_().type_bound() != vb.type_().type_bound():
                fails.append(Failure(f"{site}.__eq__", "equal-with-different-bound", ""))
        except Exception:  # noqa: BLE001
            pass
    return fails


_DEF_OF = {"type": "Type", "arg": "TypeArg", "param": "TypeParam", "poly": "PolyFuncType", "value": "Value", "op": "OpType"}


def _oracle_abs(spec):
    if spec.get("valid") is not True:
        return []  # not (known to be) schema-valid: outside the quantifier of (B)
    head, j2 = _abs_impl(spec["what"], spec["doc"])
    if head != "ok":
        if spec.get("valid"):
            # a schema-valid single object that the decoder refuses: only NoConcreteFunc (a semantic condition the
            # schema cannot express) is legitimate
            if head == "NoConcreteFunc":
                return []
            return [Failure(f"{_DEF_OF[spec['what']]}.deserialize", "rejects-schema-valid-document", head)]
        return []
    if isinstance(j2, dict) and "enc-error" in j2:
        return [Failure(f"{_DEF_OF[spec['what']]}.deserialize", "re-encoding-raises", j2["enc-error"])]
    out: list = []
    preserved(spec["doc"], j2, {"$ref": "#/$defs/" + _DEF_OF[spec["what"]]}, schema_defs(), spec["what"], out)
    site = spec["doc"].get("op") or spec["doc"].get("t") or spec["doc"].get("v") or spec["doc"].get("tya") or \
        spec["doc"].get("tp") or _DEF_OF[spec["what"]] if isinstance(spec["doc"], dict) else _DEF_OF[spec["what"]]
    return [Failure(f"{site}.deserialize", "attribute-lost-by-load-and-resave", f"{p}: {w}") for p, w in out[:3]]


def _oracle_fdoc(spec):
    if spec.get("valid") is False:
        return []  # not schema-valid: outside the quantifier of (B)
    doc = foreign_doc(spec)
    r = _load_obs(doc)
    if r[0] != "ok":
        return [Failure("Hugr.load_json", "rejects-schema-valid-document", json.dumps(r[0]))]
    if isinstance(r[1], dict) and set(r[1]) == {"error"}:
        return [Failure("Hugr.to_json", "re-saving-raises", json.dumps(r[1]))]
    diffs = doc_preserved(doc, r[1])
    fails = []
    for p, w in diffs[:3]:
        if p.startswith("edges"):
            site, cls = "Hugr._from_serial", ("edge-without-offset-lost" if "count" in w or "without offset" in w else "edge-changed")
        elif p.startswith("metadata"):
            site, cls = "Hugr._from_serial", "metadata-lost"
        elif p.startswith("nodes["):
            try:
                k = int(p[6:p.index("]")])
                site = doc["nodes"][k].get("op", "OpType") + ".deserialize"
            except Exception:  # noqa: BLE001
                site = "OpType.deserialize"
            cls = "attribute-lost-by-load-and-resave"
        else:
            site, cls = "Hugr._from_serial", "node-lost"
        fails.append(Failure(site, cls, f"{p}: {w}"))
    return fails


def oracle(spec):
    try:
        return _oracle(spec)
    except Exception:  # noqa: BLE001  (the input could not be built: nothing to judge)
        return []


def _oracle(spec):
    k = spec["k"]
    if k in ("ty", "poly", "arg", "param"):
        return _oracle_type(spec)
    if k == "val":
        return _oracle_val(spec)
    if k == "op":
        return _oracle_op(spec)
    if k == "tagsugar":
        return _oracle_tagsugar(spec)
    if k == "tyeq":
        return _oracle_tyeq(spec)
    if k == "valeq":
        return _oracle_valeq(spec)
    if k == "abs":
        return _oracle_abs(spec)
    if k in ("fdoc", "sample"):
        return _oracle_fdoc(spec)
    return []


# ============================================================================ generation


def _core_type(rng, depth):
    """types without extension types (dataclass equality of definitions is not what `==` of sums is about)"""
    t = C07.gen_type(rng, depth)

    def strip(s):
        if isinstance(s, list):
            if s and s[0] == "@ext":
                return ["@opaque", s[1][2], "@A", [strip(a) for a in s[2]], s[1][1]]
            return [strip(x) for x in s]
        return s

    return strip(t)


def _gen_tyeq(rng):
    r = rng.random()
    row = lambda d=2, hi=3: [_core_type(rng, d) for _ in range(rng.randint(0, hi))]  # noqa: E731
    if r < 0.45:
        k = rng.randrange(4)
        a = (["@tuple", row()] if k == 0 else ["@option", row()] if k == 1 else ["@either", row(2, 2), row(2, 2)] if k == 2
             else ["@unit", rng.choice([0, 1, 2, 2, 3, 5])])
        return {"k": "tyeq", "a": a, "b": C14.t_canon(C07.desugar(a)), "general": True}
    a = _core_type(rng, rng.choice([1, 2, 3]))
    if r < 0.6:
        b = C14.t_canon(C07.desugar(a)) if rng.random() < 0.5 else copy.deepcopy(a)
    else:
        b = C14._perturb_type(rng, C07.desugar(a))
    return {"k": "tyeq", "a": a, "b": b}


def _no_nan(e):
    """NaN payloads never compare equal to themselves: not what the sentence about sugar is about"""
    return json.loads(json.dumps(e).replace('"nan"', '"1.5"'))


def _gen_valeq(rng):
    return _no_nan(_gen_valeq0(rng))


def _gen_valeq0(rng):
    e = B.gen_value(rng, rng.choice([1, 2, 3]))
    for _ in range(6):
        if e == "@unit" or (isinstance(e, list) and e[0] in C14.HELPER_TAG) or (isinstance(e, list) and e[0] in ("@unitsum", "@bool")):
            break
        e = B.gen_value(rng, rng.choice([1, 2, 3]))
    else:
        e = rng.choice(["@unit", ["@bool", True], ["@vtuple", [["@bool", False], "@unit"]], ["@unitsum", 1, 3]])
    try:
        gen = ["@vsum", C14.ref_tag(e), C14.t_canon(C14.ref_type(e)), list(C14.children(e))]
    except Exception:  # noqa: BLE001
        gen = None
    r = rng.random()
    if gen is not None and r < 0.55:
        return {"k": "valeq", "a": e, "b": gen, "general": True}
    if gen is not None and r < 0.8:
        # a perturbed general form: another tag / another type / one field changed
        g = copy.deepcopy(gen)
        c = rng.randrange(3)
        if c == 0:
            g[1] = g[1] + 1
        elif c == 1:
            g[2] = C14._perturb_type(rng, g[2])
        elif g[3]:
            g[3][rng.randrange(len(g[3]))] = rng.choice(["@unit", ["@bool", True], ["@unitsum", 0, 3]])
        return {"k": "valeq", "a": e, "b": g}
    return {"k": "valeq", "a": e, "b": B.gen_value(rng, 2)}


def _gen_abs(rng):
    """a single foreign object: a real encoding rewritten (members without `t`, defaults omitted, extra members,
    Unit sums, Tuple values), sometimes structurally mutated"""
    what = rng.choice(["type", "type", "arg", "param", "poly", "value", "value", "op", "op", "op", "op"])
    extras = rng.random() < 0.4
    try:
        if what == "type":
            doc = _dump(C07.build_type(C07.gen_case_type(rng, 4))._to_serial_root())
        elif what == "arg":
            doc = _dump(C07.build_arg(B.gen_arg(rng, 3))._to_serial_root())
        elif what == "param":
            doc = _dump(B.build_param(B.gen_param(rng, 3))._to_serial_root())
        elif what == "poly":
            doc = _dump(C07.build_type(C07.gen_case_poly(rng)["t"])._to_serial())
        elif what == "value":
            doc = _dump(B.build_value(B.gen_value(rng, rng.choice([1, 2, 3])))._to_serial_root())
        else:
            c = B.gen_op(rng, partial=0.0, value=_plain_value(rng, 2) if rng.random() < 0.5 else None)
            doc = C06._encode(build_op(c), rng.choice([0, 1, 7]))
    except Exception:  # noqa: BLE001
        doc = {"t": "Sum", "s": "General", "rows": [[], []]}
        what = "type"
    holder = {"op": None, "x": doc}
    if what == "op":
        _rustify_node(doc, rng, extras, False)
    else:
        _rustify_node(holder, rng, extras, False)
        if what == "poly" and isinstance(doc.get("body"), dict) and rng.random() < 0.7:
            doc["body"].pop("t", None)
    valid = True  # a real encoding in another writer's spelling (thorough tier: confirmed by jsonschema)
    if rng.random() < 0.25 and '"hugr"' not in json.dumps(doc):
        doc = C07.mutate_doc(rng, doc) if what != "op" else C06._mutate_json(rng, doc)
        valid = None  # only the model comparison (accept / reject, re-encoding) applies
        if not isinstance(doc, dict) or (what not in ("value", "op") and C07._has_lax_scalars(doc)):
            doc, what = {"t": "G", "input": [], "output": [{"t": "Q"}]}, "type"
    return {"k": "abs", "what": what, "doc": doc, "valid": valid, "extras": extras}


def _gen_src(rng):
    if rng.random() < 0.45:
        return ["feature", rng.randrange(10**6)]
    muts = [[rng.choice(["node", "order", "order", "delnode", "insert", "meta", "reqs", "polycall", "latecall"]), rng.randrange(10**6)]
            for _ in range(rng.randint(0, 5))]
    return ["built", rng.randrange(10**6), rng.randint(1, 4), muts]


def _gen_fdoc(rng):
    r = rng.random()
    rw = {"seed": rng.randrange(10**6), "extras": r < 0.3, "nested": 0.3 <= r < 0.45, "rust": r < 0.93}
    return {"k": "fdoc", "src": _gen_src(rng), "rw": rw}


def _sample_specs():
    out = []
    for rel in SAMPLES:
        p = REPO / rel
        if p.exists():
            out.append({"k": "sample", "file": rel, "doc": json.loads(p.read_text())})
    vs = js_verdicts([("hugr_schema", s["doc"]) for s in out])
    for s, v in zip(out, vs):
        s["valid"] = v
    return out


FIXED = [
    # F05 / F06 / F07 / F04 of the ledger, as single objects and documents
    {"k": "op", "op": ["@funcdefn", "f", [["@var", 0, "@A"]], [["@ptype", "@A"], ["@plist", "@pstr"]], [["@var", 0, "@A"]]], "parent": 0, "maxoff": 2},
    {"k": "op", "op": ["@block", ["@qubit"], ["@usum", 2], ["@qubit"], ["é.ext", "a"]], "parent": 3, "maxoff": 3},
    {"k": "op", "op": ["@tailloop", [["@unit", 2]], ["@qubit"], ["@qubit", "@qubit"], ["loop.ext"]], "parent": 1, "maxoff": 3},
    {"k": "op", "op": ["@dfg", ["@qubit"], ["@qubit"], ["d1", "d2"]], "parent": 1, "maxoff": 2},
    {"k": "op", "op": ["@extop", ["@opdef", "my.ext", "op", "what it does", ["@poly", [], ["@qubit"], ["@qubit"], ["my.ext"]]], "@none", [["@nat", 1]]], "parent": 2, "maxoff": 2},
    {"k": "op", "op": ["@custom", "ö", ["@fn", [], [], []], "dé\"sc", "ext.β", [["@str", "ü"]]], "parent": 0, "maxoff": 1},
    {"k": "val", "e": ["@vtuple", [["@fndfg", [["@unit", 2], "@qubit"], [1, 0], []], ["@bool", True]]]},
    {"k": "val", "e": ["@vtuple", [["@bool", True], ["@unitsum", 2, 3], ["@vtuple", []]]]},
    {"k": "tyeq", "a": ["@unit", 2], "b": ["@sum", [[], []]], "general": True},
    {"k": "tyeq", "a": ["@tuple", ["@qubit"]], "b": ["@sum", [[["@unit", 2]]]]},
    {"k": "valeq", "a": ["@vtuple", [["@bool", True]]], "b": ["@vsum", 0, ["@sum", [[["@sum", [[], []]]]]], [["@unitsum", 1, 2]]], "general": True},
    {"k": "tagsugar", "op": ["@some", ["@qubit", ["@unit", 2]]], "parent": 0},
    {"k": "tagsugar", "op": ["@break", [["@unit", 2]], ["@qubit"]], "parent": 1},
    {"k": "abs", "what": "op", "valid": True, "doc": {"parent": 4, "input_extensions": None, "op": "DFG",
                                                      "signature": {"input": [{"t": "Q"}], "output": []}}},
    {"k": "abs", "what": "value", "valid": True, "doc": {"v": "Sum", "tag": 1, "typ": {"s": "Unit", "size": 2}, "vs": []}},
    {"k": "fdoc", "valid": True, "doc": {
        "version": "live",
        "nodes": [{"parent": 0, "op": "DFG", "signature": {"input": [], "output": []}},
                  {"parent": 0, "op": "Input", "types": []}, {"parent": 0, "op": "Output", "types": []},
                  {"parent": 0, "op": "Extension", "extension": "e", "name": "a", "signature": {"input": [], "output": []}},
                  {"parent": 0, "op": "Extension", "extension": "e", "name": "b", "description": "d", "args": [],
                   "signature": {"input": [], "output": [], "runtime_reqs": ["e"]}}],
        "edges": [[[3, None], [4, None]]], "metadata": [None, None, None, {"k": 1}, None], "encoder": "hugr-rs v0.14.1"}},
]


def corpus():
    return [copy.deepcopy(s) for s in FIXED] + _sample_specs()


def _plain_value(rng, depth):
    """a random constant as a plain value spec (the stored attributes of the object the expression builds)"""
    try:
        return B.value_to_spec(B.build_value(B.gen_value(rng, depth)))
    except Exception:  # noqa: BLE001
        return None


def _ops_cases(rng, n, facts_every=4):
    for i in range(n):
        c = B.gen_op(rng, depth=rng.choice([1, 2, 2, 3]), partial=0.0 if i % 5 else 0.2,
                     value=_plain_value(rng, rng.choice([1, 2, 3])) if rng.random() < 0.5 else None)
        m = C06._maxoff(c)
        s = {"k": "op", "op": c, "parent": rng.choice([0, 1, 5]), "maxoff": m}
        yield s
        if i % facts_every == 0:
            yield {"k": "opfacts", "op": c, "parent": s["parent"], "maxoff": m}
        if isinstance(c, list) and c[0] in ("@some", "@left", "@right", "@continue", "@break"):
            yield {"k": "tagsugar", "op": c, "parent": s["parent"]}


def cases(rng, tier):
    n_ty, n_misc, n_val, n_op, n_eq, n_abs, n_doc, n_mal = {
        "quick": (2200, 500, 1500, 2200, 700, 900, 260, 500),
        "thorough": (36000, 8000, 24000, 36000, 12000, 12000, 2400, 4000),
        "search": (6000, 1500, 5000, 8000, 2500, 4000, 500, 0),
    }[tier]
    specs = []
    for _ in range(n_ty):
        specs.append({"k": "ty", "t": C07.gen_case_type(rng, 5)})
    for i in range(n_misc):
        r = i % 3
        if r == 0:
            specs.append({"k": "poly", "t": C07.gen_case_poly(rng)["t"]})
        elif r == 1:
            specs.append({"k": "arg", "a": B.gen_arg(rng, rng.choice([1, 2, 3, 4]))})
        else:
            specs.append({"k": "param", "p": B.gen_param(rng, rng.choice([1, 2, 3, 4]))})
    for _ in range(n_val):
        specs.append({"k": "val", "e": B.gen_value(rng, rng.choice([1, 2, 3, 4]))})
    specs.extend(_ops_cases(rng, n_op))
    for i in range(n_eq):
        specs.append(_gen_tyeq(rng) if i % 2 == 0 else _gen_valeq(rng))
    for _ in range(n_abs):
        specs.append(_gen_abs(rng))
    docs = [_gen_fdoc(rng) for _ in range(n_doc)]
    specs.extend(docs)
    for i in range(n_mal):
        base = docs[i % len(docs)]
        s = {"k": "mal", "src": base["src"], "rw": dict(base["rw"], nested=False), "mut": rng.randrange(10**6)}
        try:
            if not _lax_free(_mal_doc(s)):
                continue
        except Exception:  # noqa: BLE001
            continue
        specs.append(s)
    if tier == "thorough":
        # every foreign document against the published schema: strict when no extra members were added, else the
        # non-strict file; jsonschema gives the verdict the Lean evaluator is compared with
        sch = []
        for d in docs:
            cfg = "hugr_schema" if d["rw"].get("extras") else "hugr_schema_strict"
            sch.append({"k": "schema", "cfg": cfg, "src": d["src"], "rw": d["rw"]})
        try:
            vs = js_verdicts([(s["cfg"], foreign_doc(s)) for s in sch])
        except Exception:  # noqa: BLE001
            vs = [None] * len(sch)
        for s, d, v in zip(sch, docs, vs):
            s["valid"] = v
            d["valid"] = v
        specs.extend(sch)
        # … and the single foreign objects claimed schema-valid
        root = {"type": "Type", "arg": "TypeArg", "param": "TypeParam", "poly": "PolyFuncType", "value": "Value", "op": "OpType"}
        ab = [a for a in specs if a["k"] == "abs" and a.get("valid")]
        vs = js_verdicts([("hugr_schema" if a.get("extras") else "hugr_schema_strict", root[a["what"]], a["doc"]) for a in ab])
        for i, (a, v) in enumerate(zip(ab, vs)):
            if v is not None:
                a["valid"] = v
                if i % 4 == 0:
                    specs.append({"k": "schema", "cfg": "hugr_schema" if a.get("extras") else "hugr_schema_strict",
                                  "root": root[a["what"]], "doc": a["doc"], "valid": v})
    return specs


# ============================================================================ bookkeeping


def nontrivial(spec, obs):
    k = spec["k"]
    if obs.startswith("harness:"):
        return False
    if k in ("ty", "poly", "arg", "param"):
        return obs.count("J:") >= 2
    if k == "val":
        return obs.count("J:") >= 2
    if k == "op":
        return obs.startswith("(ok")
    if k == "opfacts":
        return obs != "skip"
    if k in ("tyeq", "valeq", "tagsugar"):
        return not obs.startswith("build:")
    if k == "abs":
        return obs.startswith("ok")
    if k in ("fdoc", "sample"):
        return obs.startswith('["ok"')
    if k == "mal":
        return True
    if k == "schema":
        return obs in ("true", "false")
    return False


def stats(spec, obs, counters):
    k = spec["k"]
    counters[f"kind:{k}"] += 1
    if obs.startswith("harness:"):
        counters["input-could-not-be-built"] += 1
        return
    if k == "op":
        c = spec["op"]
        counters["op:" + (c if isinstance(c, str) else c[0])] += 1
        counters["op-decoded" if obs.startswith("(ok") else "op-not-decoded"] += 1
    elif k == "val":
        counters["val-decoded" if obs.count("J:") >= 2 else "val-not-decoded"] += 1
        if "vfn" in obs:
            counters["val-with-function-constant"] += 1
    elif k in ("tyeq", "valeq"):
        counters[f"{k}:" + ("general-form" if spec.get("general") else "other") +
                 (":equal" if ("(eq true)" in obs or "(same true)" in obs) else ":unequal")] += 1
    elif k == "abs":
        counters[f"abs:{spec['what']}:" + ("accepted" if obs.startswith("ok") else "rejected")] += 1
    elif k in ("fdoc", "sample"):
        ok = obs.startswith('["ok"')
        counters["doc-loaded" if ok else "doc-rejected"] += 1
        if k == "fdoc" and "rw" in spec:
            for f in ("extras", "nested", "rust"):
                if spec["rw"].get(f):
                    counters[f"doc:{f}"] += 1
        if ok and '[null' not in obs and "null," in obs:
            pass
    elif k == "mal":
        counters["malformed:" + obs] += 1
    elif k == "schema":
        counters[f"schema:{spec['cfg']}:{obs}"] += 1


# ---- shrinking


def _shrink_doc(doc, pred, mk):
    """smaller document on which `pred(mk(doc))` still holds: fewer edges, no metadata, simpler envelope"""
    doc = copy.deepcopy(doc)
    try:
        edges = core.ddmin(doc.get("edges", []), lambda es: pred(mk(dict(doc, edges=es))))
        doc["edges"] = edges
    except Exception:  # noqa: BLE001
        pass
    for k in ("metadata", "encoder"):
        if k in doc:
            d2 = {x: v for x, v in doc.items() if x != k}
            try:
                if pred(mk(d2)):
                    doc = d2
            except Exception:  # noqa: BLE001
                pass
    # drop trailing leaf nodes that no edge or parent refers to
    changed = True
    while changed and len(doc.get("nodes", [])) > 1:
        changed = False
        n = len(doc["nodes"]) - 1
        used = any(e[0][0] == n or e[1][0] == n for e in doc.get("edges", [])) or \
            any(x.get("parent") == n for x in doc["nodes"][:n] if isinstance(x, dict))
        if used:
            break
        d2 = dict(doc, nodes=doc["nodes"][:n])
        if isinstance(d2.get("metadata"), list):
            d2["metadata"] = d2["metadata"][:n]
        try:
            if pred(mk(d2)):
                doc = d2
                changed = True
        except Exception:  # noqa: BLE001
            pass
    return doc


def shrink(spec, pred):
    k = spec["k"]
    try:
        if k in ("fdoc", "sample", "mal", "schema"):
            base = {x: v for x, v in spec.items() if x not in ("src", "rw", "mut", "file")}
            doc = _mal_doc(spec) if k == "mal" else foreign_doc(spec)
            if not isinstance(doc, dict):
                return dict(base, doc=doc)
            mk = lambda d: dict(base, doc=d)  # noqa: E731
            if not pred(mk(doc)):
                return spec
            return mk(_shrink_doc(doc, pred, mk))
        if k == "op":
            s2 = C06.shrink({"stream": "roundtrip", "op": spec["op"], "parent": spec["parent"], "maxoff": spec.get("maxoff", 3)},
                            lambda s: pred({"k": "op", "op": s["op"], "parent": s["parent"], "maxoff": s.get("maxoff", 3)}))
            return {"k": "op", "op": s2["op"], "parent": s2["parent"], "maxoff": s2.get("maxoff", 3)}
        if k in ("ty", "poly"):
            key = "t"
            s2 = C07.shrink({"k": "type" if k == "ty" else "poly", key: spec["t"]},
                            lambda s: pred({"k": k, "t": s["t"]}))
            return {"k": k, "t": s2["t"]}
        if k == "val":
            s2 = C14.shrink({"k": "val", "e": spec["e"]}, lambda s: pred({"k": "val", "e": s["e"]}))
            return {"k": "val", "e": s2["e"]}
    except Exception:  # noqa: BLE001
        return spec
    return spec
