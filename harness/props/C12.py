"""C12 — the hugr-model export is well scoped and faithful to the HUGR.

The HUGR reaches the Lean model as its JSON document: `h.to_json()` of a builder-built, module-rooted
HUGR.  The Lean driver loads it (`Serial.loadJson`, the model of `Hugr.load_json`) and runs the model of
`ModelExport` on the store; the implementation runs `Hugr.load_json(doc).to_model()`.  Both sides dump
the exported module structurally (dataclass -> nested lists; the native printer is not needed) and the
dumps are compared as JSON values (the JSON texts inside `compat.meta_json` / `compat.const_json`
literals are compared as JSON values, not as texts).

Independent oracle: the specification predicates of the property (PortsPerSignature, LinkFaithful,
NoHyperedge, CallsResolve, OrderHints, MetaCarried, RegionsMirror), written here from the property text
and the Rust reference (hugr-core/src/export.rs, import.rs), evaluated on the dumped module against the
*document* (node table, hierarchy, edges with their serialised offsets) — not against hugr-py's link API.
It is run on the export of the reloaded HUGR and on the export of the original builder HUGR.
"""
from __future__ import annotations

import dataclasses
import enum
import json
import os
import random
import re
from pathlib import Path

from core import Failure
import bridge

PROP = "C12"
TITLE = "The model export is well scoped and faithful to the HUGR"
LEAN_TARGETS = ["HugrVerif.Props.C12"]
DRIVE_TARGETS = ["HugrVerif.Drive.Export"]
RULE = (
    "module-rooted HUGRs built with the real builders: props.C09.build_module(seed, size) (functions, constants, "
    "tuples, int ops, nested DFGs, conditionals, tail loops, calls, metadata) and the generator of this module "
    "(functions called several times, module-level constants loaded several times, add_state_order between siblings, "
    "Ext wires into nested regions, CFGs with several blocks / loops / Dom wires, polymorphic functions with "
    "instantiated calls, declarations, load_function + call_indirect, tags, aliases, unused outputs) plus fixed "
    "scripts; each is serialised, reloaded and exported.  Non-trivial = the export succeeds and the module has at "
    "least one exported dataflow node with a linked port; distinct by full spec."
)
TRUSTED = [
    "the JSON document is the HUGR (C02/C03): the oracle reads nodes, hierarchy, metadata and edges from h.to_json()",
    "port layout table of DESIGN.md §4.1 (value ports, static port, order port) as transcribed in the oracle",
    "JSON texts inside compat.meta_json / compat.const_json literals are compared as JSON values",
    "regex extraction of getattr(\"…\") names and call1 arities from hugr-model/src/v0/ast/python.rs",
]
ASSUMPTIONS = [
    "HUGRs are valid and module-rooted (built by well-formed builder programs); value wires never cross a FuncDefn",
]

VERIF = Path(__file__).resolve().parent.parent.parent

# =============================================================================================
# structural dump of hugr.model objects (never str()/repr(): the native printer is absent)
# =============================================================================================

_OPS0 = {"InvalidOp", "Dfg", "Cfg", "Block", "TailLoop", "Conditional"}


def dump_term(t):
    n = type(t).__name__
    if n == "Wildcard":
        return ["wildcard"]
    if n == "Var":
        return ["var", t.name]
    if n == "Apply":
        return ["apply", t.symbol, [dump_term(a) for a in t.args]]
    if n == "Splice":
        return ["splice", dump_term(t.seq)]
    if n == "List":
        return ["list", [dump_term(a) for a in t.parts]]
    if n == "Tuple":
        return ["tuple", [dump_term(a) for a in t.parts]]
    if n == "Literal":
        v = t.value
        if isinstance(v, bool):
            return ["lit", "i", int(v)]
        if isinstance(v, int):
            return ["lit", "i", v]
        if isinstance(v, str):
            return ["lit", "s", v]
        if isinstance(v, bytes):
            return ["lit", "b", list(v)]
        return ["lit", "f", repr(v)]
    if n == "Func":
        return ["func", dump_region(t.region)]
    raise TypeError(f"not a model term: {n}")


def dump_symbol(s):
    return [
        "symbol",
        s.name,
        [["param", p.name, dump_term(p.type)] for p in s.params],
        [dump_term(c) for c in s.constraints],
        dump_term(s.signature),
    ]


def dump_op(o):
    n = type(o).__name__
    if n in _OPS0:
        return [n]
    if n in ("DefineFunc", "DeclareFunc", "DeclareAlias", "DeclareConstructor", "DeclareOperation"):
        return [n, dump_symbol(o.symbol)]
    if n == "DefineAlias":
        return [n, dump_symbol(o.symbol), dump_term(o.value)]
    if n == "CustomOp":
        return [n, dump_term(o.operation)]
    if n == "Import":
        return [n, o.name]
    raise TypeError(f"not a model operation: {n}")


def dump_node(nd):
    return [
        "node",
        dump_op(nd.operation),
        list(nd.inputs),
        list(nd.outputs),
        [dump_region(r) for r in nd.regions],
        [dump_term(m) for m in nd.meta],
        None if nd.signature is None else dump_term(nd.signature),
    ]


def dump_region(r):
    return [
        "region",
        r.kind.name,
        list(r.sources),
        list(r.targets),
        [dump_node(c) for c in r.children],
        [dump_term(m) for m in r.meta],
        None if r.signature is None else dump_term(r.signature),
    ]


def dump_module(m):
    return ["module", dump_region(m.root)]


JSON_LITS = {"compat.meta_json": 1, "compat.const_json": 1}


def canon_lits(x):
    """The dump sent to the Lean specification: JSON texts re-serialised canonically (compact, UTF-8), which
    is the text `Export.jsonText false` gives for the same JSON value."""
    if isinstance(x, list):
        if len(x) == 3 and x[0] == "apply" and x[1] in JSON_LITS and isinstance(x[2], list) and len(x[2]) == 2:
            a, b = x[2]
            if isinstance(b, list) and b[:2] == ["lit", "s"]:
                try:
                    b = ["lit", "s", json.dumps(bridge.cjson(json.loads(b[2])), ensure_ascii=False,
                                                separators=(",", ":"))]
                except ValueError:
                    pass
            return ["apply", x[1], [canon_lits(a), b]]
        return [canon_lits(e) for e in x]
    return x


def norm_dump(x):
    """Replace the JSON text inside compat.meta_json / compat.const_json by the JSON value it denotes."""
    if isinstance(x, list):
        if len(x) == 3 and x[0] == "apply" and x[1] in JSON_LITS and isinstance(x[2], list) and len(x[2]) == 2:
            a, b = x[2]
            if isinstance(b, list) and b[:2] == ["lit", "s"]:
                try:
                    b = ["json", bridge.cjson(json.loads(b[2]))]
                except ValueError:
                    pass
            return ["apply", x[1], [norm_dump(a), b]]
        return [norm_dump(e) for e in x]
    if isinstance(x, dict):
        return {k: norm_dump(v) for k, v in x.items()}
    return x


# =============================================================================================
# builder programs
# =============================================================================================

STRS = ["", "plain", "üñï", 'quote"back\\slash', "line\nbreak", "😀", "tab\t"]


def _own_module(seed: int, size: int, feats: list[str]):
    """Random module exercising the features C09.build_module lacks (see RULE)."""
    from hugr import ops, tys, val
    from hugr.build.function import Module
    from hugr.std.int import DivMod, IntVal, int_t
    from hugr.std.logic import Not

    rng = random.Random(seed)
    F = set(feats)
    mod = Module()
    I5 = int_t(5)
    TUP = tys.Tuple(tys.Bool, I5)
    COPY = [tys.Bool, tys.Unit, I5, tys.USize(), TUP]
    CB = tys.TypeBound.Copyable

    def rand_val(t):
        if t == tys.Bool:
            return rng.choice([val.TRUE, val.FALSE])
        if t == tys.Unit:
            return val.Unit
        if t == I5:
            return IntVal(rng.choice([rng.randrange(32), -1 - rng.randrange(31)]), 5)
        if t == TUP:
            return val.Tuple(rng.choice([val.TRUE, val.FALSE]), IntVal(rng.choice([rng.randrange(32), -1 - rng.randrange(31)]), 5))
        return None

    funcs = []  # (node, ins, outs, poly?)
    consts = []  # (node, type)
    if "decl" in F:
        for i in range(rng.randint(1, 2)):
            ins = [rng.choice(COPY) for _ in range(rng.randint(0, 2))]
            outs = [rng.choice(COPY) for _ in range(rng.randint(0, 2))]
            d = mod.declare_function(f"decl{i}", tys.PolyFuncType([], tys.FunctionType(ins, outs)))
            funcs.append((d, ins, outs, None))
        if rng.random() < 0.5:
            params = [tys.TypeTypeParam(CB), tys.BoundedNatParam(rng.choice([None, 7]))][: rng.randint(1, 2)]
            v0 = tys.Variable(0, CB)
            d = mod.declare_function("pdecl", tys.PolyFuncType(params, tys.FunctionType([v0], [v0, v0])))
            funcs.append((d, [v0], [v0, v0], params))
    if "poly" in F:
        v0 = tys.Variable(0, CB)
        params = [tys.TypeTypeParam(CB)]
        if rng.random() < 0.4:
            params.append(rng.choice([tys.StringParam(), tys.BoundedNatParam(None), tys.ListParam(tys.TypeTypeParam(CB))]))
        p = mod.define_function("pid", [v0], [v0], type_params=params)
        p.set_outputs(p.inputs()[0])
        funcs.append((p.parent_node, [v0], [v0], params))
        if rng.random() < 0.5:
            # row-polymorphic: prow<R: [Type]>(R...) -> R..., called at rows of length 0, 1, 2 (the ports of a call are
            # those of the instantiation, not of the declared body)
            rp = tys.ListParam(tys.TypeTypeParam(CB))
            rv = tys.RowVariable(0, CB)
            pr = mod.define_function("prow", [rv], [rv], type_params=[rp])
            pr.set_outputs(*pr.inputs())
            funcs.append((pr.parent_node, "row", "row", [rp]))
    if "const" in F:
        for _ in range(rng.randint(1, 2)):
            t = rng.choice([tys.Bool, I5, TUP, tys.Unit])
            consts.append((mod.add_const(rand_val(t)), t))
    if "alias" in F:
        mod.add_alias_decl("AD", rng.choice([CB, tys.TypeBound.Any]))
        mod.add_alias_defn("AT", rng.choice([tys.Bool, TUP, tys.FunctionType([tys.Bool], [I5])]))

    def subst(t, a):
        return a if isinstance(t, tys.Variable) else t

    def args_for(params, a):
        out = []
        for p in params:
            if isinstance(p, tys.TypeTypeParam):
                out.append(tys.TypeTypeArg(a))
            elif isinstance(p, tys.BoundedNatParam):
                out.append(tys.BoundedNatArg(rng.randrange(7)))
            elif isinstance(p, tys.StringParam):
                out.append(tys.StringArg(rng.choice(STRS)))
            else:
                out.append(tys.SequenceArg([tys.TypeTypeArg(tys.Bool), tys.TypeTypeArg(a)]))
        return out

    def body(b, pool, outer, depth):
        """pool: [wire, type] of this region; outer: wires of enclosing dataflow regions (Ext sources)."""
        nodes = []  # non-boundary children in creation order (for add_state_order)

        def pick(t, ext=True):
            c = [p for p in pool if p[1] == t]
            if ext and "ext" in F and outer and rng.random() < 0.35:
                c = c + [p for p in outer if p[1] == t]
            return rng.choice(c)[0] if c else None

        def push(n, i, t):
            pool.append([n[i], t])

        def note(n):
            nodes.append(n)
            if "meta" in F and rng.random() < 0.3:
                b.hugr[n].metadata["note"] = rng.choice(STRS)
                if rng.random() < 0.5:
                    b.hugr[n].metadata["k"] = rng.choice([0, 3, [1, "a"], {"x": None}, True])

        for _ in range(rng.randint((size + 1) // 2, size)):
            k = rng.choice(
                ["not", "not", "load", "mk", "unpack", "divmod", "nested", "nested", "if", "loop", "call", "call",
                 "loadc", "loadc", "order", "order", "order", "cfg", "cfg", "loadfn", "tag", "noop"]
            )
            if k == "not":
                w = pick(tys.Bool)
                if w is not None:
                    n = b.add_op(Not, w)
                    note(n)
                    push(n, 0, tys.Bool)
            elif k == "load" and "fnval" in F and rng.random() < 0.3:
                from hugr.build.dfg import Dfg

                ts = [rng.choice([tys.Bool, I5]) for _ in range(rng.randint(0, 2))]
                d = Dfg(*ts)
                ws = list(d.inputs())
                if ts and ts[0] == tys.Bool and rng.random() < 0.6:
                    ws[0] = d.add_op(Not, ws[0])[0]
                rng.shuffle(ws)
                d.set_outputs(*ws[: rng.randint(0, len(ws))])
                n = b.load(val.Function(d.hugr))
                note(n)
            elif k == "load":
                t = rng.choice([tys.Bool, tys.Unit, I5, TUP])
                n = b.load(rand_val(t))
                note(n)
                if rng.random() < 0.8:  # sometimes the loaded value stays unused
                    push(n, 0, t)
            elif k == "loadc" and consts:
                c, t = rng.choice(consts)
                n = b.load(c)
                note(n)
                push(n, 0, t)
            elif k == "mk":
                a, c = pick(tys.Bool), pick(I5)
                if a is not None and c is not None:
                    n = b.add(ops.MakeTuple()(a, c))
                    note(n)
                    push(n, 0, TUP)
            elif k == "unpack":
                t = pick(TUP)
                if t is not None:
                    n = b.add(ops.UnpackTuple()(t))
                    note(n)
                    i = rng.randrange(3)
                    if i != 1:
                        push(n, 0, tys.Bool)
                    if i != 0:
                        push(n, 1, I5)
            elif k == "divmod":
                a, c = pick(I5), pick(I5)
                if a is not None and c is not None:
                    n = b.add(DivMod(a, c))
                    note(n)
                    push(n, rng.randrange(2), I5)  # the other output stays unused
            elif k == "noop":
                t = rng.choice(COPY)
                w = pick(t)
                if w is not None:
                    n = b.add(ops.Noop()(w))
                    note(n)
                    push(n, 0, t)
            elif k == "tag":
                w = pick(I5)
                if w is not None:
                    st = tys.Sum([[tys.Bool], [I5], []])
                    n = b.add(ops.Tag(1, st)(w))
                    note(n)
            elif k == "nested" and depth < 2:
                ts = [rng.choice(COPY) for _ in range(rng.randint(0, 2))]
                ws = [pick(t) for t in ts]
                if all(w is not None for w in ws):
                    with b.add_nested(*ws) as nested:
                        ipool = [[w, t] for w, t in zip(nested.inputs(), ts)]
                        body(nested, ipool, outer + pool, depth + 1)
                        outs = ipool[-2:]
                        nested.set_outputs(*[p[0] for p in outs])
                    note(nested.parent_node)
                    for i, p in enumerate(outs):
                        pool.append([nested[i], p[1]])
            elif k == "if" and depth < 2:
                c, x = pick(tys.Bool), pick(I5)
                if c is not None and x is not None:
                    with b.add_if(c, x) as if_:
                        ipool = [[if_.inputs()[0], I5]]
                        body(if_, ipool, outer + pool, depth + 1)
                        if_.set_outputs([p for p in ipool if p[1] == I5][-1][0])
                    with if_.add_else() as else_:
                        ipool = [[else_.inputs()[0], I5]]
                        body(else_, ipool, outer + pool, depth + 1)
                        else_.set_outputs([p for p in ipool if p[1] == I5][-1][0])
                    cn = else_.conditional_node
                    note(cn)
                    pool.append([cn[0], I5])
            elif k == "loop" and depth < 2:
                x = pick(I5)
                if x is not None:
                    with b.add_tail_loop([], [x]) as tl:
                        ipool = [[tl.inputs()[0], I5]]
                        body(tl, ipool, outer + pool, depth + 1)
                        brk = tl.add((ops.Break if rng.random() < 0.5 else ops.Continue)(tys.Either([], []))())
                        tl.set_loop_outputs(brk, [p for p in ipool if p[1] == I5][-1][0])
                    note(tl.parent_node)
                    pool.append([tl[0], I5])
            elif k == "call" and funcs:
                fn, ins, outs, params = rng.choice(funcs)
                a = rng.choice([tys.Bool, I5, TUP])
                if ins == "row":
                    row = [rng.choice([tys.Bool, I5, TUP]) for _ in range(rng.choice([0, 0, 1, 2, 2, 3]))]
                    ins_, outs_ = list(row), list(row)
                    targs = [tys.SequenceArg([tys.TypeTypeArg(t) for t in row])]
                else:
                    ins_, outs_ = [subst(t, a) for t in ins], [subst(t, a) for t in outs]
                    targs = None
                ws = [pick(t) for t in ins_]
                if all(w is not None for w in ws):
                    if params is None:
                        n = b.call(fn, *ws)
                    else:
                        n = b.call(fn, *ws, instantiation=tys.FunctionType(ins_, outs_),
                                   type_args=targs if targs is not None else args_for(params, a))
                    note(n)
                    for i, t in enumerate(outs_):
                        if rng.random() < 0.8:
                            push(n, i, t)
            elif k == "loadfn" and funcs and "loadfn" in F:
                fn, ins, outs, params = rng.choice(funcs)
                a = rng.choice([tys.Bool, I5])
                targs = None
                if ins == "row":
                    row = [rng.choice([tys.Bool, I5]) for _ in range(rng.choice([0, 1, 2]))]
                    ins_, outs_ = list(row), list(row)
                    targs = [tys.SequenceArg([tys.TypeTypeArg(t) for t in row])]
                else:
                    ins_, outs_ = [subst(t, a) for t in ins], [subst(t, a) for t in outs]
                ft = tys.FunctionType(ins_, outs_)
                if params is None:
                    n = b.load_function(fn)
                else:
                    n = b.load_function(fn, instantiation=ft, type_args=targs if targs is not None else args_for(params, a))
                note(n)
                ws = [pick(t) for t in ins_]
                if all(w is not None for w in ws) and rng.random() < 0.7:
                    ci = b.add(ops.CallIndirect()(n[0], *ws))
                    note(ci)
                    for i, t in enumerate(outs_):
                        push(ci, i, t)
            elif k == "order" and "order" in F and len(nodes) >= 2:
                i = rng.randrange(len(nodes) - 1)
                j = rng.randrange(i + 1, len(nodes))
                b.add_state_order(nodes[i], nodes[j])
                if rng.random() < 0.2:
                    b.add_state_order(b.input_node, nodes[j])
                if rng.random() < 0.2:
                    b.add_state_order(nodes[i], b.output_node)
                if rng.random() < 0.25:
                    # a chain  a -> b -> Output : b has a non-boundary predecessor and only the boundary as successor
                    b.add_state_order(nodes[j], b.output_node)
            elif k == "cfg" and "cfg" in F and depth < 2:
                x = pick(I5)
                c = pick(tys.Bool)
                if x is None or c is None:
                    continue
                shape = rng.choice(["diamond", "loop", "chain"])
                cfg = b.add_cfg(c, x)
                if shape == "diamond":
                    with cfg.add_entry() as e:
                        cw, xw = e.inputs()
                        ipool = [[xw, I5]]
                        body(e, ipool, outer + pool, depth + 1)
                        e.set_block_outputs(cw, [p for p in ipool if p[1] == I5][-1][0])
                    with cfg.add_successor(e[0]) as b1:
                        ipool = [[b1.inputs()[0], I5]]
                        body(b1, ipool, outer + pool, depth + 1)
                        b1.set_single_succ_outputs([p for p in ipool if p[1] == I5][-1][0])
                    with cfg.add_successor(e[1]) as b2:
                        b2.set_single_succ_outputs(b2.inputs()[0])
                    cfg.branch_exit(b1[0])
                    cfg.branch_exit(b2[0])
                elif shape == "loop":
                    with cfg.add_entry() as e:
                        cw, xw = e.inputs()
                        e.set_single_succ_outputs(cw, xw)
                    with cfg.add_successor(e[0]) as lb:
                        cw, xw = lb.inputs()
                        ipool = [[xw, I5], [cw, tys.Bool]]
                        body(lb, ipool, outer + pool, depth + 1)
                        # Bool branching: successor 0 = itself (inputs Bool, I5), successor 1 = exit
                        st = tys.Sum([[tys.Bool], []])
                        nb = lb.add_op(Not, cw)
                        tg = lb.add(ops.Tag(0, st)(nb))
                        lb.set_block_outputs(tg, [p for p in ipool if p[1] == I5][-1][0])
                    cfg.branch(lb[0], lb)
                    cfg.branch_exit(lb[1])
                else:
                    with cfg.add_entry() as e:
                        cw, xw = e.inputs()
                        dom = e.add_op(Not, cw)
                        e.set_single_succ_outputs(xw)
                    with cfg.add_successor(e[0]) as b1:
                        b1.set_single_succ_outputs(b1.inputs()[0])
                    with cfg.add_successor(b1[0]) as b2:
                        d2 = b2.add_op(Not, dom)  # Dom wire from the entry block
                        b2.set_single_succ_outputs(b2.inputs()[0], d2)
                    cfg.branch_exit(b2[0])
                note(cfg.parent_node)
                pool.append([cfg[0], I5])

    for i in range(rng.randint(1, 2)):
        ins = [rng.choice(COPY + [tys.Qubit]) for _ in range(rng.randint(0, 3))]
        f = mod.define_function(rng.choice(["main", "f", "g", "λ"]) + ("" if rng.random() < 0.5 else str(i)), ins)
        pool = [[w, t] for w, t in zip(f.inputs(), ins) if t != tys.Qubit]
        qs = [w for w, t in zip(f.inputs(), ins) if t == tys.Qubit]
        if rng.random() < 0.8:  # make most commands applicable
            pool.append([f.load(rng.choice([val.TRUE, val.FALSE]))[0], tys.Bool])
            pool.append([f.load(IntVal(rng.randrange(32), 5))[0], I5])
        body(f, pool, [], 0)
        keep = rng.sample(pool, min(len(pool), rng.randint(0, 3)))
        f.set_outputs(*qs, *[p[0] for p in keep])
        funcs.append((f.parent_node, ins, [tys.Qubit] * len(qs) + [p[1] for p in keep], None))
        if "meta" in F and rng.random() < 0.4:
            mod.hugr[f.parent_node].metadata["doc"] = rng.choice(STRS)
    if "meta" in F and rng.random() < 0.3:
        mod.metadata["name"] = "m"
    return mod.hugr


ALL_FEATS = ["decl", "poly", "const", "alias", "ext", "meta", "order", "cfg", "loadfn", "fnval"]


def _script(name: str):
    """Tiny fixed programs: the minimal replays of the findings and the special shapes of the quantifier."""
    from hugr import ops, tys, val
    from hugr.build.function import Module
    from hugr.std.int import DivMod, IntVal, int_t
    from hugr.std.logic import Not

    mod = Module()
    B = tys.Bool
    if name == "call_once":  # F21 (+F22: static port listed)
        f = mod.define_function("f", [B], [B])
        f.set_outputs(f.inputs()[0])
        g = mod.define_function("main", [B])
        g.set_outputs(g.call(f.parent_node, g.inputs()[0])[0])
    elif name == "call_twice":  # F22: one link name on two consumer-side ports without a producer
        f = mod.define_function("f", [B], [B])
        f.set_outputs(f.inputs()[0])
        g = mod.define_function("main", [B])
        a = g.call(f.parent_node, g.inputs()[0])
        g.set_outputs(g.call(f.parent_node, a[0])[0])
    elif name == "unused_output":  # F22: unused outputs are missing
        g = mod.define_function("main", [int_t(5), int_t(5)])
        n = g.add(DivMod(*g.inputs()))
        g.set_outputs(n[0])
    elif name == "load_unused":  # F22: LoadConst lists its static input, and no output when unused
        g = mod.define_function("main", [])
        g.load(val.TRUE)
        g.set_outputs()
    elif name == "const_twice":
        c = mod.add_const(val.TRUE)
        g = mod.define_function("main", [])
        g.set_outputs(g.load(c)[0], g.load(c)[0])
    elif name == "order":  # F20
        g = mod.define_function("main", [B])
        a = g.add_op(Not, g.inputs()[0])
        b = g.add_op(Not, g.inputs()[0])
        g.add_state_order(a, b)
        g.set_outputs(a[0], b[0])
    elif name == "order_ext":  # order edge created by an Ext wire into a nested region
        g = mod.define_function("main", [B])
        a = g.add_op(Not, g.inputs()[0])
        with g.add_nested() as nest:
            nest.set_outputs(nest.add_op(Not, a[0])[0])
        g.set_outputs(nest[0])
    elif name == "cfg":  # F23
        g = mod.define_function("main", [B])
        cfg = g.add_cfg(g.inputs()[0])
        with cfg.add_entry() as e:
            e.set_block_outputs(e.inputs()[0])
        with cfg.add_successor(e[0]) as b1:
            b1.set_single_succ_outputs(b1.load(val.TRUE)[0])
        with cfg.add_successor(e[1]) as b2:
            b2.set_single_succ_outputs(b2.load(val.FALSE)[0])
        cfg.branch_exit(b1[0])
        cfg.branch_exit(b2[0])
        g.set_outputs(cfg[0])
    elif name == "cfg_single":  # F23: one block; source and target must differ
        g = mod.define_function("main", [B])
        cfg = g.add_cfg(g.inputs()[0])
        with cfg.add_entry() as e:
            e.set_single_succ_outputs(e.inputs()[0])
        cfg.branch_exit(e[0])
        g.set_outputs(cfg[0])
    elif name == "poly":
        v0 = tys.Variable(0, tys.TypeBound.Copyable)
        p = mod.define_function("id", [v0], [v0], type_params=[tys.TypeTypeParam(tys.TypeBound.Copyable)])
        p.set_outputs(p.inputs()[0])
        g = mod.define_function("main", [B, int_t(5)])
        x, y = g.inputs()
        a = g.call(p.parent_node, x, instantiation=tys.FunctionType([B], [B]), type_args=[tys.TypeTypeArg(B)])
        b = g.call(p.parent_node, y, instantiation=tys.FunctionType([int_t(5)], [int_t(5)]),
                   type_args=[tys.TypeTypeArg(int_t(5))])
        lf = g.load_function(p.parent_node, instantiation=tys.FunctionType([B], [B]), type_args=[tys.TypeTypeArg(B)])
        c = g.add(ops.CallIndirect()(lf[0], a[0]))
        g.set_outputs(c[0], b[0])
    elif name == "decl":
        d = mod.declare_function("ext", tys.PolyFuncType([], tys.FunctionType([B], [B, B])))
        g = mod.define_function("main", [B])
        a = g.call(d, g.inputs()[0])
        g.set_outputs(g.call(d, a[1])[0])
    elif name == "cond":  # two cases with different bodies: their order is observable
        g = mod.define_function("main", [B, int_t(5)])
        c, x = g.inputs()
        with g.add_if(c, x) as if_:
            y = if_.add(DivMod(if_.inputs()[0], if_.inputs()[0]))
            if_.set_outputs(y[0])
        with if_.add_else() as else_:
            else_.set_outputs(else_.inputs()[0])
        g.set_outputs(else_.conditional_node[0])
    elif name == "meta_nested":  # metadata on a module child, on a nested node, on a node inside a nested DFG
        g = mod.define_function("main", [B])
        mod.hugr[g.parent_node].metadata["doc"] = "é\n"
        a = g.add_op(Not, g.inputs()[0])
        mod.hugr[a].metadata["k"] = [1, {"x": None}]
        with g.add_nested(a[0]) as nest:
            b = nest.add_op(Not, nest.inputs()[0])
            mod.hugr[b].metadata["note"] = "inner"
            mod.hugr[b].metadata["n"] = 3
            nest.set_outputs(b[0])
        mod.hugr[nest.parent_node].metadata["dfg"] = True
        g.set_outputs(nest[0])
    elif name == "fanout":  # one output feeding three inputs; an unconnected input-side name for each stays distinct
        g = mod.define_function("main", [B])
        x = g.inputs()[0]
        a = g.add_op(Not, x)
        g.set_outputs(a[0], a[0], x)
    elif name == "tail_loop":
        g = mod.define_function("main", [int_t(5)])
        with g.add_tail_loop([], [g.inputs()[0]]) as tl:
            brk = tl.add(ops.Break(tys.Either([], []))())
            tl.set_loop_outputs(brk, tl.inputs()[0])
        g.set_outputs(tl[0])
    elif name == "func_const":  # a function-valued constant: its DFG body becomes a `Func` region
        from hugr.build.dfg import Dfg

        d = Dfg(B, B)
        x, y = d.inputs()
        d.set_outputs(d.add_op(Not, y)[0], x)
        g = mod.define_function("main", [])
        f = g.load(val.Function(d.hugr))
        g.set_outputs(f[0])
    elif name == "empty":
        pass
    else:
        raise KeyError(name)
    return mod.hugr


SCRIPTS = ["call_once", "call_twice", "unused_output", "load_unused", "const_twice", "order", "order_ext", "cfg",
           "cfg_single", "poly", "decl", "cond", "meta_nested", "fanout", "tail_loop", "func_const",
           "empty"]


def build(spec):
    h = _build0(spec)
    if spec.get("late") is not None:
        # the module was exported (and serialised) once before it got its final shape: what is exported later
        # must be the module as it is then
        for f in (h.to_model, h.to_json):
            try:
                f()
            except Exception:  # noqa: BLE001
                pass
        _late_edits(h, spec["late"])
    return h


def _late_edits(h, seed):
    import random

    from hugr import ops, tys
    from hugr.build.dfg import Function

    rng = random.Random(seed)
    B = tys.Bool
    nodes = list(h)
    if isinstance(h[h.root].op, ops.Module) and rng.random() < 0.4:
        # two functions added around a deletion, so that the LATER sibling takes the smaller (reused) index: children are
        # exported in the order of the hierarchy, not of their indices (seeded change C12-15) …
        from hugr import val

        d1 = h.add_node(ops.Const(val.TRUE), h.root)
        f1 = Function.new_nested(ops.FuncDefn(f"late_a{rng.randrange(1000)}", [B, B], []), h, h.root)
        a, b = f1.inputs()
        n1 = f1.add_op(ops.Custom("late2", signature=tys.FunctionType([B], [B, B]), extension="verif"), a)
        n2 = f1.add_op(ops.Noop(), b)
        f1.set_outputs(n1[0], n2[0])
        h.delete_node(d1)
        f2 = Function.new_nested(ops.FuncDefn(f"late_b{rng.randrange(1000)}", [B], []), h, h.root)
        f2.set_outputs(f2.inputs()[0])
        # … and, after one more export, a wire is MOVED (one link deleted, one added: the number of links stays the same):
        # the Noop now reads the second output of the other operation (seeded change C12-16: link names memoised under
        # the number of links)
        try:
            h.to_model()
        except Exception:  # noqa: BLE001
            pass
        h.delete_link(b, n2.inp(0))
        h.add_link(n1.out(1), n2.inp(0))
    for _ in range(rng.randint(1, 3)):
        x = rng.random()
        if x < 0.35:
            h[rng.choice(nodes)].metadata[f"late{rng.randrange(100)}"] = rng.choice([1, "s", [None, {"k": 2}]])
        elif x < 0.7 and isinstance(h[h.root].op, ops.Module):
            fn = Function.new_nested(ops.FuncDefn(f"late_fn{rng.randrange(1000)}", [B, B], []), h, h.root)
            a, b = fn.inputs()
            n1 = fn.add_op(ops.Custom("late_op", signature=tys.FunctionType([B], [B, B]), extension="verif"), a)
            n2 = fn.add_op(ops.Noop(), b)
            fn.add_state_order(n1, n2)
            funcs = [n for n in nodes if isinstance(h[n].op, ops.FuncDecl) and not h[n].op.signature.params
                     and list(h[n].op.signature.body.input) == [B] and list(h[n].op.signature.body.output) == [B]]
            if funcs:
                c = fn.call(rng.choice(funcs), n1[0])
                fn.set_outputs(c[0], n2[0])
            else:
                fn.set_outputs(n1[0], n2[0])
        else:
            kids = [c for c in nodes if h[c].parent is not None and isinstance(h[h[c].parent].op, (ops.DFG, ops.FuncDefn))
                    and isinstance(h[c].op, ops.DataflowOp) and not isinstance(h[c].op, (ops.Input, ops.Output))]
            by_parent = {}
            for c in kids:
                by_parent.setdefault(h[c].parent, []).append(c)
            groups = [v for v in by_parent.values() if len(v) >= 2]
            if groups:
                g = rng.choice(groups)
                big = [v for v in groups if len(v) >= 3]
                if big and rng.random() < 0.5:
                    # two predecessors ordered before one node, the first order edge withdrawn again (by `delete_link`):
                    # the edge that remains must still be exported with keys on both ends (seeded change C12-13)
                    a, b, c = sorted(rng.sample(rng.choice(big), 3), key=lambda n: n.idx)
                    h.add_order_link(a, c)
                    h.add_order_link(b, c)
                    h.delete_link(a.out(-1), c.inp(-1))
                else:
                    a, b = sorted(rng.sample(g, 2), key=lambda n: n.idx)
                    h.add_order_link(a, b)


def _build0(spec):
    k = spec["kind"]
    if k == "prog":
        # the module of a generated well-formed builder program (harness/gen_prog.py, family "module")
        from props import C02

        return C02._prog_hugr(spec["prog"])
    if k == "c09":
        from props.C09 import build_module

        return build_module(spec["seed"], spec["size"])
    if k == "own":
        return _own_module(spec["seed"], spec["size"], spec["feats"])
    if k == "script":
        return _script(spec["name"])
    raise KeyError(k)


# =============================================================================================
# the specification, evaluated on (document, dumped module)
# =============================================================================================

# Port layout (DESIGN.md §4.1; hugr-core/src/ops.rs:150-283, export.rs:458-479): per serialised op
# (number of value inputs, number of value outputs, has static input, has order ports).


def _layout(n):
    op = n["op"]
    sig = lambda s: (len(s["input"]), len(s["output"]))
    if op in ("DFG", "CFG", "CallIndirect", "Extension"):
        i, o = sig(n["signature"])
        if op == "CallIndirect":
            i += 1
        return i, o, 0, True
    if op == "Call":
        i, o = sig(n["instantiation"])
        return i, o, 1, True
    if op == "LoadConstant":
        return 0, 1, 1, True
    if op == "LoadFunction":
        return 0, 1, 1, True
    if op == "Tag":
        return len(n["variants"][n["tag"]]), 1, 0, True
    if op == "Conditional":
        return 1 + len(n["other_inputs"]), len(n["outputs"]), 0, True
    if op == "TailLoop":
        return len(n["just_inputs"]) + len(n["rest"]), len(n["just_outputs"]) + len(n["rest"]), 0, True
    if op == "Input":
        return 0, len(n["types"]), 0, True
    if op == "Output":
        return len(n["types"]), 0, 0, True
    if op == "DataflowBlock":  # control-flow ports (export.rs:459-462)
        return 1, len(n["sum_rows"]), 0, False
    if op == "ExitBlock":
        return 1, 0, 0, False
    return 0, 0, 0, False  # Module, FuncDefn, FuncDecl, Const, Case, AliasDecl, AliasDefn


class _UF:
    def __init__(self):
        self.p = {}

    def find(self, x):
        self.p.setdefault(x, x)
        while self.p[x] != x:
            self.p[x] = self.p[self.p[x]]
            x = self.p[x]
        return x

    def union(self, a, b):
        a, b = self.find(a), self.find(b)
        if a != b:
            self.p[a] = b


EXPECT_OP = {"DFG": "Dfg", "CFG": "Cfg", "DataflowBlock": "Block", "FuncDefn": "DefineFunc", "FuncDecl": "DeclareFunc",
             "AliasDecl": "DeclareAlias", "AliasDefn": "DefineAlias", "TailLoop": "TailLoop",
             "Conditional": "Conditional"}


def _lit(t, kind):
    return t[2] if isinstance(t, list) and len(t) == 3 and t[0] == "lit" and t[1] == kind else None


def _apply(t, sym, nargs):
    if isinstance(t, list) and len(t) == 3 and t[0] == "apply" and t[1] == sym and len(t[2]) == nargs:
        return t[2]
    return None


def _value_matches(v, t, lenient):
    """Does the term `t` denote the serialised constant `v`?  (const inlining, RegionsMirror)"""
    if not isinstance(t, list) or not t:
        return False
    if t[0] == "apply" and t[1] == "core.const.adt":
        if len(t[2]) != 4 or v.get("v") not in ("Sum", "Tuple"):
            return False
        tag = 0 if v["v"] == "Tuple" else v["tag"]
        vals = t[2][3]
        if _lit(t[2][2], "i") != tag or vals[0] != "tuple" or len(vals[1]) != len(v["vs"]):
            return False
        return all(_value_matches(a, b, lenient) for a, b in zip(v["vs"], vals[1]))
    if t[0] == "apply" and t[1] == "compat.const_json":
        if len(t[2]) != 2 or v.get("v") != "Extension":
            return False
        txt = _lit(t[2][1], "s")
        try:
            return txt is not None and bridge.cjson(json.loads(txt)) == bridge.cjson(v["value"])
        except ValueError:
            return False
    if t[0] == "func":
        # the DFG-rooted body HUGR as a dataflow region with its own links (export.rs:998-1011)
        if v.get("v") != "Function" or len(t) != 2:
            return False
        try:
            fs, _ = check_spec(v["hugr"], ["module", t[1]], lenient, root_dfg=True)
        except Exception:  # noqa: BLE001
            return False
        return not fs
    # a constructor of an extension (e.g. arithmetic.int.const): only hugr-py's un-serialised value classes
    # export themselves this way; accepted for the export of the original builder HUGR.
    if not (lenient and t[0] == "apply" and v.get("v") == "Extension" and not t[1].startswith(("core.", "compat."))):
        return False
    if t[1] == "arithmetic.int.const":
        # the integer constructor carries the width and the value the constant holds — the very numbers of its
        # serialised payload, negative values included (seeded change C12-14)
        pl = (v.get("value") or {}).get("v") or {}
        return len(t[2]) == 2 and _lit(t[2][0], "i") == pl.get("log_width") and _lit(t[2][1], "i") == pl.get("value")
    return True


def check_spec(doc, mod, lenient=False, root_dfg=False):
    """All specification predicates; returns (failures, stats).  `mod` is a dumped module."""
    fails: list[Failure] = []
    seen = set()

    def fail(site, cls, detail=""):
        if (site, cls) not in seen:
            seen.add((site, cls))
            fails.append(Failure(site, cls, detail))

    nodes = doc["nodes"]
    N = len(nodes)
    meta = doc.get("metadata") or [None] * N
    children = {i: [] for i in range(N)}
    root = None
    for i, n in enumerate(nodes):
        if n["parent"] == i:
            root = i
        else:
            children[n["parent"]].append(i)
    lay = [_layout(n) for n in nodes]

    # the port graph: ports are (dir, node, offset) with serialised offsets
    uf = _UF()
    static_src = {}
    order_edges = []
    for (s, so), (d, do) in doc["edges"]:
        if so is None or do is None:  # offset-less order edges (hugr-core's encoding); hugr-py writes offsets
            order_edges.append((s, d))
            continue
        uf.union(("out", s, so), ("in", d, do))
        li, lo, ls, lord = lay[d]
        if ls and do == li:
            static_src[d] = s
        if lord and do == li + ls and lay[s][3] and so == lay[s][1]:
            order_edges.append((s, d))

    listing = []  # (port, name, side)  side: "P" producer-side, "C" consumer-side
    exported = {}  # doc node -> dumped model node
    symbols = {}  # doc node of FuncDefn/FuncDecl -> symbol name
    region_of = {}  # doc parent node -> dumped dataflow region
    stats = {"nodes": 0, "links": 0}

    def want(cond, site, cls, detail=""):
        if not cond:
            fail(site, cls, detail)
        return cond

    def ports(i, mnode):
        li, lo, _, _ = lay[i]
        ins, outs = mnode[2], mnode[3]
        blk = nodes[i]["op"] == "DataflowBlock"
        if len(ins) != li:
            stat = len(ins) == li + lay[i][2] and lay[i][2]
            fail("ModelExport.export_node",
                 "block-inputs-not-one-control-port" if blk else
                 ("static-port-listed-as-input" if stat else "inputs-not-the-value-ports"),
                 f"node {i} {nodes[i]['op']}: {len(ins)} inputs listed, signature has {li}")
        if len(outs) != lo:
            fail("ModelExport.export_node",
                 "block-outputs-not-one-per-successor" if blk else "outputs-not-the-value-ports",
                 f"node {i} {nodes[i]['op']}: {len(outs)} outputs listed, signature has {lo}")
        for k, nm in enumerate(ins[:li]):
            listing.append((("in", i, k), nm, "C"))
        for k, nm in enumerate(outs[:lo]):
            listing.append((("out", i, k), nm, "P"))

    def mirror_node(i, mnode):
        n = nodes[i]
        exported[i] = mnode
        stats["nodes"] += 1
        op = mnode[1]
        exp = EXPECT_OP.get(n["op"], "CustomOp")
        if not want(op[0] == exp, "ModelExport.export_node", "operation-kind", f"node {i} {n['op']} exported as {op[0]}"):
            return
        ports(i, mnode)
        # metadata carried over
        have = []
        for m in mnode[5]:
            a = _apply(m, "compat.meta_json", 2)
            if a is not None:
                k, txt = _lit(a[0], "s"), _lit(a[1], "s")
                try:
                    have.append((k, json.dumps(bridge.cjson(json.loads(txt)), sort_keys=True)))
                except (ValueError, TypeError):
                    have.append((k, None))
        wantm = [(k, json.dumps(bridge.cjson(v), sort_keys=True)) for k, v in (meta[i] or {}).items()]
        want(sorted(have, key=repr) == sorted(wantm, key=repr), "ModelExport.export_node",
             "metadata-dropped-for-nested-node" if nodes[n["parent"]]["op"] != "Module" else "metadata-not-carried",
             f"node {i}: metadata {wantm} exported as {have}")
        regs = mnode[4]
        if n["op"] in ("FuncDefn", "FuncDecl"):
            symbols[i] = op[1][1]
        if n["op"] in ("DFG", "TailLoop", "FuncDefn", "DataflowBlock"):
            if want(len(regs) == 1, "ModelExport.export_node", "region-count", f"node {i}"):
                mirror_dfg(i, regs[0])
        elif n["op"] == "Conditional":
            cases = children[i]
            if want(len(regs) == len(cases), "ModelExport.export_node", "case-count", f"node {i}"):
                for c, r in zip(cases, regs):
                    mirror_dfg(c, r)
        elif n["op"] == "CFG":
            if want(len(regs) == 1, "ModelExport.export_node", "region-count", f"node {i}"):
                mirror_cfg(i, regs[0])
        else:
            want(len(regs) == 0, "ModelExport.export_node", "region-count", f"node {i}")
        if n["op"] == "LoadConstant":
            a = _apply(op[1], "core.load_const", 2) if op[0] == "CustomOp" else None
            c = static_src.get(i)
            ok = a is not None and c is not None and nodes[c]["op"] == "Const" and _value_matches(nodes[c]["v"], a[1], lenient)
            want(ok, "ModelExport.export_node", "constant-not-inlined-into-load", f"node {i} loads const {c}")

    def mirror_children(kids, mkids, site, p):
        if not want(len(kids) == len(mkids), site, "children-count",
                    f"region of {p}: {len(mkids)} exported children, hierarchy has {len(kids)}"):
            return
        for c, m in zip(kids, mkids):
            mirror_node(c, m)

    def mirror_dfg(p, reg):
        site = "ModelExport.export_region_dfg"
        want(reg[1] == "DATA_FLOW", site, "region-kind", f"region of {p}")
        region_of[p] = reg
        kids = children[p]
        inp = [c for c in kids if nodes[c]["op"] == "Input"]
        out = [c for c in kids if nodes[c]["op"] == "Output"]
        rest = [c for c in kids if nodes[c]["op"] not in ("Input", "Output", "Const")]
        if inp:
            k = lay[inp[0]][1]
            want(len(reg[2]) == k, site, "sources-not-the-input-ports", f"region of {p}: {len(reg[2])} sources, Input has {k}")
            for j, nm in enumerate(reg[2][:k]):
                listing.append((("out", inp[0], j), nm, "P"))
        if out:
            k = lay[out[0]][0]
            want(len(reg[3]) == k, site, "targets-not-the-output-ports", f"region of {p}: {len(reg[3])} targets, Output has {k}")
            for j, nm in enumerate(reg[3][:k]):
                listing.append((("in", out[0], j), nm, "C"))
        mirror_children(rest, reg[4], site, p)

    def mirror_cfg(p, reg):
        site = "ModelExport.export_region_cfg"
        want(reg[1] == "CONTROL_FLOW", site, "region-kind", f"region of {p}")
        kids = children[p]
        blocks = [c for c in kids if nodes[c]["op"] == "DataflowBlock"]
        exits = [c for c in kids if nodes[c]["op"] == "ExitBlock"]
        # export.rs:688-703: source = the entry block's control INPUT; targets = the exit block's one input
        if want(len(reg[2]) == 1, site, "cfg-source-count", f"region of {p}") and blocks:
            listing.append((("in", blocks[0], 0), reg[2][0], "P"))
        if exits:
            want(len(reg[3]) == 1, site, "cfg-target-count", f"region of {p}: {len(reg[3])} targets")
            for nm in reg[3][:1]:
                listing.append((("in", exits[0], 0), nm, "C"))
        mirror_children(blocks, reg[4], site, p)

    def walk():
        reg = mod[1]
        if root_dfg:
            want(nodes[root]["op"] == "DFG", "Function.to_model", "function-body-not-a-dfg")
            mirror_dfg(root, reg)
            return
        site = "ModelExport.export_region_module"
        want(reg[1] == "MODULE" and not reg[2] and not reg[3], site, "region-kind")
        kids = [c for c in children[root] if nodes[c]["op"] != "Const"]
        mirror_children(kids, reg[4], site, root)

    try:
        walk()
    except (IndexError, TypeError, KeyError) as e:  # malformed dump
        fail("ModelExport", "malformed-module", repr(e))
        return fails, stats

    # ---- LinkFaithful: same name  <=>  same component of the port graph
    by_name = {}
    for port, nm, side in listing:
        by_name.setdefault(nm, []).append((port, side))
    comp_name = {}
    for port, nm, side in listing:
        c = uf.find(port)
        if c in comp_name and comp_name[c] != nm:
            a, b = port, next(p for p, m, _ in listing if uf.find(p) == c and m == comp_name[c])
            second = port[0] == "in" and sum(1 for p, _, _ in listing if uf.find(p) == c and p[0] == "in") > 1
            fail("ModelExport.link_name", "linked-ports-named-differently" + ("-fanout" if second else ""),
                 f"{a} is named {nm}, {b} is named {comp_name[c]}, an edge joins them")
        comp_name.setdefault(c, nm)
    for nm, ps in by_name.items():
        comps = {uf.find(p) for p, _ in ps}
        if len(comps) > 1:
            cf = any(nodes[p[1]]["op"] in ("DataflowBlock", "ExitBlock") for p, _ in ps)
            fail("ModelExport.export_region_cfg" if cf else "ModelExport.link_name",
                 "cfg-source-and-target-share-a-link" if cf else "unlinked-ports-share-a-name",
                 f"link {nm} names {[p for p, _ in ps]} which no edge joins")
        # ---- NoHyperedge (import.rs:262-301)
        distinct = {}
        for p, s in ps:
            distinct[(p, s)] = 1
        P = sum(1 for (_, s) in distinct if s == "P")
        C = sum(1 for (_, s) in distinct if s == "C")
        if P >= 2 and C >= 2:
            fail("ModelExport.link_name", "link-needs-hyperedge", f"link {nm}: {P} producer-side and {C} consumer-side ports")
    stats["links"] = sum(1 for nm, ps in by_name.items() if len(ps) > 1)

    # ---- CallsResolve
    present = set()

    def collect(reg):
        for nd in reg[4]:
            if nd[1][0] in ("DefineFunc", "DeclareFunc"):
                present.add(nd[1][1][1])
            for r in nd[4]:
                collect(r)

    collect(mod[1])
    for i, mnode in exported.items():
        n = nodes[i]
        if n["op"] not in ("Call", "LoadFunction") or mnode[1][0] != "CustomOp":
            continue
        t = mnode[1][1]
        a = _apply(t, "core.call", 3) if n["op"] == "Call" else _apply(t, "core.load_const", 2)
        f = a[-1] if a is not None else None
        if not (isinstance(f, list) and f and f[0] == "apply"):
            fail("ModelExport.export_node", "call-without-function-term", f"node {i}")
            continue
        if f[1] not in present:
            fail("ModelExport.find_func_input", "applied-symbol-not-defined",
                 f"node {i} applies {f[1]!r}; symbols present: {sorted(present)}")
        elif static_src.get(i) in symbols and symbols[static_src[i]] != f[1]:
            fail("ModelExport.find_func_input", "applied-symbol-of-another-function",
                 f"node {i} applies {f[1]!r}, its function edge comes from {symbols[static_src[i]]!r}")

    # ---- OrderHints
    def key_of(mnode):
        ks = [a for a in (_apply(m, "core.order_hint.key", 1) for m in mnode[5]) if a is not None]
        return _lit(ks[0][0], "i") if len(ks) == 1 else None

    for s, d in order_edges:
        p = nodes[s]["parent"]
        if nodes[d]["parent"] != p or s not in exported or d not in exported or p not in region_of:
            continue  # boundary nodes (Input/Output) are not exported as nodes
        ks, kd = key_of(exported[s]), key_of(exported[d])
        if ks is None or kd is None:
            fail("ModelExport.export_node", "order-key-missing-on-an-endpoint", f"order edge {s}->{d}: keys {ks}, {kd}")
            continue
        hints = [a for a in (_apply(m, "core.order_hint.order", 2) for m in region_of[p][5]) if a is not None]
        if not any(_lit(a[0], "i") == ks and _lit(a[1], "i") == kd for a in hints):
            fail("ModelExport.export_region_dfg", "order-hint-missing-on-region",
                 f"order edge {s}->{d} (keys {ks}->{kd}) not among the hints of the region of {p}")
    for p, reg in region_of.items():
        ks = [k for k in (key_of(nd) for nd in reg[4]) if k is not None]
        if len(ks) != len(set(ks)):
            fail("ModelExport.export_node", "order-keys-not-unique-in-region", f"region of {p}: {ks}")
    stats["order"] = len(order_edges)
    return fails, stats


# =============================================================================================
# implementation adapter
# =============================================================================================

_NAMED = (ValueError, TypeError, NotImplementedError, KeyError, IndexError, AssertionError)
_CACHE: dict = {}

# core.py evaluates the cases in worker processes and asks for the payloads in the main process: the workers
# leave the payload text (compressed) in a directory created before the fork, so that the main process does
# not have to rebuild and re-export every program serially.
import atexit
import hashlib
import shutil
import tempfile
import zlib

_PAYDIR = tempfile.mkdtemp(prefix="verif-c12-")
_OWNER = os.getpid()


def _cleanup():
    if os.getpid() == _OWNER:
        shutil.rmtree(_PAYDIR, ignore_errors=True)


atexit.register(_cleanup)


def _payfile(spec):
    return os.path.join(_PAYDIR, hashlib.sha1(json.dumps(spec, sort_keys=True).encode()).hexdigest())


def _payload_text(r):
    m = r["loaded"]
    return bridge.json_sexp([r["doc"], None if isinstance(m, dict) else canon_lits(m)])


def _err(e):
    n = type(e).__name__
    if n in ("IncompleteOp", "InvalidPort", "NoConcreteFunc"):
        return n
    for c in _NAMED:
        if isinstance(e, c):
            return c.__name__
    return "Exception"


def _eval(spec):
    key = json.dumps(spec, sort_keys=True)
    if key in _CACHE:
        return _CACHE[key]
    from hugr.hugr.base import Hugr

    h = build(spec)
    text = h.to_json()
    doc = json.loads(text)
    res = {"doc": doc}
    h2 = Hugr.load_json(text)
    for name, hh in (("loaded", h2), ("original", h)):
        try:
            res[name] = dump_module(hh.to_model())
        except Exception as e:  # noqa: BLE001
            res[name] = {"error": _err(e), "detail": repr(e)[:200]}
    # Package.to_model(): the modules, exported one by one, in order (checked on a quarter of the programs)
    if spec["kind"] == "script" or spec.get("seed", 1) % 4 == 0:
        try:
            from hugr.package import Package

            pk = Package([h2, h]).to_model()
            res["package"] = [dump_module(m) for m in pk.modules]
        except Exception as e:  # noqa: BLE001
            res["package"] = {"error": _err(e), "detail": repr(e)[:200]}
    _CACHE.clear()
    _CACHE[key] = res
    return res


VERDICTS = ["RegionsMirror", "PortsPerSignature", "LinkFaithful", "NoHyperedge", "CallsResolve", "OrderHints",
            "MetaCarried"]

_CLS_TO_VERDICT = {
    "static-port-listed-as-input": "PortsPerSignature", "inputs-not-the-value-ports": "PortsPerSignature",
    "outputs-not-the-value-ports": "PortsPerSignature", "block-inputs-not-one-control-port": "PortsPerSignature",
    "block-outputs-not-one-per-successor": "PortsPerSignature",
    "sources-not-the-input-ports": "PortsPerSignature", "targets-not-the-output-ports": "PortsPerSignature",
    "cfg-source-count": "PortsPerSignature", "cfg-target-count": "PortsPerSignature",
    "linked-ports-named-differently": "LinkFaithful", "linked-ports-named-differently-fanout": "LinkFaithful",
    "unlinked-ports-share-a-name": "LinkFaithful", "cfg-source-and-target-share-a-link": "LinkFaithful",
    "link-needs-hyperedge": "NoHyperedge",
    "call-without-function-term": "CallsResolve", "applied-symbol-not-defined": "CallsResolve",
    "applied-symbol-of-another-function": "CallsResolve",
    "order-key-missing-on-an-endpoint": "OrderHints", "order-hint-missing-on-region": "OrderHints",
    "order-keys-not-unique-in-region": "OrderHints",
    "metadata-not-carried": "MetaCarried", "metadata-dropped-for-nested-node": "MetaCarried",
}


def verdicts(fails):
    bad = {_CLS_TO_VERDICT.get(f.cls, "RegionsMirror") for f in fails}
    return {v: v not in bad for v in VERDICTS}


def _attrs_check(spec):
    repo = Path(os.environ.get("HUGR_REPO", "/repo"))
    py = _py_fields(repo)
    reads, _ = _rust_attrs(repo)
    c = spec["class"]
    return py.get(c), reads.get(c)


def run_impl(spec) -> str:
    if spec["kind"] == "attrs":
        a, b = _attrs_check(spec)
        return json.dumps({"python": a, "rust": b})
    try:
        r = _eval(spec)
    except Exception as e:  # noqa: BLE001
        return json.dumps({"build-error": _err(e), "detail": repr(e)[:300]})
    m = r["loaded"]
    try:
        with open(_payfile(spec), "wb") as f:
            f.write(zlib.compress(_payload_text(r).encode(), 1))
    except OSError:
        pass
    if isinstance(m, dict):
        return json.dumps({"error": m["error"]})
    fails, _ = check_spec(r["doc"], m)
    v = verdicts(fails)
    return json.dumps({"module": m, "spec": v, "spec_model": v})


def oracle(spec):
    if spec["kind"] == "attrs":
        a, b = _attrs_check(spec)
        if a != b:
            return [Failure("hugr.model." + spec["class"], "attributes-differ-from-rust-binding",
                            f"python fields {a} vs rust getattr {b}")]
        return []
    try:
        r = _eval(spec)
    except Exception as e:  # noqa: BLE001
        return [Failure("builder", "build-error", repr(e)[:300])]
    out: list[Failure] = []
    keys = set()
    for name in ("loaded", "original"):
        m = r[name]
        if isinstance(m, dict):
            fs = [Failure("Hugr.to_model", "export-raises-on-valid-module", f"{name}: {m['error']} {m['detail']}")]
        else:
            fs, _ = check_spec(r["doc"], m, lenient=(name == "original"))
        for f in fs:
            if f.key() not in keys:
                keys.add(f.key())
                out.append(dataclasses.replace(f, detail=f"[{name}] {f.detail}"))
    if ("package" in r and not isinstance(r["loaded"], dict) and not isinstance(r["original"], dict)
            and r["package"] != [r["loaded"], r["original"]]):
        out.append(Failure("Package.to_model", "modules-not-exported-one-by-one-in-order", str(r["package"])[:200]))
    return out


def payload(spec):
    if spec["kind"] == "attrs":
        return None
    pf = _payfile(spec)
    try:
        with open(pf, "rb") as f:
            text = zlib.decompress(f.read()).decode()
        os.unlink(pf)
        return "export.run", text
    except (OSError, zlib.error):
        pass
    try:
        r = _eval(spec)
    except Exception:  # noqa: BLE001
        return None
    return "export.run", _payload_text(r)


def compare(spec, impl_obs, model_obs) -> bool:
    try:
        a, b = json.loads(impl_obs), json.loads(model_obs)
    except ValueError:
        return False
    return norm_dump(a) == norm_dump(b)


def nontrivial(spec, obs) -> bool:
    try:
        o = json.loads(obs)
    except ValueError:
        return False
    if "module" not in o:
        return False

    def linked(reg):
        for nd in reg[4]:
            if nd[1][0] == "CustomOp" and (nd[2] or nd[3]):
                return True
            if any(linked(r) for r in nd[4]):
                return True
        return False

    return linked(o["module"][1])


def stats(spec, obs, counters):
    counters[f"kind:{spec['kind']}"] += 1
    if spec["kind"] == "attrs":
        return
    try:
        o = json.loads(obs)
    except ValueError:
        return
    if "module" not in o:
        counters["export-error:" + str(o.get("error", o.get("build-error")))] += 1
        return
    cnt = {"nodes": 0, "depth": 0}
    ops = set()

    def walk(reg, d):
        cnt["depth"] = max(cnt["depth"], d)
        if reg[5]:
            ops.add("region-with-order-hints")
        if reg[1] == "CONTROL_FLOW":
            ops.add("cfg-region")
            if len(reg[4]) > 1:
                ops.add("cfg-with-several-blocks")
        for nd in reg[4]:
            cnt["nodes"] += 1
            ops.add("op:" + nd[1][0])
            if nd[1][0] == "CustomOp":
                ops.add("custom:" + nd[1][1][1] if nd[1][1][1].startswith("core.") else "custom:extension-op")
                if nd[1][1][1] == "core.call" and nd[1][1][2][2][2]:
                    ops.add("call-with-type-args")
            if nd[1][0] in ("DefineFunc", "DeclareFunc") and nd[1][1][2]:
                ops.add("polymorphic-symbol")
            if any(m[0] == "apply" and m[1] == "compat.meta_json" for m in nd[5]):
                ops.add("node-with-metadata")
            if any(m[0] == "apply" and m[1] == "core.order_hint.key" for m in nd[5]):
                ops.add("node-with-order-key")
            for r in nd[4]:
                walk(r, d + 1)

    walk(o["module"][1], 0)
    for k in ops:
        counters[k] += 1
    counters[f"nodes:{min(cnt['nodes'] // 10 * 10, 100)}+"] += 1
    counters[f"depth:{cnt['depth']}"] += 1
    # calls per function / loads per constant are counted from the module text
    txt = obs
    calls = re.findall(r'\["apply", "(_[^"]*_\d+)", \[', txt)
    if calls and max(calls.count(c) for c in set(calls)) > 1:
        counters["function-applied-more-than-once"] += 1
    loads = []

    def find_loads(reg):
        for nd in reg[4]:
            if nd[1][0] == "CustomOp" and nd[1][1][1] == "core.load_const":
                loads.append(json.dumps(nd[1][1][2][1]))
            for r in nd[4]:
                find_loads(r)

    find_loads(o["module"][1])
    if loads and max(loads.count(c) for c in set(loads)) > 1:
        counters["same-constant-or-function-loaded-more-than-once"] += 1
    if '["func", ["region"' in txt:
        counters["function-valued-constant"] += 1
    for f in spec.get("feats", []):
        counters["feat:" + f] += 1


# =============================================================================================
# cases
# =============================================================================================


def corpus():
    return [{"kind": "script", "name": n} for n in SCRIPTS]


def _own_spec(rng, maxsize):
    feats = [f for f in ALL_FEATS if rng.random() < 0.75]
    return {"kind": "own", "seed": rng.randrange(1 << 30), "size": rng.randint(2, maxsize), "feats": feats}


def cases(rng, tier):
    if tier == "quick":
        n09, nown, ms = 120, 280, 10
    elif tier == "thorough":
        n09, nown, ms = 3000, 7000, 14
    else:
        n09, nown, ms = 600, 1500, 12
    if tier == "thorough":
        ms = 12
    def late(sp):
        if rng.random() < 0.25:
            sp = {**sp, "late": rng.randrange(1 << 30)}
        return sp

    for _ in range(n09):
        yield late({"kind": "c09", "seed": rng.randrange(1 << 30), "size": rng.randint(0, ms)})
    for _ in range(max(40, n09 // 2)):
        yield late({"kind": "prog", "prog": [rng.randrange(2**31), rng.randint(3, 24), "module"]})
    for _ in range(nown):
        yield late(_own_spec(rng, ms))


def shrink(spec, pred):
    if spec["kind"] in ("script", "attrs"):
        return spec
    cur = dict(spec)

    def ok(s):
        try:
            return pred(s)
        except Exception:  # noqa: BLE001
            return False

    # a fixed script showing the same failure is the most readable replay
    for n in SCRIPTS:
        s = {"kind": "script", "name": n}
        if ok(s):
            return s
    if cur.get("late") is not None:
        s = {k: v for k, v in cur.items() if k != "late"}
        if ok(s):
            cur = s
    changed = True
    while changed:
        changed = False
        for size in range(0, cur["size"]):
            s = dict(cur, size=size)
            if ok(s):
                cur, changed = s, True
                break
        if cur["kind"] == "own":
            for f in list(cur["feats"]):
                s = dict(cur, feats=[g for g in cur["feats"] if g != f])
                if ok(s):
                    cur, changed = s, True
    return cur


# =============================================================================================
# translated table: dataclass fields of hugr.model  vs  attribute names read by the Rust binding
# =============================================================================================

RUST_TYPE_TO_PY = {"Param": ["Param"], "Symbol": ["Symbol"], "Node": ["Node"], "Region": ["Region"],
                   "Module": ["Module"], "Package": ["Package"]}


def _py_fields(repo):
    """class name -> dataclass field names, in declaration order (parsed from the source: importing
    hugr.model needs the native module)."""
    import ast

    src = (Path(repo) / "hugr-py/src/hugr/model/__init__.py").read_text()
    out = {}
    for node in ast.parse(src).body:
        if not isinstance(node, ast.ClassDef):
            continue
        is_dc = any(
            (isinstance(d, ast.Name) and d.id == "dataclass")
            or (isinstance(d, ast.Call) and getattr(d.func, "id", None) == "dataclass")
            for d in node.decorator_list
        )
        if not is_dc:
            continue
        out[node.name] = [
            st.target.id for st in node.body if isinstance(st, ast.AnnAssign) and isinstance(st.target, ast.Name)
        ]
    return out


def _rust_attrs(repo):
    """class name -> (attribute names read with getattr in extract_bound, in order; call arity in into_pyobject)."""
    src = (Path(repo) / "hugr-model/src/v0/ast/python.rs").read_text()
    reads: dict[str, list[str]] = {}
    arity: dict[str, int] = {}
    impls = re.split(r"\nimpl<'py> pyo3::", src)
    for blk in impls[1:]:
        m = re.match(r"(FromPyObject<'py>|IntoPyObject<'py>) for &?(\w+)", blk)
        if not m:
            continue
        kind, ty = m.group(1), m.group(2)
        if kind.startswith("From"):
            arms = re.split(r'\n\s*"(\w+)"\s*(?:=>|\|)', blk)
            if ty in ("Term", "Operation") and len(arms) > 1:
                # match name { "Cls" => { … getattr("x") … } … }
                for cls, bodytxt in zip(arms[1::2], arms[2::2]):
                    bodytxt = bodytxt.split("\n            _ =>")[0]
                    reads[cls] = re.findall(r'getattr\("(\w+)"\)', bodytxt)
            elif ty == "SeqPart":
                reads["Splice"] = re.findall(r'getattr\("(\w+)"\)', blk)
            else:
                reads[ty] = re.findall(r'getattr\("(\w+)"\)', blk)
        else:
            for cm in re.finditer(r'getattr\("(\w+)"\)\?;\s*py_class\.(call0\(\)|call1\(\((.*?)\)\))', blk, flags=re.S):
                cls = cm.group(1)
                if cm.group(2).startswith("call0"):
                    arity[cls] = 0
                else:
                    args = [a for a in re.split(r",\s*", cm.group(3).strip()) if a.strip()]
                    arity[cls] = len(args)
    return reads, arity


def _lean_str(s):
    return json.dumps(s, ensure_ascii=False)


def _lean_list(xs):
    return "[" + ", ".join(xs) + "]"


def translate(repo, gen_dir):
    problems = []
    try:
        py = _py_fields(repo)
        reads, arity = _rust_attrs(repo)
    except Exception as e:  # noqa: BLE001
        return [f"C12 translate: {e!r}"]
    if len(py) < 20 or len(reads) < 15:
        problems.append(f"C12 translate: extracted too little (python {len(py)} classes, rust {len(reads)})")
    # Rust matches `"Wildcard" => Self::Wildcard` etc. without reading attributes: arms without getattr
    rows_py = sorted(py.items())
    rows_rs = sorted(reads.items())
    txt = [
        "/-  GENERATED by harness/props/C12.py translate() on every run — do not edit.",
        "    python: dataclass fields of hugr-py/src/hugr/model/__init__.py (declaration order)",
        "    rust:   attribute names read with getattr in hugr-model/src/v0/ast/python.rs (extract_bound),",
        "            and the number of positional arguments its into_pyobject passes to each class. -/",
        "namespace HugrVerif.Gen.ModelAttrs",
        "",
        "def pythonFields : List (String × List String) := " + _lean_list(
            ["(" + _lean_str(k) + ", " + _lean_list([_lean_str(x) for x in v]) + ")" for k, v in rows_py]),
        "",
        "def rustReads : List (String × List String) := " + _lean_list(
            ["(" + _lean_str(k) + ", " + _lean_list([_lean_str(x) for x in v]) + ")" for k, v in rows_rs]),
        "",
        "def rustCallArity : List (String × Nat) := " + _lean_list(
            ["(" + _lean_str(k) + ", " + str(v) + ")" for k, v in sorted(arity.items())]),
        "",
        "end HugrVerif.Gen.ModelAttrs",
        "",
    ]
    out = Path(gen_dir) / "ModelAttrs.lean"
    new = "\n".join(txt)
    if not out.exists() or out.read_text() != new:
        out.write_text(new)
    return problems


def obligation_search(build_err, problems):
    """If the attribute table theorem breaks: the witness is the class whose attributes differ."""
    repo = Path(os.environ.get("HUGR_REPO", "/repo"))
    try:
        py = _py_fields(repo)
        reads, arity = _rust_attrs(repo)
    except Exception:  # noqa: BLE001
        return None
    for cls in sorted(set(py) | set(reads)):
        if py.get(cls) != reads.get(cls):
            return {"spec": {"kind": "attrs", "class": cls, "python": py.get(cls), "rust": reads.get(cls)},
                    "site": "hugr.model." + cls, "cls": "attributes-differ-from-rust-binding",
                    "detail": f"python fields {py.get(cls)} vs rust getattr {reads.get(cls)}"}
    return None
