"""C15 — Index-based (tracked) wiring is equivalent to explicit wiring."""
from __future__ import annotations

import json

import gen_prog
import progs
from core import Failure

PROP = "C15"
TITLE = "tracked wiring equals explicit wiring"
LEAN_TARGETS = ["HugrVerif.Props.C15"]
DRIVE_TARGETS = ["HugrVerif.Drive.Build"]
RULE = (
    "TrackedDfg circuits of width 1..6 (Qubit / Bool / int<5> inputs), 1..40 commands over track_wire / "
    "track_wires / track_inputs / untrack_wire / tracked_wire / add / extend / add_op / set_indexed_outputs / "
    "set_tracked_outputs with mixed integer and wire arguments (also wires that are tracked at that moment, passed "
    "explicitly), the same Command objects added again later (a prepared layer of gates applied twice), untracked "
    "holes, metadata on most added nodes; "
    "4% of the circuits name an untracked index once (IndexError expected).  Each circuit gives two cases: the "
    "tracked program and its REFERENCE elaboration (every integer replaced by the wire reference it denotes: "
    "most recent write) on a plain Dfg; both run on the real builders and on the model (stream build.run); the "
    "oracle compares the index table after every command with the reference, and the to_json documents and the "
    "metadata of every node of the two constructions.  Non-trivial = at least one integer argument; distinct by "
    "full spec."
)
TRUSTED = [
    "harness/progs.py interpreter (one real builder call per command); harness/gen_prog.py elaborate_tracked "
    "(the reference 'most recent write' semantics of the index table)",
]
ASSUMPTIONS = [
    "tracked indices are non-negative (a negative integer is Python list indexing, outside the model: !unsupported)",
    "one operation instance per node (W8): the interpreter builds a fresh operation object for every command",
]

F16 = {
    "prog": [
        ["TrackedDfg", "t", [["@unit", 2]], True],
        ["add", "t", "n1", ["@std", "Not"], [0], {"k": 1}],
        ["set_tracked_outputs", "t"],
        ["to_json", "t"],
    ],
    "kind": "tracked",
}


# ----------------------------------------------------------------------------- cases


def _circuit(rng):
    return gen_prog.gen_tracked_circuit(rng, rng.randint(1, 6), rng.randint(1, 40))


def cases(rng, tier):
    n = {"quick": 1000, "thorough": 40000, "search": 6000}[tier]
    for _ in range(n):
        p = _circuit(rng)
        yield {"prog": p, "kind": "tracked"}
        if tier != "search":
            e, _, _ = gen_prog.elaborate_tracked(p)
            yield {"prog": e, "kind": "explicit"}


def payload(spec):
    try:
        return "build.run", progs.prog_sexp(spec["prog"])
    except progs.ProgError:
        return None


def run_impl(spec):
    return progs.observation(spec["prog"])


def compare(spec, impl_obs, model_obs):
    if impl_obs.startswith("outside:"):
        return True
    return progs.same_observation(impl_obs, model_obs)


# ----------------------------------------------------------------------------- oracle


def _port(env, w):
    p = progs.wire_ref(env, w).out_port()
    return (p.node.idx, p.offset)


def _site(c):
    return "TrackedDfg." + c[0]


def oracle(spec):
    if spec.get("kind") != "tracked":
        return []
    prog = spec["prog"]
    elab, bad, tables = gen_prog.elaborate_tracked(prog)
    fails = []
    env = progs.Env()
    docs = []
    # ---- the tracked program on the real TrackedDfg, command by command
    for k, c in enumerate(prog):
        try:
            res = progs.exec_cmd(env, c, docs)
        except progs.ProgError:
            return []
        except Exception as e:  # noqa: BLE001
            cls = progs.exc_name(e)
            if bad == k:
                if cls != "IndexError":
                    fails.append(Failure(_site(c), "untracked-index-wrong-class", f"command {k}: {cls}"))
            else:
                fails.append(Failure(_site(c), "raises", f"command {k}: {cls}"))
            return fails
        if bad == k:
            return [Failure(_site(c), "untracked-index-accepted", f"command {k} names an index that is not tracked")]
        # the index table is the most recent write to every index
        for b, ref in tables[k].items():
            real = [None if w is None else (w.out_port().node.idx, w.out_port().offset) for w in env.b[b].tracked]
            want = [None if w is None else _port(env, w) for w in ref]
            if real != want:
                fails.append(Failure(_site(c), "index-table-differs", f"after command {k}: {real} != {want}"))
                return fails
        # returned values
        if c[0] == "track_wire" and res != ["int", len(tables[k][c[1]]) - 1]:
            fails.append(Failure(_site(c), "returned-index", f"{res}"))
        if c[0] in ("untrack_wire", "tracked_wire"):
            before = tables[k - 1][c[1]] if k > 0 else []
            w = before[c[2]]
            if res != ["wire", *_port(env, w)]:
                fails.append(Failure(_site(c), "returned-wire", f"{res}"))
    # ---- the elaboration on a plain Dfg
    try:
        r2 = progs.run_program(elab)
    except progs.ProgError:
        return fails
    if any(o[0] == "err" for o in r2["outcomes"]):
        fails.append(Failure("Dfg", "explicit-program-raises", json.dumps(r2["outcomes"][-1])))
        return fails
    d1, d2 = progs.norm_json(docs), progs.norm_json(r2["docs"])
    if d1 != d2:
        same_but_meta = len(d1) == len(d2) and all(
            {k: v for k, v in a.items() if k != "metadata"} == {k: v for k, v in b.items() if k != "metadata"}
            for a, b in zip(d1, d2))
        if same_but_meta:
            fails.append(Failure("TrackedDfg.add", "metadata-differs", _first_meta_diff(d1, d2)))
        else:
            fails.append(Failure("TrackedDfg", "document-differs", _first_diff(d1, d2)))
    # ---- node for node: operation, parent, metadata; link for link
    for b, bo in env.b.items():
        if b not in r2["env"].b:
            continue
        h1, h2 = bo.hugr, r2["env"].b[b].hugr
        n1 = [(n.idx, h1[n].parent.idx if h1[n].parent else None, dict(h1[n].metadata)) for n in h1]
        n2 = [(n.idx, h2[n].parent.idx if h2[n].parent else None, dict(h2[n].metadata)) for n in h2]
        if n1 != n2 and not fails:
            fails.append(Failure("TrackedDfg.add", "metadata-differs", f"{n1} != {n2}"))
        l1 = sorted(((s.node.idx, s.offset), (d.node.idx, d.offset)) for s, d in h1.links())
        l2 = sorted(((s.node.idx, s.offset), (d.node.idx, d.offset)) for s, d in h2.links())
        if l1 != l2 and not fails:
            fails.append(Failure("TrackedDfg.add", "links-differ", f"{l1} != {l2}"))
        # outputs in index order
        last = tables[-1].get(b) if tables else None
        if last is not None and any(c[0] == "set_tracked_outputs" and c[1] == b for c in prog):
            want = [_port(env, w) for w in last if w is not None]
            got = []
            for _, srcs in sorted(h1.incoming_links(bo.output_node), key=lambda x: x[0].offset):
                got.extend((s.node.idx, s.offset) for s in srcs)
            if got != want:
                fails.append(Failure("TrackedDfg.set_tracked_outputs", "outputs-not-in-index-order", f"{got} != {want}"))
    return fails


def _first_meta_diff(d1, d2):
    for a, b in zip(d1, d2):
        for i, (x, y) in enumerate(zip(a.get("metadata") or [], b.get("metadata") or [])):
            if x != y:
                return f"node {i}: tracked {x} explicit {y}"
    return "metadata lists differ"


def _first_diff(d1, d2):
    for a, b in zip(d1, d2):
        for key in a:
            if a[key] != b.get(key):
                if isinstance(a[key], list) and isinstance(b.get(key), list):
                    for i, (x, y) in enumerate(zip(a[key], b[key])):
                        if x != y:
                            return f"{key}[{i}]: {json.dumps(x)[:200]} != {json.dumps(y)[:200]}"
                return f"{key}: {json.dumps(a[key])[:200]} != {json.dumps(b.get(key))[:200]}"
    return "number of documents differs"


# ----------------------------------------------------------------------------- evidence


def _has_int(c):
    if c[0] == "add":
        return any(isinstance(w, int) for w in c[4])
    if c[0] == "extend":
        return any(isinstance(w, int) for _, ws in c[3] for w in ws)
    if c[0] == "set_indexed_outputs":
        return any(isinstance(w, int) for w in c[2])
    return c[0] in ("untrack_wire", "tracked_wire", "set_tracked_outputs")


def nontrivial(spec, obs):
    return spec.get("kind") == "tracked" and any(_has_int(c) for c in spec["prog"])


def stats(spec, obs, counters):
    counters["kind:" + spec.get("kind", "?")] += 1
    prog = spec["prog"]
    if spec.get("kind") == "tracked":
        counters[f"width:{len(prog[0][2])}"] += 1
        counters[f"len:{min(len(prog) // 10 * 10, 40)}+"] += 1
        for c in prog:
            counters["cmd:" + c[0]] += 1
            if c[0] == "add":
                ints = sum(isinstance(w, int) for w in c[4])
                counters["add:mixed" if 0 < ints < len(c[4]) else "add:ints" if ints else "add:wires"] += 1
                if c[5]:
                    counters["add:metadata"] += 1
        if any(c[0] == "untrack_wire" for c in prog):
            counters["with-holes"] += 1
        keys = [c[-1]["obj"] for c in prog if c[0] in ("add", "extend") and isinstance(c[-1], dict) and "obj" in c[-1]]
        if len(keys) != len(set(keys)):
            counters["same-command-object-added-again"] += 1
        held = set()
        for k, tb in enumerate(gen_prog.elaborate_tracked(prog)[2]):
            c = prog[k]
            ws = c[4] if c[0] == "add" else [w for _, cw in c[3] for w in cw] if c[0] == "extend" else []
            if any(not isinstance(w, int) and json.dumps(w) in held for w in ws):
                counters["tracked-wire-passed-explicitly"] += 1
                break
            held = {json.dumps(w) for t in tb.values() for w in t if w is not None}
        if '"err"' in obs:
            counters["raises:" + ("IndexError" if "IndexError" in obs else "other")] += 1


def shrink(spec, pred):
    prog = gen_prog.shrink_program(spec["prog"], lambda p: pred({"prog": p, "kind": spec.get("kind", "tracked")}))
    return {"prog": prog, "kind": spec.get("kind", "tracked")}
