"""C09 — package envelopes round-trip and carry the documented header."""
from __future__ import annotations

import ast
import json
import random
import re
from pathlib import Path

from core import Failure
from sexp import A, dumps

PROP = "C09"
TITLE = "Package envelopes round-trip and carry the documented header"
LEAN_TARGETS = ["HugrVerif.Props.C09"]
DRIVE_TARGETS = ["HugrVerif.Drive.Envelope"]
RULE = (
    "stream (i) header decoder: byte strings = (magic | corrupted magic) + format byte + flags byte + tail, "
    "decoded at every truncation 0..10 and in full; quick: 4096 random (format, flags) pairs + the three known "
    "formats x all 256 flags bytes + boundary pairs + corrupted/shifted/short magics; thorough: all 65 536 pairs x 11 truncations. "
    "stream (ii) packages: 0-3 modules built with hugr.build (random typed straight-line programs with "
    "constants, nested DFGs, conditionals, tail loops, calls; non-ASCII function names, string constants "
    "and node metadata) + 0-2 extensions (generated type/op defs or std ones; in half of the packages with both, a "
    "module names operations and types of the bundled extensions as unresolved Custom / Opaque references with "
    "their own recorded description and bound) x formats {JSON, MODULE, "
    "MODULE_WITH_EXTS} x zstd in {None, 0, 1, 3, 19} (+ default config) through to_bytes/from_bytes and "
    "to_str/from_str. Non-trivial = header case whose first 8 bytes are the magic (the format/flags bytes "
    "decide), or a package case with at least one module or extension; distinct by full spec."
)
TRUSTED = [
    "pyzstd, str.encode/bytes.decode('utf-8') and the pydantic package codec are abstract functions in the "
    "model (round-trip hypotheses stated in the theorems); their behaviour is observed only through the oracle",
    "harness/props/C09.py translate(): AST/regex extraction of the envelope constants from envelope.py and header.rs "
    "into Gen/Envelope.lean (regenerated every run; any unrecognised shape is reported as a translator problem)",
]
ASSUMPTIONS = [
    "hugr._hugr (native) is absent: MODULE / MODULE_WITH_EXTS cannot be encoded here; only their header bytes, "
    "the refusal of text encoding and the refusal to decode them are checked",
    "the documents compared are the re-serialised ones (ledger F01: node metadata is not serialised at all)",
]

# ============================================================================= translator

PY_FORMAT_NAMES = ["MODULE", "MODULE_WITH_EXTS", "JSON"]


class _Unparsed(Exception):
    pass


def _int_const(node, what):
    if isinstance(node, ast.Constant) and isinstance(node.value, int) and not isinstance(node.value, bool):
        return node.value
    raise _Unparsed(f"{what}: expected an integer literal, found `{ast.unparse(node)}`")


def _find_func(tree, cls, name):
    body = tree.body
    if cls is not None:
        cs = [n for n in tree.body if isinstance(n, ast.ClassDef) and n.name == cls]
        if len(cs) != 1:
            raise _Unparsed(f"class {cls} not found")
        body = cs[0].body
    fs = [n for n in body if isinstance(n, ast.FunctionDef) and n.name == name]
    if len(fs) != 1:
        raise _Unparsed(f"function {cls + '.' if cls else ''}{name} not found")
    return fs[0]


def _one(items, what):
    items = list(items)
    if len(items) != 1:
        raise _Unparsed(f"{what}: expected exactly one occurrence, found {len(items)}")
    return items[0]


def _is_name(n, name):
    return isinstance(n, ast.Name) and n.id == name


def _is_attr(n, obj, attr):
    return isinstance(n, ast.Attribute) and n.attr == attr and _is_name(n.value, obj)


def _py_literals(src: str) -> dict:
    """Literals inside EnvelopeHeader.to_bytes/from_bytes, read_envelope, make_envelope, _make_header."""
    tree = ast.parse(src)
    out = {}

    # ---- to_bytes
    f = _find_func(tree, "EnvelopeHeader", "to_bytes")
    a = _one(
        (n for n in ast.walk(f) if isinstance(n, ast.Assign) and len(n.targets) == 1 and _is_name(n.targets[0], "flags")),
        "to_bytes: `flags = <literal>`",
    )
    out["pyFlagsBase"] = _int_const(a.value, "to_bytes: flags base")
    iff = _one((n for n in f.body if isinstance(n, ast.If)), "to_bytes: `if self.zstd:`")
    if not _is_attr(iff.test, "self", "zstd") or iff.orelse or len(iff.body) != 1:
        raise _Unparsed(f"to_bytes: unexpected zstd branch `{ast.unparse(iff)}`")
    aug = iff.body[0]
    if not (isinstance(aug, ast.AugAssign) and isinstance(aug.op, ast.BitOr) and _is_name(aug.target, "flags")):
        raise _Unparsed(f"to_bytes: expected `flags |= <literal>`, found `{ast.unparse(aug)}`")
    out["pyZstdSetMask"] = _int_const(aug.value, "to_bytes: zstd mask")
    # statement order: bytearray(MAGIC_NUMBERS); append(self.format.value); flags...; append(flags); return
    shape = [ast.unparse(s) for s in f.body if not isinstance(s, ast.Expr) or not isinstance(s.value, ast.Constant)]
    want = [
        "header_bytes = bytearray(MAGIC_NUMBERS)",
        "header_bytes.append(self.format.value)",
        ast.unparse(a),
        ast.unparse(iff),
        "header_bytes.append(flags)",
        "return bytes(header_bytes)",
    ]
    if shape != want:
        raise _Unparsed(f"to_bytes: statement sequence changed: {shape}")

    # ---- from_bytes
    f = _find_func(tree, "EnvelopeHeader", "from_bytes")
    cmp_len = _one(
        (
            n for n in ast.walk(f)
            if isinstance(n, ast.Compare) and isinstance(n.left, ast.Call) and _is_name(n.left.func, "len")
        ),
        "from_bytes: `len(data) < N`",
    )
    if not (len(cmp_len.ops) == 1 and isinstance(cmp_len.ops[0], ast.Lt) and _is_name(cmp_len.left.args[0], "data")):
        raise _Unparsed(f"from_bytes: unexpected length test `{ast.unparse(cmp_len)}`")
    out["pyMinLen"] = _int_const(cmp_len.comparators[0], "from_bytes: minimum length")
    cmp_magic = _one(
        (
            n for n in ast.walk(f)
            if isinstance(n, ast.Compare) and isinstance(n.left, ast.Subscript) and isinstance(n.left.slice, ast.Slice)
        ),
        "from_bytes: `data[:K] != MAGIC_NUMBERS`",
    )
    sl = cmp_magic.left.slice
    if not (
        _is_name(cmp_magic.left.value, "data") and sl.lower is None and sl.step is None
        and len(cmp_magic.ops) == 1 and isinstance(cmp_magic.ops[0], ast.NotEq)
        and _is_name(cmp_magic.comparators[0], "MAGIC_NUMBERS")
    ):
        raise _Unparsed(f"from_bytes: unexpected magic test `{ast.unparse(cmp_magic)}`")
    out["pyMagicSlice"] = _int_const(sl.upper, "from_bytes: magic slice")
    ifs = [n for n in f.body if isinstance(n, ast.If)]
    if len(ifs) != 2 or ifs[0].test is not cmp_len or ifs[1].test is not cmp_magic:
        raise _Unparsed("from_bytes: expected exactly the two guards `len(data) < N` and `data[:K] != MAGIC_NUMBERS`")
    for g in ifs:
        if g.orelse or not isinstance(g.body[-1], ast.Raise) or "ValueError" not in ast.unparse(g.body[-1]):
            raise _Unparsed("from_bytes: a guard does not end in `raise ValueError(...)`")
    call = _one(
        (n for n in ast.walk(f) if isinstance(n, ast.Call) and _is_name(n.func, "EnvelopeFormat")),
        "from_bytes: `EnvelopeFormat(data[K])`",
    )
    arg = call.args[0] if len(call.args) == 1 else None
    if not (isinstance(arg, ast.Subscript) and _is_name(arg.value, "data")):
        raise _Unparsed(f"from_bytes: unexpected format lookup `{ast.unparse(call)}`")
    out["pyFormatIdx"] = _int_const(arg.slice, "from_bytes: format index")
    fl = _one(
        (
            n for n in ast.walk(f)
            if isinstance(n, ast.Assign) and _is_name(n.targets[0], "flags")
        ),
        "from_bytes: `flags = data[K]`",
    )
    if not (isinstance(fl.value, ast.Subscript) and _is_name(fl.value.value, "data")):
        raise _Unparsed(f"from_bytes: unexpected flags read `{ast.unparse(fl)}`")
    out["pyFlagsIdx"] = _int_const(fl.value.slice, "from_bytes: flags index")
    z = _one(
        (n for n in ast.walk(f) if isinstance(n, ast.Assign) and _is_name(n.targets[0], "zstd")),
        "from_bytes: `zstd = bool(flags & M)`",
    )
    v = z.value
    if not (
        isinstance(v, ast.Call) and _is_name(v.func, "bool") and len(v.args) == 1
        and isinstance(v.args[0], ast.BinOp) and isinstance(v.args[0].op, ast.BitAnd)
        and _is_name(v.args[0].left, "flags")
    ):
        raise _Unparsed(f"from_bytes: unexpected zstd read `{ast.unparse(z)}`")
    out["pyZstdReadMask"] = _int_const(v.args[0].right, "from_bytes: zstd mask")
    ret = f.body[-1]
    if ast.unparse(ret) != "return EnvelopeHeader(format=format, zstd=zstd)":
        raise _Unparsed(f"from_bytes: unexpected return `{ast.unparse(ret)}`")

    # ---- read_envelope
    f = _find_func(tree, None, "read_envelope")
    p = _one(
        (
            n for n in ast.walk(f)
            if isinstance(n, ast.Assign) and _is_name(n.targets[0], "payload") and isinstance(n.value, ast.Subscript)
        ),
        "read_envelope: `payload = envelope[K:]`",
    )
    sl = p.value.slice
    if not (_is_name(p.value.value, "envelope") and isinstance(sl, ast.Slice) and sl.upper is None and sl.step is None):
        raise _Unparsed(f"read_envelope: unexpected payload slice `{ast.unparse(p)}`")
    out["pyPayloadStart"] = _int_const(sl.lower, "read_envelope: payload start")
    iff = _one((n for n in f.body if isinstance(n, ast.If)), "read_envelope: `if header.zstd:`")
    if ast.unparse(iff) != "if header.zstd:\n    payload = pyzstd.decompress(payload)":
        raise _Unparsed(f"read_envelope: unexpected decompression branch `{ast.unparse(iff)}`")

    # ---- make_envelope
    f = _find_func(tree, None, "make_envelope")
    iff = _one((n for n in f.body if isinstance(n, ast.If)), "make_envelope: `if config.zstd is not None:`")
    if ast.unparse(iff) != "if config.zstd is not None:\n    payload = pyzstd.compress(payload, config.zstd)":
        raise _Unparsed(f"make_envelope: unexpected compression branch `{ast.unparse(iff)}`")
    if ast.unparse(f.body[1]) != "envelope = bytearray(config._make_header().to_bytes())":
        raise _Unparsed(f"make_envelope: unexpected header statement `{ast.unparse(f.body[1])}`")

    # ---- make_envelope_str
    f = _find_func(tree, None, "make_envelope_str")
    iff = _one((n for n in f.body if isinstance(n, ast.If)), "make_envelope_str: printable guard")
    if ast.unparse(iff.test) != "not config.format.ascii_printable()" or "raise ValueError" not in ast.unparse(iff.body[-1]):
        raise _Unparsed(f"make_envelope_str: unexpected guard `{ast.unparse(iff)}`")

    # ---- _make_header
    f = _find_func(tree, "EnvelopeConfig", "_make_header")
    if ast.unparse(f.body[-1]) != "return EnvelopeHeader(format=self.format, zstd=self.zstd is not None)":
        raise _Unparsed(f"_make_header: unexpected body `{ast.unparse(f.body[-1])}`")
    return out


def _rust_int(tok: str) -> int:
    tok = tok.replace("_", "")
    tok = re.sub(r"(u8|usize|u32|i32)$", "", tok)
    return int(tok, 0)


def _rs_consts(src: str) -> dict:
    out = {}
    m = re.search(r'pub const MAGIC_NUMBERS\s*:\s*&\[u8\]\s*=\s*(?:"([^"\\]*)"\.as_bytes\(\)|b"([^"\\]*)")\s*;', src)
    if not m:
        raise _Unparsed("header.rs: MAGIC_NUMBERS constant not recognised")
    out["rsMagic"] = list((m.group(1) if m.group(1) is not None else m.group(2)).encode("utf-8"))
    m = re.search(r"pub enum EnvelopeFormat\s*\{(.*?)\n\}", src, flags=re.S)
    if not m:
        raise _Unparsed("header.rs: enum EnvelopeFormat not found")
    body = re.sub(r"//[^\n]*", "", m.group(1))
    variants = re.findall(r"^\s*(\w+)\s*(?:=\s*([0-9xXa-fA-F_bo]+))?\s*,", body, flags=re.M)
    if not variants or any(v[1] == "" for v in variants):
        raise _Unparsed(f"header.rs: EnvelopeFormat variants without explicit discriminant: {variants}")
    out["rsFormats"] = [(n, _rust_int(c)) for n, c in variants]
    m = re.search(r"pub fn ascii_printable\(self\)\s*->\s*bool\s*\{\s*matches!\(self,\s*([^)]*)\)\s*\}", src)
    if not m:
        raise _Unparsed("header.rs: fn ascii_printable not recognised")
    names = [t.strip() for t in m.group(1).split("|")]
    if not all(re.fullmatch(r"Self::\w+", t) for t in names):
        raise _Unparsed(f"header.rs: ascii_printable patterns not recognised: {names}")
    out["rsAsciiPrintable"] = [t[len("Self::"):] for t in names]
    m = re.search(r"pub fn write\(.*?\n    \}", src, flags=re.S)
    if not m:
        raise _Unparsed("header.rs: fn write not found")
    w = m.group(0)
    m1 = re.search(r"let mut flags = ([0-9a-fA-Fxb_]+u8|\d+);", w)
    if not m1 or "flags |= self.zstd as u8;" not in w:
        raise _Unparsed("header.rs: flags computation in `write` not recognised")
    out["rsFlagsBase"] = _rust_int(m1.group(1))
    out["rsZstdSetMask"] = 1  # `flags |= self.zstd as u8`: `true as u8` is 1
    m = re.search(r"pub fn read\(.*?\n    \}", src, flags=re.S)
    if not m:
        raise _Unparsed("header.rs: fn read not found")
    r = m.group(0)
    m1 = re.search(r"let zstd = flags_bytes\[0\] & ([0-9a-fA-Fxb_]+) != 0;", r)
    m2 = re.search(r"let mut magic = \[0; (\d+)\];", r)
    if not m1 or not m2:
        raise _Unparsed("header.rs: `read` not recognised")
    out["rsZstdReadMask"] = _rust_int(m1.group(1))
    out["rsMagicLen"] = int(m2.group(1))
    return out


def _lean_list(xs):
    return "[" + ", ".join(str(x) for x in xs) + "]"


def _lean_str(s: str) -> str:
    return '"' + s.replace("\\", "\\\\").replace('"', '\\"') + '"'


def _lean_pairs(ps):
    return "[" + ", ".join(f"({_lean_str(n)}, {c})" for n, c in ps) + "]"


def _lean_opt_int(z):
    return "none" if z is None else f"(some ({z}))"


def _gen_text(py: dict, rs: dict) -> str:
    L = [
        "/- GENERATED by harness/props/C09.py translate() from hugr-py/src/hugr/envelope.py and",
        "   hugr-core/src/envelope/header.rs on every run. DO NOT EDIT. -/",
        "namespace HugrVerif.Gen.Envelope",
        "",
        "-- hugr-py/src/hugr/envelope.py",
        f"def pyMagic : List Nat := {_lean_list(py['pyMagic'])}",
        f"def pyFormats : List (String × Nat) := {_lean_pairs(py['pyFormats'])}",
        f"def pyAsciiPrintable : List String := [{', '.join(_lean_str(n) for n in py['pyAsciiPrintable'])}]",
    ]
    for k in (
        "pyFlagsBase", "pyZstdSetMask", "pyZstdReadMask", "pyMinLen", "pyMagicSlice",
        "pyFormatIdx", "pyFlagsIdx", "pyPayloadStart",
    ):
        L.append(f"def {k} : Nat := {py[k]}")
    for k in ("pyTextDefault", "pyBinaryDefault"):
        n, z = py[k]
        L.append(f"def {k} : String × Option Int := ({_lean_str(n)}, {_lean_opt_int(z)})")
    L += [
        "",
        "-- hugr-core/src/envelope/header.rs",
        f"def rsMagic : List Nat := {_lean_list(rs['rsMagic'])}",
        f"def rsFormats : List (String × Nat) := {_lean_pairs(rs['rsFormats'])}",
        f"def rsAsciiPrintable : List String := [{', '.join(_lean_str(n) for n in rs['rsAsciiPrintable'])}]",
    ]
    for k in ("rsFlagsBase", "rsZstdSetMask", "rsZstdReadMask", "rsMagicLen"):
        L.append(f"def {k} : Nat := {rs[k]}")
    L += ["", "end HugrVerif.Gen.Envelope", ""]
    return "\n".join(L)


# the values the Lean files were last successfully generated from are kept when a source cannot be
# parsed, so that the project still builds and the problem is reported as an unchecked obligation
_FALLBACK_PY = {
    "pyMagic": list(b"HUGRiHJv"), "pyFormats": [("MODULE", 1), ("MODULE_WITH_EXTS", 2), ("JSON", 63)],
    "pyAsciiPrintable": ["JSON"], "pyFlagsBase": 64, "pyZstdSetMask": 1, "pyZstdReadMask": 1, "pyMinLen": 10,
    "pyMagicSlice": 8, "pyFormatIdx": 8, "pyFlagsIdx": 9, "pyPayloadStart": 10,
    "pyTextDefault": ("JSON", None), "pyBinaryDefault": ("JSON", None),
}
_FALLBACK_RS = {
    "rsMagic": list(b"HUGRiHJv"), "rsFormats": [("Model", 1), ("ModelWithExtensions", 2), ("PackageJson", 63)],
    "rsAsciiPrintable": ["PackageJson"], "rsFlagsBase": 64, "rsZstdSetMask": 1, "rsZstdReadMask": 1, "rsMagicLen": 8,
}


def _py_literals_by_running(mod) -> dict:
    """The same facts as `_py_literals`, obtained from the behaviour of the (freshly executed) module when its
    source is not written the way the AST reader expects (a refactoring).  Every fact is a total check over a
    small domain, not a sample: both zstd settings of every format for the layout, every prefix length for the
    minimum length, every byte of the magic for the magic test, all 256 flags bytes for the read mask."""
    H, F = mod.EnvelopeHeader, mod.EnvelopeFormat
    magic = bytes(mod.MAGIC_NUMBERS)
    n = len(magic)
    out = {}
    base = mask = None
    for f in F:
        b0, b1 = H(format=f, zstd=False).to_bytes(), H(format=f, zstd=True).to_bytes()
        for b in (b0, b1):
            if not (isinstance(b, bytes) and len(b) == n + 2 and b[:n] == magic and b[n] == f.value):
                raise _Unparsed(f"to_bytes({f.name}) = {b!r} is not magic ++ [format] ++ [flags]")
        if base is None:
            base, mask = b0[n + 1], b0[n + 1] ^ b1[n + 1]
        if (b0[n + 1], b1[n + 1]) != (base, base | mask) or base & mask:
            raise _Unparsed("to_bytes: the flags byte is not `base | (mask if zstd)` with one base and mask for all formats")
    out["pyFlagsBase"], out["pyZstdSetMask"] = base, mask
    f0 = next(iter(F))
    good = magic + bytes([f0.value, 0]) + b"\x00" * 6

    def dec(d):
        try:
            return H.from_bytes(d)
        except ValueError:
            return None

    oks = [k for k in range(len(good) + 1) if dec(good[:k]) is not None]
    if not oks or oks != list(range(oks[0], len(good) + 1)):
        raise _Unparsed(f"from_bytes: accepted prefix lengths {oks} are not `>= N`")
    out["pyMinLen"] = oks[0]
    for i in range(n):
        bad = bytearray(good)
        bad[i] ^= 0x20
        if dec(bytes(bad)) is not None:
            raise _Unparsed(f"from_bytes: byte {i} of the magic is not compared")
    out["pyMagicSlice"] = n
    for f in F:
        h = dec(magic + bytes([f.value, 0]))
        if h is None or h.format is not f:
            raise _Unparsed(f"from_bytes: format byte {f.value} at index {n} is not read as {f.name}")
    out["pyFormatIdx"], out["pyFlagsIdx"] = n, n + 1
    rmask = 0
    for b in range(8):
        h = dec(magic + bytes([f0.value, 1 << b]))
        if h is not None and h.zstd:
            rmask |= 1 << b
    for x in range(256):
        h = dec(magic + bytes([f0.value, x]))
        if h is None or bool(h.zstd) != bool(x & rmask):
            raise _Unparsed(f"from_bytes: zstd is not `flags & {rmask:#x}` at flags byte {x:#x}")
    out["pyZstdReadMask"] = rmask
    js = next((f for f in F if f.ascii_printable()), None)
    try:
        ok = js is not None and mod.read_envelope(H(format=js, zstd=False).to_bytes() + b'{"modules":[],"extensions":[]}') is not None
    except Exception:  # noqa: BLE001
        ok = False
    if not ok:
        raise _Unparsed("read_envelope: the payload does not start right after the header")
    out["pyPayloadStart"] = n + 2
    return out


def _fresh_envelope_module(repo: Path):
    import importlib.util
    import sys

    path = repo / "hugr-py" / "src" / "hugr" / "envelope.py"
    spec = importlib.util.spec_from_file_location("_c09_envelope_fresh", path)
    mod = importlib.util.module_from_spec(spec)
    sys.modules[spec.name] = mod  # dataclasses needs the module to be registered
    try:
        spec.loader.exec_module(mod)
    finally:
        sys.modules.pop(spec.name, None)
    return mod


def _py_module_values(repo: Path) -> dict:
    """Module-level values, by executing a fresh copy of envelope.py (not the cached import)."""
    import importlib.util

    path = repo / "hugr-py" / "src" / "hugr" / "envelope.py"
    spec = importlib.util.spec_from_file_location("_c09_envelope_fresh", path)
    mod = importlib.util.module_from_spec(spec)
    import sys

    sys.modules[spec.name] = mod  # dataclasses needs the module to be registered
    try:
        spec.loader.exec_module(mod)
    finally:
        sys.modules.pop(spec.name, None)
    out = {}
    magic = mod.MAGIC_NUMBERS
    if not isinstance(magic, (bytes, bytearray)):
        raise _Unparsed("envelope.py: MAGIC_NUMBERS is not a bytes object")
    out["pyMagic"] = list(magic)
    fm = [(m.name, m.value) for m in mod.EnvelopeFormat]
    if [n for n, _ in fm] != PY_FORMAT_NAMES:
        raise _Unparsed(f"envelope.py: EnvelopeFormat members are {[n for n, _ in fm]}, the model knows {PY_FORMAT_NAMES}")
    if not all(isinstance(v, int) and not isinstance(v, bool) and 0 <= v <= 255 for _, v in fm):
        raise _Unparsed(f"envelope.py: EnvelopeFormat values are not bytes: {fm}")
    out["pyFormats"] = fm
    out["pyAsciiPrintable"] = [m.name for m in mod.EnvelopeFormat if m.ascii_printable()]
    for k, cfg in (("pyTextDefault", mod.EnvelopeConfig.TEXT), ("pyBinaryDefault", mod.EnvelopeConfig.BINARY)):
        if not (cfg.zstd is None or (isinstance(cfg.zstd, int) and not isinstance(cfg.zstd, bool))):
            raise _Unparsed(f"envelope.py: default config has zstd={cfg.zstd!r}")
        out[k] = (cfg.format.name, cfg.zstd)
    return out


def translate(repo, gen_dir):
    repo = Path(repo)
    problems = []
    py = None
    try:
        src = (repo / "hugr-py" / "src" / "hugr" / "envelope.py").read_text()
        py = _py_module_values(repo)
        try:
            py.update(_py_literals(src))
        except _Unparsed as e:
            # not written the way the AST reader expects: read the same facts off the behaviour; what the reader
            # also pinned down syntactically (statement order, the compression branches) is then left to the
            # correspondence streams (every format/flags pair and truncation; packages x configurations)
            py.update(_py_literals_by_running(_fresh_envelope_module(repo)))
            problems.append(f"note: envelope.py: {e}; header constants obtained by running the module instead")
        for k in ("pyFlagsBase", "pyZstdSetMask", "pyZstdReadMask"):
            if not 0 <= py[k] <= 255:
                raise _Unparsed(f"envelope.py: {k} = {py[k]} is not a byte")
    except _Unparsed as e:
        problems.append(f"envelope.py: {e}")
    except Exception as e:  # noqa: BLE001
        problems.append(f"envelope.py cannot be loaded/parsed: {e!r}")
    rs = None
    try:
        rs = _rs_consts((repo / "hugr-core" / "src" / "envelope" / "header.rs").read_text())
    except _Unparsed as e:
        problems.append(str(e))
    except Exception as e:  # noqa: BLE001
        problems.append(f"header.rs cannot be read/parsed: {e!r}")
    out = Path(gen_dir) / "Envelope.lean"
    if [p for p in problems if not p.startswith("note: ")] and out.exists():
        return problems  # keep the last good file so the project builds; the problem fails the obligations
    py_ok = py is not None and set(py) == set(_FALLBACK_PY)
    text = _gen_text(py if py_ok else _FALLBACK_PY, rs or _FALLBACK_RS)
    if not out.exists() or out.read_text() != text:
        out.write_text(text)
    return problems


# ============================================================================= reference constants
# The oracle's own reading of the documentation (module docstring of envelope.py + property text);
# deliberately NOT taken from the code under test.

DOC_MAGIC = b"HUGRiHJv"
DOC_CODES = {1: "MODULE", 2: "MODULE_WITH_EXTS", 63: "JSON"}
DOC_NAME_CODE = {v: k for k, v in DOC_CODES.items()}
DOC_PRINTABLE = {"JSON"}
ZSTD_LEVELS = [None, 0, 1, 3, 19]
ZSTD_FRAME_MAGIC = bytes.fromhex("28b52ffd")  # RFC 8878: every zstd frame starts with 0xFD2FB528 (little endian)


def _doc_header(fmt_name: str, zstd: bool) -> bytes:
    return DOC_MAGIC + bytes([DOC_NAME_CODE[fmt_name], 0b01000000 | (1 if zstd else 0)])


def _cls(e: BaseException) -> str:
    if isinstance(e, ValueError):
        return "ValueError"
    if isinstance(e, IndexError):
        return "IndexError"
    return "Exception"


# ============================================================================= package generator

NAMES = ["f", "main", "idé", "λ-calc", "函数", 'f"q\\', "emoji😀", "a b", "ñ", ""]
STRS = ["", "plain", "üñï", "日本語", 'quote"back\\slash', "line\nbreak", "😀", "\u0000nul", "tab\t", "é" * 40]
STD_EXTS = [
    "logic", "prelude", "ptr", "arithmetic.int", "arithmetic.int.types", "arithmetic.float.types", "arithmetic.float",
    "arithmetic.conversions", "collections.list", "collections.static_array",
]


def build_module(seed: int, size: int):
    """A random module made with the real builders: declarations, definitions whose bodies are typed
    straight-line programs with constants, tuples, int ops, nested DFGs, if/else, tail loops and calls;
    non-ASCII names, string constants and metadata."""
    from hugr import ops, tys, val
    from hugr.build.function import Module
    from hugr.std.float import FLOAT_T, FloatVal
    from hugr.std.int import DivMod, IntVal, int_t
    from hugr.std.logic import Not
    from hugr.std.prelude import STRING_T, StringVal

    rng = random.Random(seed)
    mod = Module()
    I5, I3 = int_t(5), int_t(3)
    TUP = tys.Tuple(tys.Bool, I5)
    COPY = [tys.Bool, tys.Unit, I5, I3, FLOAT_T, tys.USize(), STRING_T, TUP]

    def rand_type():
        return rng.choice([*COPY, tys.Qubit])

    def rand_val(t):
        if t == tys.Bool:
            return rng.choice([val.TRUE, val.FALSE])
        if t == tys.Unit:
            return val.Unit
        if t == I5:
            return IntVal(rng.randrange(32), 5)
        if t == I3:
            return IntVal(rng.randrange(8), 3)
        if t == FLOAT_T:
            return FloatVal(rng.choice([0.0, 1.5, -2.25, 1e10]))
        if t == STRING_T:
            return StringVal(rng.choice(STRS))
        if t == TUP:
            return val.Tuple(rng.choice([val.TRUE, val.FALSE]), IntVal(rng.randrange(32), 5))
        return None

    funcs = []  # (node, input types, output types)
    for i in range(rng.randint(0, 2) if size else 0):
        ins = [rand_type() for _ in range(rng.randint(0, 2))]
        outs = [rand_type() for _ in range(rng.randint(0, 2))]
        d = mod.declare_function(rng.choice(NAMES) + str(i), tys.PolyFuncType([], tys.FunctionType(ins, outs)))
        funcs.append((d, ins, outs))

    def last_of(pool, t):
        return [p for p in pool if p[1] == t][-1][0]

    def body(b, pool, depth):
        def pick(t):
            c = [p for p in pool if p[1] == t and not (t == tys.Qubit and p[2])]
            if not c:
                return None
            p = rng.choice(c)
            if t == tys.Qubit:
                p[2] = True
            return p[0]

        def push(w, t):
            pool.append([w, t, False])

        for _ in range(rng.randint(size // 2, size)):
            k = rng.randrange(10)
            md = {"note": rng.choice(STRS), "n": rng.randrange(5)} if rng.random() < 0.3 else None
            if k == 0:
                w = pick(tys.Bool)
                if w is not None:
                    push(b.add_op(Not, w, metadata=md) if md else b.add_op(Not, w), tys.Bool)
            elif k == 1:
                t = rng.choice(COPY)
                v = rand_val(t)
                if v is not None:
                    n = b.load(v)
                    push(n, t)
                    if md:
                        b.hugr[n].metadata.update(md)
            elif k == 2:
                a, c = pick(tys.Bool), pick(I5)
                if a is not None and c is not None:
                    push(b.add(ops.MakeTuple()(a, c), metadata=md), TUP)
            elif k == 3:
                t = pick(TUP)
                if t is not None:
                    n = b.add(ops.UnpackTuple()(t))
                    push(n[0], tys.Bool)
                    push(n[1], I5)
            elif k == 4:
                a, c = pick(I5), pick(I5)
                if a is not None and c is not None:
                    n = b.add(DivMod(a, c))
                    push(n[0], I5)
                    push(n[1], I5)
            elif k == 5 and depth < 2:
                ts = [rng.choice(COPY) for _ in range(rng.randint(0, 2))]
                ws = [pick(t) for t in ts]
                if all(w is not None for w in ws):
                    with b.add_nested(*ws) as nested:
                        ipool = [[w, t, False] for w, t in zip(nested.inputs(), ts)]
                        body(nested, ipool, depth + 1)
                        outs = ipool[-3:]
                        nested.set_outputs(*[p[0] for p in outs])
                    for i, p in enumerate(outs):
                        push(nested[i], p[1])
            elif k == 6 and depth < 2:
                c, x = pick(tys.Bool), pick(I5)
                if c is not None and x is not None:
                    with b.add_if(c, x) as if_:
                        ipool = [[if_.inputs()[0], I5, False]]
                        body(if_, ipool, depth + 1)
                        if_.set_outputs(last_of(ipool, I5))
                    with if_.add_else() as else_:
                        else_.set_outputs(else_.inputs()[0])
                    push(else_.conditional_node[0], I5)
            elif k == 7 and depth < 2:
                x = pick(I3)
                if x is not None:
                    with b.add_tail_loop([], [x]) as tl:
                        ipool = [[tl.inputs()[0], I3, False]]
                        body(tl, ipool, depth + 1)
                        either = tys.Either([], [])
                        brk = tl.add((ops.Break if rng.random() < 0.5 else ops.Continue)(either)())
                        tl.set_loop_outputs(brk, last_of(ipool, I3))
                    push(tl[0], I3)
            elif k == 8 and funcs:
                fn, ins, outs = rng.choice(funcs)
                ws = [pick(t) for t in ins]
                if all(w is not None for w in ws):
                    n = b.call(fn, *ws)
                    for i, t in enumerate(outs):
                        push(n[i], t)
            elif k == 9:
                t = rng.choice(COPY)
                w = pick(t)
                if w is not None:
                    push(b.add(ops.Noop()(w), metadata=md), t)

    for _ in range(rng.randint(1, 3) if size else 0):
        ins = [rand_type() for _ in range(rng.randint(0, 3))]
        f = mod.define_function(rng.choice(NAMES), ins)
        pool = [[w, t, False] for w, t in zip(f.inputs(), ins)]
        body(f, pool, 0)
        outs = [p for p in pool if not (p[1] == tys.Qubit and p[2])]
        rng.shuffle(outs)
        keep = [p for p in outs if p[1] == tys.Qubit] + [p for p in outs if p[1] != tys.Qubit][: rng.randint(0, 3)]
        f.set_outputs(*[p[0] for p in keep])
        funcs.append((f, ins, [p[1] for p in keep]))
        if rng.random() < 0.4:
            mod.hugr[f.parent_node].metadata["doc"] = rng.choice(STRS)
    if size and rng.random() < 0.3:
        mod.add_const(rand_val(rng.choice([tys.Bool, I5, FLOAT_T, STRING_T, TUP])))
    if rng.random() < 0.4:
        mod.metadata["name"] = rng.choice(STRS)
    return mod.hugr


def build_ext(desc):
    """["std", name] -> a standard extension; ["gen", seed] -> a generated one (type defs with
    parameters and both kinds of bound, op defs with polymorphic signatures / binary, values)."""
    from hugr import ext, tys, val
    from hugr.std import _load_extension
    from hugr.std.int import IntVal, int_t
    from hugr.std.prelude import StringVal

    if desc[0] == "std":
        return _load_extension(desc[1])
    seed = desc[1]
    rng = random.Random(seed)
    name = rng.choice(["my_ext", "ext.sub", "ünï.ext", "拡張"]) + str(seed)
    e = ext.Extension(
        name,
        ext.Version(rng.randrange(3), rng.randrange(10), rng.randrange(10),
                    prerelease=rng.choice([None, None, "rc.1", "alpha", "0.3.7"]),
                    build=rng.choice([None, None, "build.7", "sha.5114f85"])),
        runtime_reqs=set(rng.sample(["prelude", "logic", "arithmetic.int.types", "x.ü"], rng.randint(0, 3))),
    )
    params_pool = [
        tys.TypeTypeParam(tys.TypeBound.Any), tys.TypeTypeParam(tys.TypeBound.Copyable),
        tys.BoundedNatParam(7), tys.BoundedNatParam(), tys.StringParam(),
        tys.ListParam(tys.StringParam()), tys.TupleParam([tys.BoundedNatParam(3), tys.StringParam()]),
    ]
    tds = []
    for i in range(rng.randint(0, 3)):
        ps = [rng.choice(params_pool) for _ in range(rng.randint(0, 2))]
        idx = [j for j, p in enumerate(ps) if isinstance(p, tys.TypeTypeParam)]
        bound = (
            ext.FromParamsBound(idx) if idx and rng.random() < 0.5
            else ext.ExplicitBound(rng.choice([tys.TypeBound.Copyable, tys.TypeBound.Any]))
        )
        tds.append(e.add_type_def(ext.TypeDef(
            name=rng.choice(["T", "Тип", "t y"]) + str(i), description=rng.choice(STRS), params=ps, bound=bound)))
    for i in range(rng.randint(0, 3)):
        ps = [rng.choice(params_pool) for _ in range(rng.randint(0, 2))]
        tyvars = [tys.Variable(j, p.bound) for j, p in enumerate(ps) if isinstance(p, tys.TypeTypeParam)]
        pool = [tys.Bool, tys.Qubit, int_t(4), tys.Unit, *tyvars, *[td.instantiate([]) for td in tds if not td.params]]
        ft = tys.FunctionType(
            [rng.choice(pool) for _ in range(rng.randint(0, 3))], [rng.choice(pool) for _ in range(rng.randint(0, 2))])
        r = rng.random()
        # static signature (binary flag set or not — both occur in the bundled extensions, e.g. inarrow_s), or
        # a binary-computed signature only
        sig = (ext.OpDefSig(tys.PolyFuncType(ps, ft), binary=r < 0.25) if r < 0.85 else ext.OpDefSig(None, binary=True))
        misc = {rng.choice(STRS): rng.choice([*STRS, 1, None, [1, "ü"], {"k": "日"}])} if rng.random() < 0.5 else {}
        e.add_op_def(ext.OpDef(
            name=rng.choice(["Op", "Ωp", "op.x"]) + str(i), signature=sig, description=rng.choice(STRS), misc=misc))
    for i in range(rng.randint(0, 2)):
        v = rng.choice([val.TRUE, val.Unit, val.Tuple(val.TRUE, val.FALSE), IntVal(3, 4), StringVal(rng.choice(STRS))])
        e.add_extension_value(ext.ExtensionValue(name="v" + rng.choice(["", "é"]) + str(i), val=v))
    return e


def build_package(spec):
    from hugr.package import Package

    mods = [build_module(s, n) for s, n in spec["mods"]]
    exts = [build_ext(d) for d in spec["exts"]]
    if spec.get("link") is not None and mods and exts:
        _use_bundled(mods[0], exts, spec["link"])
    if spec.get("reuse") and mods:
        _reuse_indices(mods[-1])
    return Package(mods, exts)


def _reuse_indices(h):
    """the module is edited before it is packed: two nodes are deleted and a function is defined afterwards, so that the
    FuncDefn takes the larger freed index and its Input the smaller one — every freed index is in use again and a child
    has a smaller index than its parent (seeded change C09-14: a hierarchy walk that falls back to index order when no
    index is vacant)"""
    from hugr import ops, tys, val
    from hugr.build.dfg import DfBase

    cs = [h.add_const(val.TRUE), h.add_const(val.FALSE), h.add_const(val.Unit)]
    h.delete_node(cs[0])
    h.delete_node(cs[1])
    fb = DfBase.new_nested(ops.FuncDefn("after_reuse", [tys.Bool], []), h, h.root)
    fb.set_outputs(fb.inputs()[0])


def _use_bundled(h, exts, seed):
    """a function in module `h` whose nodes name operations and types of the extensions that travel in the same
    package, the way a document written elsewhere does: as unresolved (Custom / Opaque) references whose recorded
    description, signature and bound are the node's own and need not repeat the definition's"""
    from hugr import ops, tys
    from hugr.build.dfg import DfBase

    rng = random.Random(seed)
    fb = DfBase.new_nested(ops.FuncDefn("uses_bundled", [tys.Bool], []), h, h.root)
    w = fb.inputs()[0]
    for e in rng.sample(exts, min(len(exts), 2)):
        for name in rng.sample(sorted(e.operations), min(len(e.operations), 2)):
            t = tys.Bool
            if e.types and rng.random() < 0.6:
                td = e.types[rng.choice(sorted(e.types))]
                t = tys.Opaque(id=td.name, bound=rng.choice([tys.TypeBound.Copyable, tys.TypeBound.Any]), args=[], extension=e.name)
            op = ops.Custom(op_name=name, signature=tys.FunctionType([tys.Bool], [t]), description=rng.choice(["", "recorded here", e.operations[name].description]), extension=e.name, args=[])
            fb.add_op(op, w)
    fb.set_outputs(w)


def _canon(x, key=None):
    """JSON value with the set-typed requirement lists (hash-ordered, ledger F29) sorted."""
    if isinstance(x, dict):
        return {k: _canon(v, k) for k, v in x.items()}
    if isinstance(x, list):
        ys = [_canon(v) for v in x]
        if key == "runtime_reqs" and all(isinstance(v, str) for v in ys):
            return sorted(ys)
        return ys
    return x


def _docs(pkg):
    """The documents each module / extension re-serialises to, in order."""
    return (
        [_canon(json.loads(m._to_serial().model_dump_json())) for m in pkg.modules],
        [_canon(json.loads(e._to_serial().model_dump_json())) for e in pkg.extensions],
    )


def _all_cfgs():
    return ["default"] + [[f, z] for f in PY_FORMAT_NAMES for z in ZSTD_LEVELS]


def _mk_cfg(c):
    from hugr.envelope import EnvelopeConfig, EnvelopeFormat

    if c == "default":
        return None
    return EnvelopeConfig(format=EnvelopeFormat[c[0]], zstd=c[1])


# ----------------------------------------------------------------------------- raw evaluation (cached)

_CACHE = {"key": None, "val": None}


def _eval_pkg(spec):
    """Raw results of the real code for every configuration: shared by run_impl and oracle (the
    judgement is made separately in each)."""
    key = json.dumps(spec, sort_keys=True)
    if _CACHE["key"] == key:
        return _CACHE["val"]
    from hugr.package import Package

    res = {"build": None, "cfgs": []}
    try:
        pkg = build_package(spec)
        want = _docs(pkg)
    except Exception as e:  # noqa: BLE001
        res["build"] = repr(e)
        _CACHE.update(key=key, val=res)
        return res
    res["want"] = want
    for c in spec["cfgs"]:
        r = {"cfg": c}
        try:
            cfg = _mk_cfg(c)
        except Exception as e:  # noqa: BLE001
            r["bad_cfg"] = repr(e)
            res["cfgs"].append(r)
            continue
        for mode, enc, dec in (
            ("bytes", lambda: pkg.to_bytes(cfg), Package.from_bytes),
            ("str", lambda: pkg.to_str(cfg), Package.from_str),
        ):
            m = {}
            try:
                out = enc()
                m["enc"] = "ok"
                raw = out if mode == "bytes" else out.encode("utf-8", "surrogatepass")
                m["head"] = raw[:10]
                m["zframe"] = raw[10:14] == ZSTD_FRAME_MAGIC
                m["type_ok"] = isinstance(out, bytes if mode == "bytes" else str)
            except Exception as e:  # noqa: BLE001
                m["enc"] = _cls(e)
                m["enc_exc"] = repr(e)[:200]
                r[mode] = m
                continue
            try:
                q = dec(out)
                m["dec"] = "ok"
                m["got"] = _docs(q)
            except Exception as e:  # noqa: BLE001
                m["dec"] = _cls(e)
                m["dec_exc"] = repr(e)[:200]
            r[mode] = m
        res["cfgs"].append(r)
    # the same package object, modified after it has been encoded, and encoded again: the property
    # holds for the package as it is at the time of each call
    try:
        from hugr.envelope import EnvelopeConfig, EnvelopeFormat

        pkg.modules.append(build_module(len(spec["mods"]) + 17, 1))
        if pkg.extensions:
            pkg.extensions.reverse()
        # definitions of the package's own (generated) extensions edited in place, names unchanged
        for e in pkg.extensions:
            if e.name.startswith(("arithmetic", "collections", "logic", "prelude", "ptr", "tket")):
                continue  # bundled extensions are shared objects: left alone
            for od in list(e.operations.values())[:2]:
                od.description = (od.description or "") + " (edited after the first encoding)"
                od.misc = {**(od.misc or {}), "verif.edited": len(spec["mods"])}
            for td in list(e.types.values())[:1]:
                td.description = (td.description or "") + " (edited)"
        if len(pkg.modules) > 1:
            pkg.modules[0].root.metadata["verif.touched"] = [len(spec["mods"])]
            pkg.modules[0][pkg.modules[0].root].metadata["verif.touched"] = [len(spec["mods"])]
        want2 = _docs(pkg)
        mut = {"want": want2}
        try:
            out2 = pkg.to_bytes(EnvelopeConfig(format=EnvelopeFormat.JSON, zstd=None))
            mut["got"] = _docs(Package.from_bytes(out2))
        except Exception as e:  # noqa: BLE001
            mut["exc"] = repr(e)[:200]
        res["mut"] = mut
        # one configuration OBJECT used, edited in place (compression switched on / off / to another level) and used again:
        # each envelope carries the header of the configuration as it is at the time of the call (seeded change C09-15:
        # the header bytes cached on the configuration at first use)
        reuse = []
        cfg1 = EnvelopeConfig(format=EnvelopeFormat.JSON, zstd=None)
        for z in (None, 0, None, 3):
            cfg1.zstd = z
            try:
                raw = pkg.to_bytes(cfg1)
                ok = _docs(Package.from_bytes(raw)) == want2
                reuse.append({"z": z, "head": raw[:10], "zframe": raw[10:14] == ZSTD_FRAME_MAGIC, "same": ok})
            except Exception as e:  # noqa: BLE001
                reuse.append({"z": z, "exc": repr(e)[:200]})
        res["cfg_reuse"] = reuse
        # a compressed envelope cut off in the middle of its payload (a partially written file) is refused — and the intact
        # envelope decoded right afterwards, in the same process, comes back whole (seeded changes C09-6 / C09-7: one
        # streaming decompressor shared by all calls, left mid-frame by the failed decode)
        try:
            rawz = pkg.to_bytes(EnvelopeConfig(format=EnvelopeFormat.JSON, zstd=0))
            cut = rawz[: 10 + max(1, (len(rawz) - 10) // 2)]
            try:
                Package.from_bytes(cut)
                res["after_truncated"] = {"cut_accepted": True}
            except Exception:  # noqa: BLE001
                try:
                    res["after_truncated"] = {"same": _docs(Package.from_bytes(rawz)) == want2}
                except Exception as e:  # noqa: BLE001
                    res["after_truncated"] = {"exc": repr(e)[:200]}
        except Exception as e:  # noqa: BLE001
            res["after_truncated"] = {"skip": repr(e)[:200]}
    except Exception as e:  # noqa: BLE001
        res["mut"] = {"skip": repr(e)[:200]}
    # reference: the package codec without any envelope
    try:
        import hugr._serialization.extension as ext_s

        res["plain"] = _docs(ext_s.Package.model_validate_json(pkg._to_serial().model_dump_json()).deserialize())
    except Exception as e:  # noqa: BLE001
        res["plain"] = repr(e)
    _CACHE.update(key=key, val=res)
    return res


# ============================================================================= cases


def _hdr_spec(data: bytes, lens=None):
    return {"k": "hdr", "data": data.hex(), "lens": list(range(len(data) + 1)) if lens is None else lens}


def _boundary_hdr():
    out = []
    for f in (0, 1, 2, 3, 62, 63, 64, 127, 128, 255):
        for g in (0, 1, 2, 0x3E, 0x3F, 0x40, 0x41, 0x42, 0x7F, 0x80, 0x81, 0xC0, 0xC1, 0xFE, 0xFF):
            out.append(_hdr_spec(DOC_MAGIC + bytes([f, g])))
    # longer inputs: header + payload
    out.append(_hdr_spec(DOC_MAGIC + b"?@{}", None))
    out.append(_hdr_spec(DOC_MAGIC + b"?A" + bytes(range(200, 220)), [10, 11, 30]))
    # corrupted magic: every single byte changed (one bit / one step), case changes, shifts, swaps
    for i in range(8):
        for delta in (1, 0x20, 0x80):
            m = bytearray(DOC_MAGIC)
            m[i] ^= delta
            out.append(_hdr_spec(bytes(m) + b"?@"))
    for m in (
        b"\0" * 8, b"hugrihjv", b"HUGRIHJV", b"HUGRiHJ\0", b" HUGRiHJ", b"UGRiHJv?", b"vJHiRGUH", b"HUGRHUGR",
        b"\xffUGRiHJv", b"HUGRiHJw",
    ):
        out.append(_hdr_spec(m + b"?@"))
        out.append(_hdr_spec(m + b"\x01A"))
    out.append(_hdr_spec(b"\0" + DOC_MAGIC + b"?@"))  # shifted by one
    out.append(_hdr_spec(DOC_MAGIC[1:] + b"?@{}"))  # first byte missing, still >= 10 bytes
    out.append(_hdr_spec(b""))
    out.append(_hdr_spec(b"?@"))
    out.append(_hdr_spec(b"{}" * 8))
    return out


def _enc_specs():
    """EnvelopeHeader(fmt, zstd).to_bytes() and EnvelopeConfig(fmt, level)._make_header().to_bytes()."""
    return [{"k": "enc", "fmt": f, "zstd": z} for f in PY_FORMAT_NAMES for z in (False, True)] + [
        {"k": "enc", "fmt": f, "level": z} for f in PY_FORMAT_NAMES for z in [*ZSTD_LEVELS, 22, -7]
    ]


def _rand_pkg_spec(rng, cfgs=None):
    nm = rng.choice([0, 1, 1, 2, 2, 3])
    ne = rng.choice([0, 0, 1, 1, 2])
    mods = [[rng.randrange(1 << 30), rng.choice([0, 2, 4, 6, 9, 14])] for _ in range(nm)]
    exts = []
    for _ in range(ne):
        if rng.random() < 0.6:
            exts.append(["gen", rng.randrange(1 << 30)])
        else:
            exts.append(["std", rng.choice(STD_EXTS)])
    # no two equal extension descriptors: order swaps must be observable
    exts = [d for i, d in enumerate(exts) if d not in exts[:i]]
    if cfgs is None:
        # every JSON configuration + the default + one configuration of each model format (these
        # cannot be encoded without the native module; the full grid is run on the corpus packages
        # and in the thorough tier)
        cfgs = ["default"] + [["JSON", z] for z in ZSTD_LEVELS] + [
            ["MODULE", rng.choice(ZSTD_LEVELS)], ["MODULE_WITH_EXTS", rng.choice(ZSTD_LEVELS)]]
    spec = {"k": "pkg", "mods": mods, "exts": exts, "cfgs": cfgs}
    if mods and exts and rng.random() < 0.5:
        spec["link"] = rng.randrange(1 << 30)
    if mods and rng.random() < 0.3:
        spec["reuse"] = True
    return spec


def corpus():
    fixed = [
        {"k": "pkg", "mods": [], "exts": [], "cfgs": _all_cfgs()},
        {"k": "pkg", "mods": [[1, 0]], "exts": [], "cfgs": _all_cfgs()},
        {"k": "pkg", "mods": [[7, 6], [8, 9], [9, 4]], "exts": [["gen", 5], ["std", "logic"]], "cfgs": _all_cfgs()},
        {"k": "pkg", "mods": [], "exts": [["std", "arithmetic.int"], ["gen", 11]], "cfgs": _all_cfgs()},
    ]
    return _enc_specs() + _boundary_hdr() + fixed


def _interleave(many, few):
    """Spread the (expensive) `few` evenly among the (cheap) `many`: core.py evaluates contiguous
    chunks in worker processes."""
    if not few:
        yield from many
        return
    step = max(1, len(many) // len(few))
    j = 0
    for i, x in enumerate(many):
        yield x
        if i % step == step - 1 and j < len(few):
            yield few[j]
            j += 1
    yield from few[j:]


def cases(rng, tier):
    hdr = []
    if tier == "thorough":
        for f in range(256):
            for g in range(256):
                hdr.append(_hdr_spec(DOC_MAGIC + bytes([f, g])))
        n_pkg = 2000
    elif tier == "search":
        hdr += _enc_specs()
        hdr += _boundary_hdr()
        for f in range(256):
            for g in range(256):
                hdr.append(_hdr_spec(DOC_MAGIC + bytes([f, g]), [9, 10]))
        n_pkg = 400
    else:
        for x in rng.sample(range(65536), 4096):
            hdr.append(_hdr_spec(DOC_MAGIC + bytes([x >> 8, x & 0xFF])))
        # the accepted region completely: every flags byte after each known format code
        for f in sorted(DOC_CODES):
            for g in range(256):
                hdr.append(_hdr_spec(DOC_MAGIC + bytes([f, g]), [9, 10]))
        n_pkg = 150
    # random byte strings with a random (mostly corrupted) magic and a tail
    for _ in range(300 if tier == "quick" else 3000):
        m = bytearray(DOC_MAGIC)
        for _ in range(rng.choice([0, 1, 1, 2, 8])):
            m[rng.randrange(8)] = rng.randrange(256)
        tail = bytes(rng.randrange(256) for _ in range(rng.choice([0, 0, 1, 5])))
        hdr.append(_hdr_spec(bytes(m) + bytes([rng.choice([1, 2, 63, rng.randrange(256)]), rng.randrange(256)]) + tail))
    pkgs = [_rand_pkg_spec(rng, _all_cfgs() if tier == "thorough" else None) for _ in range(n_pkg)]
    yield from _interleave(hdr, pkgs)


def exhaustive(tier):
    # thorough enumerates the complete finite space of the header decoder claim:
    # all 2^16 (format, flags) pairs after a correct magic x all truncations 0..10
    return tier == "thorough"


# ============================================================================= model payload


def payload(spec):
    k = spec["k"]
    if k == "hdr":
        data = bytes.fromhex(spec["data"])
        return "env.hdr", dumps([list(data), list(spec["lens"])])
    if k == "enc":
        if "level" in spec:
            return "env.enc", dumps([A(spec["fmt"]), A("cfg"), A("none") if spec["level"] is None else int(spec["level"])])
        return "env.enc", dumps([A(spec["fmt"]), bool(spec["zstd"])])
    stand_in = ('{"m":%d,"e":%d}' % (len(spec["mods"]), len(spec["exts"]))).encode("ascii")
    cfgs = []
    for c in spec["cfgs"]:
        if c == "default":
            cfgs.append(A("default"))
        else:
            cfgs.append([A(c[0]), A("none") if c[1] is None else int(c[1])])
    return "env.pkg", dumps([list(stand_in), cfgs])


# ============================================================================= implementation


def _hdr_obs(d: bytes):
    from hugr.envelope import EnvelopeHeader

    try:
        h = EnvelopeHeader.from_bytes(d)
    except Exception as e:  # noqa: BLE001
        return A(_cls(e))
    try:
        return [A("ok"), A(h.format.name), bool(h.zstd) if isinstance(h.zstd, bool) else A(repr(h.zstd))]
    except Exception:  # noqa: BLE001
        return A("Exception")


def _same(want, got):
    return want == got


def run_impl(spec):
    k = spec["k"]
    if k == "hdr":
        data = bytes.fromhex(spec["data"])
        return dumps([_hdr_obs(data[:n]) for n in spec["lens"]])
    if k == "enc":
        try:
            return dumps(_enc_header(spec)[1].to_bytes().hex())
        except Exception as e:  # noqa: BLE001
            return _cls(e)
    res = _eval_pkg(spec)
    if res["build"] is not None:
        return "!build-failed " + res["build"]
    out = []
    for r in res["cfgs"]:
        if "bad_cfg" in r:
            out.append(A("bad-config"))
            continue
        entry = []
        for mode in ("bytes", "str"):
            m = r[mode]
            if m["enc"] != "ok":
                entry.append([A(mode), A(m["enc"])])
            elif m["dec"] != "ok":
                entry.append([A(mode), A("ok"), m["head"].hex(), A(m["dec"])])
            else:
                entry.append([A(mode), A("ok"), m["head"].hex(), A("ok"), A("same" if _same(res["want"], m["got"]) else "differs")])
        out.append(entry)
    return dumps(out)


def compare(spec, impl_obs, model_obs):
    if spec["k"] != "pkg":
        return impl_obs == model_obs
    from sexp import loads

    try:
        a, b = loads(impl_obs), loads(model_obs)
    except Exception:  # noqa: BLE001
        return False
    if len(a) != len(b):
        return False
    for x, y in zip(a, b):
        if not isinstance(x, list) or len(x) != 2 or len(y) != 2:
            return False
        for xm, ym in zip(x, y):
            if ym == "?":  # depends on the real compressor / the native model encoder: not predicted
                continue
            if xm != ym:
                return False
    return True


# ============================================================================= oracle


def _oracle_hdr(spec):
    from hugr.envelope import EnvelopeHeader, read_envelope
    from hugr.package import Package

    fails = []
    data = bytes.fromhex(spec["data"])
    for n in spec["lens"]:
        d = data[:n]
        if len(d) < 10:
            why = "short-input"
        elif d[:8] != DOC_MAGIC:
            why = "wrong-magic"
        elif d[8] not in DOC_CODES:
            why = "unknown-format"
        else:
            why = None
        try:
            h = EnvelopeHeader.from_bytes(d)
            exc = None
        except Exception as e:  # noqa: BLE001
            h, exc = None, e
        if why is not None:
            if exc is None:
                fails.append(Failure("EnvelopeHeader.from_bytes", f"accepts-{why}", f"{d!r} -> {h!r}"))
            elif not isinstance(exc, ValueError):
                fails.append(Failure("EnvelopeHeader.from_bytes", f"{why}-not-ValueError", f"{d!r} -> {exc!r}"))
            # ... "instead of being decoded": the readers must refuse it the same way
            for site, fn in (("read_envelope", read_envelope), ("Package.from_bytes", Package.from_bytes)):
                try:
                    fn(d)
                    fails.append(Failure(site, f"accepts-{why}", f"{d!r}"))
                except ValueError:
                    pass
                except Exception as e:  # noqa: BLE001
                    fails.append(Failure(site, f"{why}-not-ValueError", f"{d!r} -> {e!r}"))
        else:
            if exc is not None:
                fails.append(Failure("EnvelopeHeader.from_bytes", "rejects-valid-header", f"{d!r} -> {exc!r}"))
            else:
                try:
                    ok = h.format.name == DOC_CODES[d[8]] and h.format.value == d[8] and h.zstd is bool(d[9] & 1)
                except Exception:  # noqa: BLE001
                    ok = False
                if not ok:
                    fails.append(Failure("EnvelopeHeader.from_bytes", "wrong-decoded-header", f"{d!r} -> {h!r}"))
        if fails:
            break
    return fails


def _enc_header(spec):
    from hugr.envelope import EnvelopeConfig, EnvelopeFormat, EnvelopeHeader

    fmt = EnvelopeFormat[spec["fmt"]]
    if "level" in spec:
        return fmt, EnvelopeConfig(format=fmt, zstd=spec["level"])._make_header()
    return fmt, EnvelopeHeader(fmt, spec["zstd"])


def _oracle_enc(spec):
    from hugr.envelope import EnvelopeHeader

    site = "EnvelopeConfig._make_header" if "level" in spec else "EnvelopeHeader.to_bytes"
    try:
        fmt, hd = _enc_header(spec)
        b = hd.to_bytes()
    except Exception as e:  # noqa: BLE001
        return [Failure(site, "raises", repr(e))]
    spec = {**spec, "zstd": spec["level"] is not None} if "level" in spec else spec
    fails = []
    if not isinstance(b, bytes) or len(b) != 10:
        return [Failure(site, "header-not-10-bytes", repr(b))]
    if b[:8] != DOC_MAGIC:
        fails.append(Failure(site, "magic-bytes", repr(b)))
    if b[8] != DOC_NAME_CODE[spec["fmt"]]:
        fails.append(Failure(site, "format-byte", repr(b)))
    fl = b[9]
    if bool(fl & 1) != bool(spec["zstd"]):
        fails.append(Failure(site, "flags-bit0-not-zstd", bin(fl)))
    if (fl >> 6) & 0b11 != 0b01:
        fails.append(Failure(site, "flags-bits76-not-01", bin(fl)))
    if fl & 0b00111110:
        fails.append(Failure(site, "flags-reserved-bits-set", bin(fl)))
    if fmt.ascii_printable() != (spec["fmt"] in DOC_PRINTABLE):
        fails.append(Failure("EnvelopeFormat.ascii_printable", "wrong-printable-set", spec["fmt"]))
    if spec["fmt"] in DOC_PRINTABLE and not all(0x20 <= x <= 0x7E for x in b):
        fails.append(Failure(site, "printable-format-header-not-ascii", repr(b)))
    try:
        h = EnvelopeHeader.from_bytes(b + b"payload")
        if h.format is not fmt or h.zstd is not bool(spec["zstd"]):
            fails.append(Failure("EnvelopeHeader.from_bytes", "header-roundtrip", f"{b!r} -> {h!r}"))
    except Exception as e:  # noqa: BLE001
        fails.append(Failure("EnvelopeHeader.from_bytes", "header-roundtrip", f"{b!r} -> {e!r}"))
    return fails


def _doc_diff(want, got, plain):
    """None if `got` has the same modules/extensions in order, each the same document; else a class."""
    if got == want:
        return None
    if len(got[0]) != len(want[0]) or len(got[1]) != len(want[1]):
        cls = "module-or-extension-count"
    elif sorted(map(json.dumps, got[0])) == sorted(map(json.dumps, want[0])) and sorted(
        map(json.dumps, got[1])
    ) == sorted(map(json.dumps, want[1])):
        cls = "module-or-extension-order"
    else:
        cls = "document-differs"
    if isinstance(plain, tuple) and plain == got:
        # Package._to_serial + deserialize alone (no header, no compression) already give this result
        cls += "-already-without-envelope"
    return cls


def _oracle_pkg(spec):
    res = _eval_pkg(spec)
    if res["build"] is not None:
        # the generator failed, not the envelope code: nothing to judge (reported through run_impl)
        return []
    fails = []
    want = res["want"]
    mut = res.get("mut", {})
    if "exc" in mut:
        fails.append(Failure("Package.to_bytes", "re-encoding-a-modified-package-fails", mut["exc"]))
    elif "got" in mut and mut["got"] != mut["want"]:
        fails.append(Failure("Package.to_bytes", "re-encoding-a-modified-package-is-stale",
                             f"{len(mut['got'][0])} modules / {len(mut['got'][1])} extensions decoded, "
                             f"{len(mut['want'][0])} / {len(mut['want'][1])} in the package"))
    for u in res.get("cfg_reuse", []):
        if "exc" in u:
            fails.append(Failure("Package.to_bytes", "configuration-object-used-again-after-an-edit:fails", f"zstd={u['z']}: {u['exc']}"))
            break
        want_h = _doc_header("JSON", u["z"] is not None)
        if u["head"] != want_h or u["zframe"] != (u["z"] is not None):
            fails.append(Failure("Package.to_bytes", "configuration-object-used-again-after-an-edit:header-or-payload-not-the-current-setting",
                                 f"zstd={u['z']}: header {u['head']!r}, zstd frame {u['zframe']}"))
            break
        if not u["same"]:
            fails.append(Failure("Package.from_bytes", "configuration-object-used-again-after-an-edit:decodes-to-another-package", f"zstd={u['z']}"))
            break
    at = res.get("after_truncated", {})
    if "exc" in at:
        fails.append(Failure("Package.from_bytes", "valid-compressed-envelope-refused-after-a-truncated-one", at["exc"]))
    elif at.get("same") is False:
        fails.append(Failure("Package.from_bytes", "valid-compressed-envelope-decodes-differently-after-a-truncated-one", ""))
    for r in res["cfgs"]:
        if "bad_cfg" in r:
            continue
        c = r["cfg"]
        tag = "default" if c == "default" else f"{c[0]}/zstd={c[1]}"
        if c == "default":
            # which configuration is the default is not part of the property: judge each result by
            # the header it carries (must be a documented header; text only for printable formats)
            for mode, site in (("bytes", "Package.to_bytes"), ("str", "Package.to_str")):
                m = r[mode]
                if m["enc"] != "ok":
                    fails.append(Failure(site, "default-config-cannot-be-encoded", m["enc_exc"]))
                    continue
                h = m["head"]
                if len(h) != 10 or h[:8] != DOC_MAGIC or h[8] not in DOC_CODES or h[9] & 0xFE != 0x40:
                    fails.append(Failure(site, "first-ten-bytes", f"default: {h!r} is not a documented header"))
                    continue
                if bool(h[9] & 1) != m["zframe"]:
                    fails.append(Failure(site, "flags-bit0-does-not-tell-compression", f"default: {h!r}"))
                if mode == "str" and DOC_CODES[h[8]] not in DOC_PRINTABLE:
                    fails.append(Failure(site, "text-offered-for-non-printable-format", f"default: {h!r}"))
                if DOC_CODES[h[8]] == "JSON":
                    dsite = site.replace("to_", "from_")
                    if m["dec"] != "ok":
                        fails.append(Failure(dsite, "encoded-envelope-not-decodable", f"default: {m['dec_exc']}"))
                    else:
                        d = _doc_diff(want, m["got"], res["plain"])
                        if d:
                            fails.append(Failure(dsite, d, tag))
            continue
        fmt, z = c[0], c[1]
        hdr = _doc_header(fmt, z is not None)
        # ---- bytes
        m = r["bytes"]
        if m["enc"] != "ok":
            if fmt == "JSON":
                fails.append(Failure("Package.to_bytes", "json-config-cannot-be-encoded", f"{tag}: {m['enc_exc']}"))
            # model formats: the native encoder is absent, "cannot be encoded"
        else:
            if not m["type_ok"]:
                fails.append(Failure("Package.to_bytes", "result-not-bytes", tag))
            if m["head"] != hdr:
                fails.append(Failure("Package.to_bytes", "first-ten-bytes", f"{tag}: {m['head']!r} expected {hdr!r}"))
            if m["zframe"] != (z is not None):
                fails.append(Failure("Package.to_bytes", "payload-compression-does-not-match-config", tag))
            if fmt == "JSON":
                if m["dec"] != "ok":
                    fails.append(Failure("Package.from_bytes", "encoded-envelope-not-decodable", f"{tag}: {m['dec_exc']}"))
                else:
                    d = _doc_diff(want, m["got"], res["plain"])
                    if d:
                        fails.append(Failure("Package.from_bytes", d, tag))
        # ---- str
        m = r["str"]
        if fmt not in DOC_PRINTABLE:
            if m["enc"] == "ok":
                fails.append(Failure("Package.to_str", "text-offered-for-non-printable-format", tag))
            elif m["enc"] != "ValueError":
                fails.append(Failure("Package.to_str", "non-printable-format-not-ValueError", f"{tag}: {m['enc_exc']}"))
        elif m["enc"] != "ok":
            if z is None:
                fails.append(Failure("Package.to_str", "uncompressed-json-cannot-be-encoded", f"{tag}: {m['enc_exc']}"))
            elif m["enc"] != "ValueError":
                # compressed payload that is not text: "cannot be encoded", but as a ValueError
                fails.append(Failure("Package.to_str", "text-refusal-not-ValueError", f"{tag}: {m['enc_exc']}"))
        else:
            if not m["type_ok"]:
                fails.append(Failure("Package.to_str", "result-not-str", tag))
            if m["head"] != hdr:
                fails.append(Failure("Package.to_str", "first-ten-bytes", f"{tag}: {m['head']!r} expected {hdr!r}"))
            if m["dec"] != "ok":
                fails.append(Failure("Package.from_str", "encoded-envelope-not-decodable", f"{tag}: {m['dec_exc']}"))
            else:
                d = _doc_diff(want, m["got"], res["plain"])
                if d:
                    fails.append(Failure("Package.from_str", d, tag))
    return fails


def oracle(spec):
    k = spec["k"]
    if k == "hdr":
        return _oracle_hdr(spec)
    if k == "enc":
        return _oracle_enc(spec)
    return _oracle_pkg(spec)


# ============================================================================= bookkeeping


def nontrivial(spec, obs):
    k = spec["k"]
    if k == "hdr":
        d = bytes.fromhex(spec["data"])
        return len(d) >= 10 and d[:8] == DOC_MAGIC and any(n >= 10 for n in spec["lens"])
    if k == "enc":
        return True
    return bool(spec["mods"] or spec["exts"]) and not obs.startswith("!")


def stats(spec, obs, counters):
    k = spec["k"]
    counters[f"kind.{k}"] += 1
    if k == "hdr":
        counters["hdr.decodes"] += len(spec["lens"])
        counters["hdr.accepted"] += obs.count("(ok ")
        counters["hdr.ValueError"] += obs.count("ValueError")
        counters["hdr.other-exception"] += obs.count("Exception") + obs.count("IndexError")
        d = bytes.fromhex(spec["data"])
        counters["hdr.magic-ok" if d[:8] == DOC_MAGIC else "hdr.magic-corrupted"] += 1
    elif k == "pkg":
        counters[f"pkg.modules={len(spec['mods'])}"] += 1
        counters[f"pkg.extensions={len(spec['exts'])}"] += 1
        if spec.get("link") is not None:
            counters["pkg.module-names-operations-of-a-bundled-extension"] += 1
        if obs.startswith("!"):
            counters["pkg.build-failed"] += 1
            return
        from sexp import loads

        for c, entry in zip(spec["cfgs"], loads(obs)):
            if not isinstance(entry, list):
                continue
            fmt = "JSON" if c == "default" else c[0]
            z = None if c == "default" else c[1]
            counters[f"cfg.{fmt}.bytes.{entry[0][1]}"] += 1
            counters[f"cfg.{fmt}.str.{'zstd' if z is not None else 'plain'}.{entry[1][1]}"] += 1
            if fmt != "JSON":
                counters["model.not-predicted(bytes,native-encoder)"] += 1
            elif z is not None:
                counters["model.not-predicted(str,compressed)"] += 1


def shrink(spec, pred):
    from core import ddmin

    k = spec["k"]
    if k == "hdr":
        for n in spec["lens"]:
            s = {**spec, "lens": [n]}
            if pred(s):
                data = bytes.fromhex(spec["data"])[:n]
                s2 = {"k": "hdr", "data": data.hex(), "lens": [n]}
                return s2 if pred(s2) else s
        return spec
    if k != "pkg":
        return spec
    s = dict(spec)
    for c in spec["cfgs"]:
        if pred({**s, "cfgs": [c]}):
            s["cfgs"] = [c]
            break
    if len(s["mods"]) > 1:
        s["mods"] = ddmin(s["mods"], lambda m: pred({**s, "mods": m}))
    if len(s["mods"]) == 1 and pred({**s, "mods": []}):
        s["mods"] = []
    if len(s["exts"]) > 1:
        s["exts"] = ddmin(s["exts"], lambda e: pred({**s, "exts": e}))
    if len(s["exts"]) == 1 and pred({**s, "exts": []}):
        s["exts"] = []
    for i in range(len(s["mods"])):
        for size in (0, 2, 4):
            if size < s["mods"][i][1]:
                cand = [list(m) for m in s["mods"]]
                cand[i][1] = size
                if pred({**s, "mods": cand}):
                    s["mods"] = cand
                    break
    return s
