"""C18 — BiMap stays a bijection under every operation sequence."""
from __future__ import annotations

import ast
import itertools

from core import Failure
from sexp import A, dumps

PROP = "C18"
LEAN_TARGETS = ["HugrVerif.Props.C18"]
DRIVE_TARGETS = ["HugrVerif.Drive.BiMap"]
RULE = (
    "operation sequences over a pool of pairwise-unequal hashable values including the falsy ones "
    "0, '', () (plus a stream mixing the ==-equal 0/False/0.0); quick: random sequences of length <= 40; "
    "thorough: every sequence of length 4 over 3 keys x 3 values (24 operations) + long random ones. "
    "Non-trivial = at least one displacement or successful deletion happens; distinct by full spec."
)
TRUSTED = [
    "Python dict semantics (insertion order, update in place) modelled by Py.Dict; == / hash classes of the key pool",
]
ASSUMPTIONS = ["keys/values are hashable and not None (None is outside the property's quantifier)"]

PLAIN = ["0", "''", "()", "1", "'a'", "(0,)", "-1"]
EQCLS = ["0", "False", "0.0", "1", "True", "''"]
SMALL = ["0", "''", "()"]
OPS = ["il", "ir", "dl", "dr", "set", "del"]


# the key types the graph store itself keeps in its bidirectional map (node handles, ports, sub-ports) next to the
# plain values they share a hash with: `hash(Node(i)) == hash((i,))` (dataclass hash), so both land in one dict bucket
# and the dict must compare them (seeded change C18-14: a hand-written `Node.__eq__` without a class guard)
HANDLES = ["Node(0)", "(0,)", "Node(1)", "(1,)", "OutPort(Node(0), 0)", "InPort(Node(0), 0)",
           "_SubPort(OutPort(Node(0), 0), 0)", "_SubPort(InPort(Node(0), 0), 1)", "0"]


def _handle_vals():
    from hugr.hugr.base import _SubPort
    from hugr.hugr.node_port import InPort, Node, OutPort

    env = {"Node": Node, "OutPort": OutPort, "InPort": InPort, "_SubPort": _SubPort}
    return {t: eval(t, env) for t in HANDLES}  # noqa: S307 - fixed token list above


_VALS = {t: ast.literal_eval(t) for t in PLAIN + EQCLS + SMALL}
_VALS.update(_handle_vals())


def _val(tok: str):
    return _VALS[tok]


def _safe_eq(a, b) -> bool:
    try:
        return bool(a == b)
    except Exception:  # noqa: BLE001 - a broken __eq__ of a key class is reported by the oracle, not here
        return a is b


def _canon_val(v, pool) -> str:
    """Model key of a Python value: the first pool token whose value is == to it."""
    return next(t for t in pool if _safe_eq(_VALS[t], v))


def _canon(tok, pool) -> str:
    return _canon_val(_VALS[tok], pool)


def _pool(spec):
    return {"plain": PLAIN, "eq": EQCLS, "small": SMALL, "handles": HANDLES}[spec["pool"]]


# ----------------------------------------------------------------------------- generation


def _rand_seq(rng, pool, maxlen):
    n = rng.randint(1, maxlen)
    ops = []
    for _ in range(n):
        o = rng.choice(OPS)
        if o in ("il", "ir", "set"):
            ops.append([o, rng.choice(pool), rng.choice(pool)])
        else:
            ops.append([o, rng.choice(pool)])
    return ops


def _rand_init(rng, pool):
    if rng.random() < 0.5:
        return []
    ks = rng.sample(pool, rng.randint(0, min(4, len(pool))))
    if rng.random() < 0.8:
        vs = rng.sample(pool, len(ks))
    else:
        vs = [rng.choice(pool) for _ in ks]
    return [[k, v] for k, v in zip(ks, vs)]


def cases(rng, tier):
    if tier == "quick":
        n_plain, n_eq, maxlen = 1700, 300, 40
    elif tier == "thorough":
        n_plain, n_eq, maxlen = 40000, 10000, 200
        small_ops = []
        for k in SMALL:
            for v in SMALL:
                small_ops.append(["il", k, v])
                small_ops.append(["ir", v, k])
        # il/ir coincide as operations on (k, v); keep both spellings plus the deletes: 24 ops
        for k in SMALL:
            small_ops.append(["dl", k])
            small_ops.append(["dr", k])
        assert len(small_ops) == 24
        for seq in itertools.product(small_ops, repeat=4):
            yield {"pool": "small", "init": [], "ops": [list(o) for o in seq]}
    else:  # search
        n_plain, n_eq, maxlen = 30000, 6000, 60
    for _ in range(n_plain):
        yield {"pool": "plain", "init": _rand_init(rng, PLAIN), "ops": _rand_seq(rng, PLAIN, maxlen)}
    for _ in range(n_eq):
        yield {"pool": "handles", "init": _rand_init(rng, HANDLES), "ops": _rand_seq(rng, HANDLES, maxlen)}
    for _ in range(n_eq):
        # distinct canonical keys for init so the mapping literal is a mapping
        init = _rand_init(rng, ["0", "1", "''"])
        yield {"pool": "eq", "init": init, "ops": _rand_seq(rng, EQCLS, maxlen)}


def exhaustive(tier):
    return tier == "thorough"


# ----------------------------------------------------------------------------- model payload


def payload(spec):
    pool = _pool(spec)
    c = lambda t: _canon(t, pool)
    items = [[A("init")] + [[c(k), c(v)] for k, v in spec["init"]]]
    for op in spec["ops"]:
        items.append([A(op[0])] + [c(t) for t in op[1:]])
    return "bimap.run", dumps(items)


# ----------------------------------------------------------------------------- implementation


def _apply(m, op):
    """Apply one op to a real BiMap; returns 'ok' or the exception class name."""
    o = op[0]
    try:
        if o == "il":
            m.insert_left(_val(op[1]), _val(op[2]))
        elif o == "ir":
            m.insert_right(_val(op[1]), _val(op[2]))
        elif o == "dl":
            m.delete_left(_val(op[1]))
        elif o == "dr":
            m.delete_right(_val(op[1]))
        elif o == "set":
            m[_val(op[1])] = _val(op[2])
        elif o == "del":
            del m[_val(op[1])]
        return "ok"
    except KeyError:
        return "KeyError"
    except Exception:  # noqa: BLE001
        return "Exception"


def _new(spec):
    from hugr.utils import BiMap, NotBijection

    try:
        return BiMap({_val(k): _val(v) for k, v in spec["init"]})
    except NotBijection:
        return None


def _state_obs(m, pool):
    c = lambda v: _canon_val(v, pool)
    return [
        [[c(k), c(v)] for k, v in m.fwd.items()],
        [[c(k), c(v)] for k, v in m.bck.items()],
        len(m),
    ]


def _run_impl(spec):
    pool = _pool(spec)
    m = _new(spec)
    if m is None:
        return "notBijection"
    out = [[A("init")] + _state_obs(m, pool)]
    for op in spec["ops"]:
        tag = _apply(m, op)
        out.append([A(tag)] + _state_obs(m, pool))
    return dumps(out)


# ----------------------------------------------------------------------------- oracle


def _check_state(m, ref, pool, site, fails):
    """ref: list of (k, v) python pairs (the abstract partial bijection)."""
    fwd = dict(m.fwd)
    bck = dict(m.bck)
    if {v: k for k, v in fwd.items()} != bck or {k: v for v, k in bck.items()} != fwd or len(fwd) != len(bck):
        fails.append(Failure(site, "views-not-inverse", f"fwd={fwd!r} bck={bck!r}"))
        return
    if fwd != dict(ref):
        fails.append(Failure(site, "wrong-pairs", f"fwd={fwd!r} expected={dict(ref)!r}"))
        return
    if len(m) != len(ref) or list(iter(m)) != list(fwd) or list(m.items()) != list(fwd.items()):
        fails.append(Failure(site, "len-or-iteration", ""))
    for t in pool:
        x = _val(t)
        er = next((v for k, v in ref if k == x), None)
        el = next((k for k, v in ref if v == x), None)
        if m.get_right(x) != er or m.get_left(x) != el:
            fails.append(Failure(site, "lookup", f"at {x!r}"))
            return
        try:
            got = m[x]
            if er is None and not any(k == x for k, _ in ref):
                fails.append(Failure(site, "lookup", f"__getitem__ {x!r} returned {got!r}"))
        except KeyError:
            if any(k == x for k, _ in ref):
                fails.append(Failure(site, "lookup", f"__getitem__ {x!r} raised"))


SITE = {
    "il": "BiMap.insert_left",
    "ir": "BiMap.insert_right",
    "dl": "BiMap.delete_left",
    "dr": "BiMap.delete_right",
    "set": "BiMap.__setitem__",
    "del": "BiMap.__delitem__",
}


def _oracle(spec):
    pool = _pool(spec)
    fails: list[Failure] = []
    pairs = [(_val(k), _val(v)) for k, v in spec["init"]]
    injective = all(
        not (pairs[i][1] == pairs[j][1]) for i in range(len(pairs)) for j in range(i + 1, len(pairs))
    )
    m = _new(spec)
    if m is None:
        if injective:
            fails.append(Failure("BiMap.__init__", "rejects-bijection", ""))
        return fails
    if not injective:
        fails.append(Failure("BiMap.__init__", "accepts-non-injective", ""))
        return fails
    ref = list(pairs)
    _check_state(m, ref, pool, "BiMap.__init__", fails)
    if not fails and pairs:
        # the map owns its tables: the mapping it was built from, and a second map built from the same mapping
        # object, are not affected by later operations on it (and the other way round)
        from hugr.utils import BiMap

        src = dict(pairs)
        keep = dict(src)
        m1, m2 = BiMap(src), BiMap(src)
        for op in spec["ops"]:
            _apply(m1, op)
        if src != keep:
            fails.append(Failure("BiMap.__init__", "operations-on-the-map-change-the-mapping-it-was-built-from", ""))
        else:
            _check_state(m2, list(pairs), pool, "BiMap.__init__ (second map from the same mapping)", fails)
    for op in spec["ops"]:
        if fails:
            break
        o = op[0]
        site = SITE[o]
        tag = _apply(m, op)
        if o in ("il", "set", "ir"):
            k, v = (_val(op[1]), _val(op[2])) if o != "ir" else (_val(op[2]), _val(op[1]))
            if tag != "ok":
                fails.append(Failure(site, "raises", tag))
                break
            ref = [(a, b) for a, b in ref if not (a == k) and not (b == v)] + [(k, v)]
        else:
            if o in ("dl", "del"):
                k = _val(op[1])
                present = any(a == k for a, _ in ref)
                newref = [(a, b) for a, b in ref if not (a == k)]
            else:
                v = _val(op[1])
                present = any(b == v for _, b in ref)
                newref = [(a, b) for a, b in ref if not (b == v)]
            if present and tag != "ok":
                fails.append(Failure(site, "keyerror-unexpected", tag))
                break
            if not present and tag != "KeyError":
                fails.append(Failure(site, "keyerror-missing", tag))
                break
            ref = newref
        _check_state(m, ref, pool, site, fails)
    return fails


def run_impl(spec):
    # comparing two values of the pool never raises on the unchanged tree (they are ints, strings, tuples and the
    # graph store's own handle classes); an exception escaping here means that equality / hashing of the keys the map is
    # used with is itself broken, which is an observation (and an oracle failure), not a harness fault
    try:
        return _run_impl(spec)
    except Exception as e:  # noqa: BLE001
        return dumps([[A("harness-comparison-raised"), type(e).__name__]])


def oracle(spec):
    try:
        return _oracle(spec)
    except Exception as e:  # noqa: BLE001
        return [Failure("BiMap (key comparison)", "comparing-or-hashing-keys-raises", repr(e)[:200])]


def nontrivial(spec, obs):
    # a displacement or a successful delete happened: some step shrinks or keeps len on insert
    return obs != "notBijection" and ("(ok () () 0)" in obs or obs.count("(ok") >= 3)


def stats(spec, obs, counters):
    counters[f"pool.{spec['pool']}"] += 1
    counters["ops.total"] += len(spec["ops"])
    for op in spec["ops"]:
        counters[f"op.{op[0]}"] += 1
    counters["outcome.KeyError"] += obs.count("(KeyError")
    counters["outcome.notBijection"] += obs == "notBijection"
    counters[f"len.{min(len(spec['ops']) // 10 * 10, 100)}+"] += 1


def shrink(spec, pred):
    from core import ddmin

    ops = ddmin(spec["ops"], lambda o: pred({**spec, "ops": o}))
    s = {**spec, "ops": ops}
    init = ddmin(spec["init"], lambda i: pred({**s, "init": i})) if spec["init"] else []
    if init != spec["init"] and pred({**s, "init": init}):
        s["init"] = init
    return s
