"""C02 — JSON round trip of a HUGR is lossless and a fixed point."""
from __future__ import annotations

import copy
import json

from bridge import json_sexp, json_to_sx
from core import Failure, ddmin
from props import C04
from sexp import A, dumps

PROP = "C02"
LEAN_TARGETS = ["HugrVerif.Props.C02"]
DRIVE_TARGETS = ["HugrVerif.Drive.Serial"]
RULE = (
    "(a) raw stores: mutation histories (add/delete node, add/delete link, order links, insert_hugr, index reuse) over "
    "labelled Custom operations with 4 value ports each way, metadata drawn from every JSON shape (nested, unicode, big "
    "ints, floats); links only on ports the operations have (offsets 0..3, order port -1) — see ASSUMPTIONS; "
    "(b) HUGRs built by the real builders (constants, tuples, integer ops, nested DFGs, conditionals, tail loops, calls, "
    "polymorphic functions) followed by a short mutation history (extra nodes with metadata, order links between siblings, "
    "deletion of unused nodes, insertion of another built HUGR). Observation: to_json, load_json outcome, second to_json, "
    "structural dump of the reloaded HUGR. Non-trivial = at least 4 nodes and 2 links; distinct by full spec."
)
TRUSTED = [
    "pydantic dump/parse of SerialHugr modelled by Serial.encDoc/decDoc; json.loads/dumps",
    "metadata values are JSON values (floats carried as literal text)",
]
ASSUMPTIONS = [
    "links attach only to ports the operations have: the wire format addresses the order port at the first offset after "
    "the value/static ports, so a value link on a non-existent port with that offset cannot be distinguished from an order edge",
    "documents are compared as JSON values; metadata dictionaries compare by value",
]

NPORTS = 4
METAS = [
    None, None, {"k": 1}, {"a": "x", "b": [1, 2, {"c": None}]}, {"é": "ü\n\"q\"", "big": 2**70, "neg": -3},
    {"f": 1.5, "t": True, "n": None, "e": {}, "l": []}, {"nested": {"a": {"b": {"c": [1, [2, [3]]]}}}},
]

# ----------------------------------------------------------------------------- raw histories


def _fix_ops(ops):
    """Links only on ports the operations have: value ports 0..3 and the order port of the labelled
    Custom operations; no links on the Module root(s) or on constants; no self-parent quirk."""
    out = []
    nslots, free, kinds = 1, [], {0: "module"}
    par = {}
    for o in ops:
        o = list(o)
        k = o[0]
        if k in ("add_node", "add_const"):
            i = free.pop() if free else nslots
            if i == nslots:
                nslots += 1
            if o[1] is not None and (o[1] == i or o[1] not in kinds):
                o[1] = None
            kinds[i] = "const" if k == "add_const" else "custom"
            par[i] = o[1] if o[1] is not None else 0
        elif k == "delete_node":
            # leaves created by add_node / add_const only
            if kinds.get(o[1]) not in ("custom", "const") or o[1] in par.values():
                continue
            del kinds[o[1]]
            par.pop(o[1], None)
            free.append(o[1])
        elif k in ("add_link", "delete_link"):
            if kinds.get(o[1]) != "custom" or kinds.get(o[3]) != "custom":
                continue
            o[2] = o[2] if o[2] == -1 else o[2] % NPORTS
            o[4] = o[4] if o[4] == -1 else o[4] % NPORTS
        elif k == "add_order_link":
            if kinds.get(o[1]) != "custom" or kinds.get(o[2]) != "custom":
                continue
        elif k == "insert_hugr":
            o[1] = _fix_ops(o[1])
            if o[2] is not None and o[2] not in kinds:
                o[2] = None
            sub_live = C04._simulate_live(o[1])
            for j in sub_live:
                i = free.pop() if free else nslots
                if i == nslots:
                    nslots += 1
                kinds[i] = "module" if j == 0 else "sub"  # conservative: no further links on inserted nodes
                par[i] = -1
            if o[2] is not None:
                par[("ins", len(out))] = o[2]
        out.append(o)
    return out


def _gen_raw(rng):
    h = C04._gen_history(rng, rng.randint(3, 40), 10, True, del_rate=rng.choice([0.0, 0.15, 0.3]))
    ops = []
    for o in h["ops"]:
        o = list(o)
        if o[0] == "add_node":
            o[3] = copy.deepcopy(rng.choice(METAS))
        ops.append(o)
    ops = _fix_ops(ops)
    return {"kind": "raw", "ops": ops, "probe": rng.randrange(len(ops) + 1) if rng.random() < 0.5 else None}


def _probe(h):
    """The observers are run once on an intermediate state and their results thrown away: what they report
    later must depend on the HUGR as it is then, not on what it was at an earlier call."""
    for f in (lambda: h.to_json(), lambda: h.render_dot().source, lambda: h.to_model(), lambda: list(h.links())):
        try:
            f()
        except Exception:  # noqa: BLE001
            pass


def _raw_hugr(spec):
    r = C04.Run(with_ref=False, nports=NPORTS)
    for i, o in enumerate(spec["ops"]):
        if spec.get("probe") == i:
            _probe(r.h)
        t, _ = r.apply(o)
        if t != "ok":
            return None
    return r.h


# ----------------------------------------------------------------------------- built HUGRs


PROG_FAMILIES = [None, "dfg", "function", "module", "cfg", "conditional", "tailloop", "tracked"]


def _gen_built(rng):
    prog = None
    if rng.random() < 0.45:
        # a generated well-formed builder program (harness/gen_prog.py: every builder family, CFGs, aliases,
        # polymorphic calls, function values, tags, partial ops …) instead of the module generator
        prog = [rng.randrange(2**31), rng.randint(3, 24), rng.choice(PROG_FAMILIES)]
    return {
        "kind": "built", "seed": rng.randrange(10**6), "size": rng.randint(1, 4), "prog": prog,
        "muts": [[rng.choice(["node", "order", "delnode", "insert", "meta", "reqs", "polycall", "latecall"]), rng.randrange(10**6)] for _ in range(rng.randint(0, 5))],
        "probe": rng.randrange(6) if rng.random() < 0.5 else None,
    }


def _prog_hugr(p):
    """the HUGR of the first top-level builder of the generated program (seed, size, family)"""
    import random

    import gen_prog
    import progs

    seed, size, fam = p
    opts = {"to_json": True}
    if fam:
        opts["family"] = fam
    prog = gen_prog.gen_wf_program(random.Random(seed), size, opts)
    r = progs.run_program(prog)
    if any(o[0] == "err" for o in r["outcomes"]):
        raise ValueError("builder program raised")
    tj = [c for c in prog if c[0] == "to_json"]
    return r["env"].builder(tj[0][1]).hugr


def _built_hugr(spec):
    import random

    from hugr import ops, tys
    from props import C09

    h = _prog_hugr(spec["prog"]) if spec.get("prog") else C09.build_module(spec["seed"], spec["size"])
    extra = []
    for i, (kind, sd) in enumerate(spec["muts"]):
        if spec.get("probe") == i:
            _probe(h)
        rng = random.Random(sd)
        nodes = list(h)
        containers = [n for n in nodes if isinstance(h[n].op, (ops.DFG, ops.FuncDefn, ops.Case, ops.TailLoop, ops.DataflowBlock))]
        if kind == "node" and containers:
            p = rng.choice(containers)
            n = h.add_node(ops.Custom(f"extra{sd}", extension="verif"), p, metadata=copy.deepcopy(rng.choice(METAS)))
            extra.append(n)
        elif kind == "order" and containers:
            p = rng.choice(containers)
            ch = [c for c in h.children(p) if isinstance(h[c].op, ops.DataflowOp) and not isinstance(h[c].op, (ops.Input, ops.Output))]
            if len(ch) >= 2:
                a, b = sorted(rng.sample(ch, 2), key=lambda n: n.idx)
                h.add_order_link(a, b)
        elif kind == "delnode" and extra:
            n = extra.pop(rng.randrange(len(extra)))
            h.delete_node(n)
        elif kind == "insert" and containers:
            other = C09.build_module(sd, 1)
            # insert a small DFG-rooted piece: a fresh dataflow graph with one noop
            from hugr.build.dfg import Dfg

            d = Dfg(tys.Bool)
            d.set_outputs(d.add_op(ops.Noop(), d.inputs()[0])[0])
            h.insert_hugr(d.hugr, rng.choice(containers))
            del other
        elif kind == "meta":
            n = rng.choice(nodes)
            h[n].metadata["verif"] = copy.deepcopy(rng.choice(METAS[2:]))
        elif kind == "reqs" and containers:
            # operation attributes: extension deltas in any order, with repetitions
            reqs = [rng.choice(["tket2.quantum", "prelude", "my.ext", "arithmetic.int", "é.x"]) for _ in range(rng.randint(2, 4))]
            p = rng.choice(containers)
            sig = tys.FunctionType([tys.Bool], [tys.Bool, tys.FunctionType([], [tys.Qubit], list(reversed(reqs)))], reqs)
            extra.append(h.add_node(ops.Custom(f"reqs{sd}", signature=sig, extension="verif", args=[tys.TypeTypeArg(sig)]), p))
        elif kind == "polycall":
            _add_polycall(h, rng)
        elif kind == "latecall":
            _add_latecall(h, rng)
    return h


def _add_latecall(h, rng):
    """A call that is given fewer wires than the function has inputs; the remaining value inputs are linked
    afterwards through `Hugr.add_link` (the function port is where the signature puts it, however many ports
    were connected when the call was made).  Module-rooted HUGRs only."""
    from hugr import ops, tys
    from hugr.build.dfg import Function

    if not isinstance(h[h.root].op, ops.Module):
        return
    ins = [rng.choice([tys.Bool, tys.Unit, tys.USize()]) for _ in range(rng.randint(1, 3))]
    f = h.add_node(ops.FuncDecl(f"late{rng.randrange(1000)}", tys.PolyFuncType([], tys.FunctionType(list(ins), list(ins)))), h.root)
    fn = Function.new_nested(ops.FuncDefn(f"latecaller{rng.randrange(1000)}", list(ins), []), h, h.root)
    k = rng.randrange(len(ins))
    call = fn.call(f, *fn.inputs()[:k])
    for i in range(k, len(ins)):
        h.add_link(fn.input_node.out(i), call.inp(i))
    if rng.random() < 0.5:
        pre = fn.add_op(ops.Custom("pre", signature=tys.FunctionType([], []), extension="verif"))
        fn.add_state_order(pre, call)
    fn.set_outputs(*[call[i] for i in range(len(ins))])


def _add_polycall(h, rng):
    """A call of a function that is polymorphic over a ROW variable, instantiated at a row of another
    length, with state order edges on the call in both directions (module-rooted HUGRs only)."""
    from hugr import ops, tys
    from hugr.build.dfg import Function

    if not isinstance(h[h.root].op, ops.Module):
        return
    cop = tys.TypeBound.Copyable
    row = tys.RowVariable(0, cop)
    sig = tys.PolyFuncType([tys.ListParam(tys.TypeTypeParam(cop))], tys.FunctionType([row], [row]))
    f = h.add_node(ops.FuncDecl(f"poly{rng.randrange(1000)}", sig), h.root)
    n = rng.choice([0, 2, 3])
    inst_row = [rng.choice([tys.Bool, tys.Unit, tys.USize()]) for _ in range(n)]
    fn = Function.new_nested(ops.FuncDefn(f"caller{rng.randrange(1000)}", list(inst_row), []), h, h.root)
    pre = fn.add_op(ops.Custom("pre", signature=tys.FunctionType([], []), extension="verif"))
    call = fn.call(
        f, *fn.inputs(), instantiation=tys.FunctionType(list(inst_row), list(inst_row)),
        type_args=[tys.SequenceArg([tys.TypeTypeArg(t) for t in inst_row])],
    )
    post = fn.add_op(ops.Custom("post", signature=tys.FunctionType([], []), extension="verif"))
    fn.add_state_order(pre, call)
    fn.add_state_order(call, post)
    fn.set_outputs(*[call[i] for i in range(n)])


def build(spec):
    return _raw_hugr(spec) if spec["kind"] == "raw" else _built_hugr(spec)


# ----------------------------------------------------------------------------- observation


def _op_json(h, n):
    from hugr.hugr.node_port import Node

    return json.loads(h[n].op._to_serial(Node(n.idx)).model_dump_json())


def snapshot(h, labels: bool):
    nodes = []
    for n in h:
        d = h[n]
        nodes.append([
            n.idx, C04._label(d.op) if labels else _op_json(h, n), d.parent.idx if d.parent is not None else None,
            [c.idx for c in h.children(n)], dict(d.metadata), d._num_inps, d._num_outs,
        ])
    links = [[s.node.idx, s.offset, t.node.idx, t.offset] for s, t in h.links()]
    return [h.root.idx, nodes, links]


def _err(e):
    from hugr.ops import IncompleteOp

    import pydantic

    if isinstance(e, KeyError):
        return {"error": "KeyError"}
    if isinstance(e, IncompleteOp):
        return {"error": "IncompleteOp"}
    if isinstance(e, pydantic.ValidationError):
        return {"error": "ValidationError"}
    if isinstance(e, AssertionError):
        return {"error": "AssertionError"}
    if isinstance(e, ValueError):
        return {"error": "ValueError"}
    return {"error": "Exception"}


def _roundtrip(h, labels):
    from hugr.hugr import Hugr

    try:
        doc1 = h.to_json()
    except Exception as e:  # noqa: BLE001
        return [_err(e), None, None]
    try:
        h2 = Hugr.load_json(doc1)
    except Exception as e:  # noqa: BLE001
        return [json.loads(doc1), _err(e), None]
    try:
        doc2 = json.loads(h2.to_json())
    except Exception as e:  # noqa: BLE001
        doc2 = _err(e)
    return [json.loads(doc1), doc2, snapshot(h2, labels)]


_cache = [None, None]


def _eval(spec):
    key = json.dumps(spec, sort_keys=True)
    if _cache[0] == key:
        return _cache[1]
    try:
        h = build(spec)
    except Exception as e:  # noqa: BLE001
        res = ("build-failed", repr(e)[:200])
        _cache[:] = [key, res]
        return res
    if h is None:
        res = ("outside", None)
    else:
        labels = spec["kind"] == "raw"
        res = ("ok", h, _roundtrip(h, labels), snapshot(h, labels))
    _cache[:] = [key, res]
    return res


def run_impl(spec):
    r = _eval(spec)
    if r[0] != "ok":
        return r[0]
    _, h, rt, orig = r
    if spec["kind"] == "raw":
        return json.dumps(rt + [orig], sort_keys=True, ensure_ascii=False)
    # serial.doc stream: the model starts from the document
    doc1, doc2, snap = rt
    if isinstance(doc1, dict) and "error" in doc1:
        return "no-document"
    head = "ok" if not (isinstance(doc2, dict) and set(doc2) == {"error"} and snap is None) else doc2
    return json.dumps([head, None if snap is None else doc2, snap], sort_keys=True, ensure_ascii=False)


def _encoder():
    from hugr import __version__

    return f"hugr-py v{__version__}"


def payload(spec):
    r = _eval(spec)
    if r[0] != "ok":
        return None
    if spec["kind"] == "raw":
        def enc(op):
            k = op[0]
            if k == "add_node":
                _, parent, num_outs, meta = op
                return [A(k), parent if parent is not None else A("none"), num_outs if num_outs is not None else A("none"),
                        [[str(a), json_to_sx(b)] for a, b in (meta or {}).items()]]
            if k == "add_const":
                return [A(k), op[1] if op[1] is not None else A("none")]
            if k == "insert_hugr":
                return [A(k), [enc(o) for o in op[1]], op[2] if op[2] is not None else A("none")]
            return [A(k)] + list(op[1:])

        return "serial.history", dumps([_encoder()] + [enc(o) for o in spec["ops"]])
    doc1 = r[2][0]
    if isinstance(doc1, dict) and "error" in doc1:
        return None
    return "serial.doc", dumps([_encoder(), json_to_sx(doc1)])


def _norm(x):
    """floats that are integral compare equal to ints (JSON numbers)"""
    if isinstance(x, float) and x == int(x):
        return int(x)
    if isinstance(x, list):
        return [_norm(v) for v in x]
    if isinstance(x, dict):
        return {k: _norm(v) for k, v in x.items()}
    return x


def compare(spec, impl_obs, model_obs):
    if impl_obs in ("outside", "build-failed", "no-document"):
        return True
    try:
        return _norm(json.loads(impl_obs)) == _norm(json.loads(model_obs))
    except Exception:  # noqa: BLE001
        return False


# ----------------------------------------------------------------------------- oracle


def _tree_iso(h, h2):
    """The node correspondence forced by hierarchy + child order; None if the shapes differ."""
    f = {}
    todo = [(h.root, h2.root)]
    while todo:
        a, b = todo.pop()
        f[a.idx] = b.idx
        ca, cb = h.children(a), h2.children(b)
        if len(ca) != len(cb):
            return None
        todo.extend(zip(ca, cb))
    return f


def oracle(spec):
    from hugr.hugr import Hugr

    r = _eval(spec)
    fails: list[Failure] = []
    if r[0] != "ok":
        return fails
    _, h, rt, _ = r
    doc1, doc2, _ = rt
    if isinstance(doc1, dict) and "error" in doc1:
        # incomplete operations cannot be serialised (documented: IncompleteOp) — outside the quantifier
        return fails
    if doc2 is not None and isinstance(doc2, dict) and set(doc2) == {"error"} and rt[2] is None:
        fails.append(Failure("Hugr.load_json", "load-of-own-document-fails", doc2["error"]))
        return fails
    if isinstance(doc2, dict) and set(doc2) == {"error"}:
        fails.append(Failure("Hugr.to_json", "reloaded-hugr-cannot-be-serialised", doc2["error"]))
        return fails
    if _norm(doc1) != _norm(doc2):
        fails.append(Failure("Hugr.to_json", "not-a-fixed-point", _first_diff(doc1, doc2)))
    h2 = Hugr.load_json(json.dumps(doc1))
    live = [n for n in h]
    if len(live) != len(list(h2)):
        fails.append(Failure("Hugr.load_json", "node-count", f"{len(live)} vs {len(list(h2))}"))
        return fails
    f = _tree_iso(h, h2)
    if f is None or len(f) != len(live):
        fails.append(Failure("Hugr.load_json", "hierarchy-or-child-order", "the hierarchies are not isomorphic with child order"))
        return fails
    for n in live:
        m = h2[_node(f[n.idx])]
        if _strip_parent(_op_json(h, n)) != _strip_parent(_op_json(h2, _node(f[n.idx]))):
            fails.append(Failure("Hugr.load_json", "operation-differs", f"node {n.idx}"))
            break
        if dict(h[n].metadata) != dict(m.metadata):
            fails.append(Failure("Hugr.load_json", "metadata-differs", f"node {n.idx}: {dict(h[n].metadata)!r} vs {dict(m.metadata)!r}"))
            break
    # multiset of links on every port, order links included
    l1 = sorted((f[s.node.idx], s.offset, f[t.node.idx], t.offset) for s, t in h.links())
    l2 = sorted((s.node.idx, s.offset, t.node.idx, t.offset) for s, t in h2.links())
    if l1 != l2:
        fails.append(Failure("Hugr.load_json", "links-differ", f"{[x for x in l1 if x not in l2][:3]} vs {[x for x in l2 if x not in l1][:3]}"))
    for n in live:
        o1 = sorted(f[m.idx] for m in h.outgoing_order_links(n))
        o2 = sorted(m.idx for m in h2.outgoing_order_links(_node(f[n.idx])))
        if o1 != o2:
            fails.append(Failure("Hugr.load_json", "order-links-differ", f"node {n.idx}: {o1} vs {o2}"))
            break
    # the only licence: order-preserving renumbering
    pairs = sorted(f.items())
    if [b for _, b in pairs] != sorted(b for _, b in pairs):
        fails.append(Failure("Hugr._to_serial", "renumbering-not-order-preserving", f"{pairs[:8]}"))
    return fails


def _node(i):
    from hugr.hugr.node_port import Node

    return Node(i)


def _strip_parent(j):
    j = dict(j)
    j.pop("parent", None)
    return _norm(j)


def _first_diff(a, b, path=""):
    if type(a) is not type(b):
        return f"{path}: {str(a)[:60]} vs {str(b)[:60]}"
    if isinstance(a, dict):
        for k in sorted(set(a) | set(b)):
            if a.get(k) != b.get(k):
                return _first_diff(a.get(k), b.get(k), path + "/" + k)
    if isinstance(a, list):
        if len(a) != len(b):
            return f"{path}: length {len(a)} vs {len(b)}"
        for i, (x, y) in enumerate(zip(a, b)):
            if x != y:
                return _first_diff(x, y, f"{path}/{i}")
    return f"{path}: {str(a)[:60]} vs {str(b)[:60]}"


# ----------------------------------------------------------------------------- generation


def cases(rng, tier):
    n_raw, n_built = {"quick": (500, 300), "thorough": (12000, 4000)}.get(tier, (8000, 3000))
    for i in range(max(n_raw, n_built)):
        if i < n_raw:
            yield _gen_raw(rng)
        if i < n_built:
            yield _gen_built(rng)


def nontrivial(spec, obs):
    try:
        o = json.loads(obs)
    except Exception:  # noqa: BLE001
        return False
    snap = o[2]
    return bool(snap) and len(snap[1]) >= 4 and len(snap[2]) >= 2


def stats(spec, obs, counters):
    counters[f"kind.{spec['kind']}"] += 1
    if spec.get("prog"):
        counters[f"built.from-program.{spec['prog'][2] or 'mixed'}"] += 1
    counters[f"outcome.{obs if len(obs) < 20 else 'roundtrip'}"] += 1
    if spec["kind"] == "raw":
        ks = [o[0] for o in spec["ops"]]
        counters["raw.with-deletion"] += "delete_node" in ks
        counters["raw.with-order-link"] += "add_order_link" in ks
        counters["raw.with-metadata"] += any(o[0] == "add_node" and o[3] for o in spec["ops"])
        counters["raw.with-insert"] += "insert_hugr" in ks
    else:
        for k, _ in spec["muts"]:
            counters[f"built.mut.{k}"] += 1


def shrink(spec, pred):
    MARK = ["__probe__"]

    def unmark(key, items):
        """the probe travels through delta debugging as a marker element of the list"""
        pr = items.index(MARK) if MARK in items else None
        return {**spec, key: [x for x in items if x != MARK], "probe": pr}

    def marked(key):
        items = list(spec[key])
        if spec.get("probe") is not None and spec["probe"] <= len(items):
            items.insert(spec["probe"], MARK)
        return items

    if spec["kind"] == "raw":
        return unmark("ops", ddmin(marked("ops"), lambda o: pred(unmark("ops", o))))
    s = unmark("muts", ddmin(marked("muts"), lambda m: pred(unmark("muts", m))))
    for size in range(1, spec["size"]):
        if pred({**s, "size": size}):
            s["size"] = size
            break
    return s
