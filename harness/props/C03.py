"""C03 — emitted documents conform to the published wire format."""
from __future__ import annotations

import json

from core import Failure
from props import C02, C09, C17
from sexp import dumps

PROP = "C03"
LEAN_TARGETS = ["HugrVerif.Props.C03"]
DRIVE_TARGETS = ["HugrVerif.Drive.Serial", "HugrVerif.Drive.Schema"]
RULE = (
    "documents emitted by Hugr.to_json (raw mutation histories incl. deletion and index reuse; HUGRs built by the real "
    "builders + mutations: the generators of C02), by Package._to_serial().model_dump_json() and Extension.to_json() "
    "(generator of C09). Each document is validated against the published strict schema (Lean Schema.eval through the "
    "driver and its Python mirror), checked for index sanity, and its edge offsets are compared with the port layout "
    "derived independently from the operations. Non-trivial = a HUGR document with >= 4 nodes and >= 2 edges, or a "
    "package/extension document; distinct by full spec."
)
TRUSTED = [
    "JSON-Schema semantics Schema.eval (cross-validated against jsonschema in C17) with the published strict schema "
    "regenerated from specification/schema on every run",
    "the port layout table of DESIGN.md §4.1 (transcribed from hugr-core/src/ops.rs and the OpTrait impls)",
]
ASSUMPTIONS = C02.ASSUMPTIONS

CFG = "hugr_schema_strict"

# ----------------------------------------------------------------------------- cases


def cases(rng, tier):
    n_h, n_p = {"quick": (450, 60), "thorough": (9000, 1500)}.get(tier, (6000, 600))
    for i in range(n_h):
        yield C02._gen_raw(rng) if i % 2 else C02._gen_built(rng)
    for _ in range(n_p):
        s = C09._rand_pkg_spec(rng)
        yield {"kind": "pkg", "mods": s["mods"], "exts": s["exts"]}
    for _ in range(max(12, n_p // 5)):
        yield {"kind": "nonfinite", "seed": rng.randrange(10**6), "size": rng.randint(0, 3)}
    for v in range(6):
        yield {"kind": "zeroarity", "v": v}


_cache = [None, None]


class NotJson(ValueError):
    pass


def _strict_loads(text):
    """RFC 8259: the tokens NaN / Infinity / -Infinity (which Python's json module accepts) are not JSON"""

    def bad(tok):
        raise NotJson(tok)

    return json.loads(text, parse_constant=bad)


def _nonfinite_hugr(spec):
    """a builder-made module carrying non-finite floats where a float may stand: node metadata and float
    constants (they have no JSON form; whatever the serialiser does, the document must stay JSON)"""
    import random

    from hugr.std.float import FloatVal

    rng = random.Random(spec["seed"])
    h = C09.build_module(spec["seed"], spec["size"])
    vals = [float("inf"), float("-inf"), float("nan")]
    nodes = list(h)
    for _ in range(rng.randint(1, 3)):
        h[rng.choice(nodes)].metadata[rng.choice(["cost", "w", "é"])] = rng.choice([rng.choice(vals), [1.5, rng.choice(vals)], {"k": rng.choice(vals)}])
    if rng.random() < 0.7:
        h.add_const(FloatVal(rng.choice(vals)), h.root)
    return h


def _zeroarity_hugr(spec):
    """state-order edges on operations WITHOUT value ports in the edge's direction (the order port is then port 0), on
    nodes whose recorded port counts are non-zero from their past: the operation was replaced in place after a value link
    was deleted, or a stray link was added and removed (seeded change C03-16: `offset or num_ports`, a legitimate order-port
    offset of 0 taken for "no order port")"""
    from hugr import ops, tys
    from hugr.build.dfg import Dfg

    v = spec["v"]
    B = tys.Bool
    d = Dfg(B)
    h = d.hugr
    mk = lambda name, i, o: ops.Custom(name, tys.FunctionType(i, o), extension="verif.ext")
    a = d.add_op(mk("src", [], [B]))
    b = d.add_op(mk("snk", [B], []), a[0])
    d.set_outputs(d.inputs()[0])
    if v % 3 == 0:
        # the value link goes away, both operations are replaced by ones without any value port
        h.delete_link(a.out(0), b.inp(0))
        h[a].op = mk("src0", [], [])
        h[b].op = mk("snk0", [], [])
    elif v % 3 == 1:
        # only the source loses its outputs; a stray link on a far port came and went
        h.delete_link(a.out(0), b.inp(0))
        h.add_link(a.out(2), b.inp(3))
        h.delete_link(a.out(2), b.inp(3))
        h[a].op = mk("src0", [], [])
        h[b].op = mk("snk0", [], [])
    else:
        # fresh nodes next to the ones with a past (recorded count 0: the control)
        h.delete_link(a.out(0), b.inp(0))
        h[a].op = mk("src0", [], [])
        h[b].op = mk("snk0", [], [])
        c = d.add_op(mk("src0", [], []))
        h.add_order_link(c, b)
    h.add_order_link(a, b)
    if v % 2:
        h.add_order_link(d.input_node, a)
    return h


def _docs(spec):
    """[(root definition, document, hugr or None)]"""
    key = json.dumps(spec, sort_keys=True)
    if _cache[0] == key:
        return _cache[1]
    out = []
    try:
        if spec["kind"] == "pkg":
            pkg = C09.build_package(spec)
            out.append(("Package", _strict_loads(pkg._to_serial().model_dump_json()), None))
            # the documents the envelope writers emit (text and binary envelope, JSON format)
            text = pkg.to_str()
            out.append(("Package", _strict_loads(text[text.index("{"):]), None))
            raw = pkg.to_bytes()
            out.append(("Package", _strict_loads(raw[raw.index(b"{"):].decode("utf-8")), None))
            for e in pkg.extensions:
                out.append(("Extension", _strict_loads(e.to_json()), None))
            for m in pkg.modules:
                out.append(("SerialHugr", _strict_loads(m.to_json()), m))
        elif spec["kind"] == "nonfinite":
            from hugr.package import Package

            h = _nonfinite_hugr(spec)
            out.append(("SerialHugr", _strict_loads(h.to_json()), None))
            pkg = Package([h], [])
            out.append(("Package", _strict_loads(pkg._to_serial().model_dump_json()), None))
            out.append(("Package", _strict_loads(pkg.to_str()[pkg.to_str().index("{"):]), None))
        elif spec["kind"] == "zeroarity":
            h = _zeroarity_hugr(spec)
            out.append(("SerialHugr", _strict_loads(h.to_json()), h))
        else:
            h = C02.build(spec)
            if h is not None:
                out.append(("SerialHugr", _strict_loads(h.to_json()), h))
    except NotJson as e:
        out = [("!", f"not-json:{e}", None)]
    except Exception as e:  # noqa: BLE001
        from hugr.ops import IncompleteOp

        out = [("!", "IncompleteOp" if isinstance(e, IncompleteOp) else "build-failed:" + type(e).__name__, None)]
    _cache[:] = [key, out]
    return out


def run_impl(spec):
    ds = _docs(spec)
    if ds and ds[0][0] == "!":
        return ds[0][1]
    # what the schema must say about each emitted document
    return " ".join("true" for _ in ds[:1]) or "none"


def payload(spec):
    ds = _docs(spec)
    if not ds or ds[0][0] == "!":
        return None
    root, doc, _ = ds[0]
    return "schema.accepts", dumps([CFG, "pub", root, C17.doc_sexp(doc)])


# ----------------------------------------------------------------------------- oracle


def _defs():
    c = C17._cfg(CFG)
    return c["pub"]["$defs"] if c else None


def _layout(op):
    """(number of value inputs, has static input, number of value outputs, has order ports): DESIGN §4.1."""
    from hugr import ops

    if isinstance(op, ops.Call):
        return len(op.instantiation.input), True, len(op.instantiation.output), True
    if isinstance(op, (ops.LoadConst, ops.LoadFunc)):
        return 0, True, 1, True
    if isinstance(op, ops.DataflowOp):
        sig = op.outer_signature()
        return len(sig.input), False, len(sig.output), True
    return None


def _hugr_failures(doc, h, fails):
    from hugr import ops

    site = "Hugr.to_json"
    nodes = doc["nodes"]
    n = len(nodes)
    if n != len(list(h)):
        fails.append(Failure(site, "node-count", f"{n} vs {len(list(h))}"))
        return
    if nodes[0]["parent"] != 0:
        fails.append(Failure(site, "node-0-not-root", str(nodes[0]["parent"])))
    for i, nd in enumerate(nodes[1:], 1):
        p = nd["parent"]
        if not (isinstance(p, int) and 0 <= p < i):
            fails.append(Failure(site, "parent-not-listed-earlier", f"node {i} has parent {p}"))
            return
    for e in doc["edges"]:
        for (m, _) in e:
            if not (isinstance(m, int) and 0 <= m < n):
                fails.append(Failure(site, "edge-endpoint-not-a-node", str(e)))
                return
    # port addressing: the document lists nodes in the hierarchy order of the in-memory HUGR; find
    # the renumbering by walking both hierarchies in child order
    order = {}
    todo = [(h.root, 0)]
    kids = {}
    for i, nd in enumerate(nodes):
        if i:
            kids.setdefault(nd["parent"], []).append(i)
    while todo:
        a, b = todo.pop()
        order[a.idx] = b
        ca, cb = h.children(a), kids.get(b, [])
        if len(ca) != len(cb):
            fails.append(Failure(site, "hierarchy-differs", f"node {a.idx}"))
            return
        todo.extend(zip(ca, cb))
    if len(doc["edges"]) != len(list(h.links())):
        fails.append(Failure(site, "edge-count", ""))
        return
    exp = []
    for s, t in h.links():
        ls, lt = _layout(h[s.node].op), _layout(h[t.node].op)
        so = s.offset if s.offset >= 0 else (ls[2] if ls and ls[3] else None)
        to = t.offset if t.offset >= 0 else ((lt[0] + int(lt[1])) if lt and lt[3] else None)
        if so is None or to is None:
            return  # an order link on an operation without order port: outside "ports their operations have"
        exp.append([[order[s.node.idx], so], [order[t.node.idx], to]])
    got = [[list(a), list(b)] for a, b in doc["edges"]]
    if sorted(map(json.dumps, got)) != sorted(map(json.dumps, exp)):
        bad = [g for g in got if g not in exp][:2]
        fails.append(Failure(site, "edge-offsets-not-by-port-layout", f"{bad} not among expected {[x for x in exp if x not in got][:2]}"))
        return
    # the static port sits immediately after the value inputs
    for s, t in h.links():
        sop, top = h[s.node].op, h[t.node].op
        if isinstance(sop, (ops.FuncDefn, ops.FuncDecl, ops.Const)) and s.offset == 0 and t.offset >= 0:
            lt = _layout(top)
            if lt and lt[1] and t.offset != lt[0]:
                fails.append(Failure("DfBase.call/load", "static-port-not-after-value-inputs", f"{t}"))
                return


def oracle(spec):
    fails: list[Failure] = []
    ds = _docs(spec)
    if not ds:
        return fails
    if ds[0][0] == "!":
        if ds[0][1].startswith("not-json:"):
            fails.append(Failure("to_json", "emitted-text-is-not-a-json-document", f"token {ds[0][1][9:]}"))
        return fails
    defs = _defs()
    for root, doc, h in ds:
        site = {"SerialHugr": "Hugr.to_json", "Package": "Package._to_serial", "Extension": "Extension.to_json"}[root]
        v = C17.ev(defs, {"$ref": "#/$defs/" + root}, doc)
        if v is not True:
            fails.append(Failure(site, "rejected-by-strict-schema" if v is False else "no-schema-verdict", _why(defs, root, doc)))
        if h is not None:
            _hugr_failures(doc, h, fails)
        if fails:
            break
    return fails


def _why(defs, root, doc):
    """Smallest sub-document with a failing definition, for the replay file."""
    try:
        if root == "SerialHugr":
            for i, nd in enumerate(doc.get("nodes", [])):
                if C17.ev(defs, {"$ref": "#/$defs/OpType"}, nd) is not True:
                    return f"node {i}: {json.dumps(nd)[:300]}"
            for i, e in enumerate(doc.get("edges", [])):
                pass
    except Exception:  # noqa: BLE001
        pass
    return json.dumps(doc)[:300]


def nontrivial(spec, obs):
    ds = _docs(spec)
    if not ds or ds[0][0] == "!":
        return False
    if spec["kind"] == "pkg":
        return True
    doc = ds[0][1]
    return len(doc["nodes"]) >= 4 and len(doc["edges"]) >= 2


def stats(spec, obs, counters):
    counters[f"kind.{spec['kind']}"] += 1
    ds = _docs(spec)
    for root, doc, _ in ds:
        if root == "!":
            counters[f"outcome.{doc[:24]}"] += 1
            continue
        counters[f"documents.{root}"] += 1
        if root == "SerialHugr":
            counters["hugr.nodes"] += len(doc["nodes"])
            counters["hugr.edges"] += len(doc["edges"])
            counters["hugr.with-metadata"] += any(m for m in doc.get("metadata") or [])


def shrink(spec, pred):
    if spec["kind"] == "pkg":
        s = dict(spec)
        for key in ("mods", "exts"):
            while len(s[key]) > 0 and pred({**s, key: s[key][:-1]}):
                s = {**s, key: s[key][:-1]}
        return s
    if spec["kind"] == "zeroarity":
        return spec
    if spec["kind"] == "nonfinite":
        for size in range(spec["size"]):
            if pred({**spec, "size": size}):
                return {**spec, "size": size}
        return spec
    return C02.shrink(spec, pred)
