"""C13 — Builders refuse inconsistent constructions instead of recording them."""
from __future__ import annotations

import json

import core
import gen_prog
import progs
from core import Failure

PROP = "C13"
TITLE = "builders refuse inconsistent constructions"
LEAN_TARGETS = ["HugrVerif.Props.C13"]
DRIVE_TARGETS = ["HugrVerif.Drive.Build"]
RULE = (
    "well-formed builder programs (harness/gen_prog.py: all builder families, depth <= 3, 3..30 generator steps) "
    "with exactly ONE inconsistency of one of 15 classes injected at a random position and depth (wire without "
    "sibling ancestor; wire from outside the enclosing CFG; differing case outputs; case index >= n; case built "
    "twice; leaving a Conditional with unbuilt cases; exit branch type mismatch; outputs differing from the "
    "declared ones; polymorphic call/load without instantiation / with a wrong type-argument count; non-function "
    "node as function; non-dataflow port as wire; integer wire in an untracked builder; untracked / never "
    "tracked index; to_json of an incomplete operation), plus a stream of the same programs with nothing "
    "injected (nothing may raise).  Observation = per-command outcomes (index of the raising command, exception "
    "class, returned handles) and the to_json documents, on the real builders and on the model.  Oracle: the "
    "injected command, and no earlier one, raises an error of the documented class.  Non-trivial = injected "
    "programs; distinct by full spec."
)
TRUSTED = [
    "harness/progs.py interpreter (one real builder call per command); harness/gen_prog.py generator and injector "
    "(the injector reads the node hierarchy of the real HUGR to choose the foreign wire)",
]
ASSUMPTIONS = [
    "a negative case index is Python list indexing, not 'out of range' (ledger F26: not claimed)",
    "a value wire into a nested FuncDefn body (F24) and wires from a different HUGR (F34) are not among the "
    "refused inconsistencies and are never generated",
    "one operation instance per node, no building on a HUGR after it was inserted elsewhere (W8): such programs "
    "are answered !unsupported by the model",
]

# generator options that make a class applicable
OPTS = {
    "no_sibling": [{}, {"family": "dfg", "bias": {"nested": 4, "conditional": 2}}],
    "not_in_cfg": [{"family": "dfg", "bias": {"cfg": 10, "nested": 4}}, {"family": "function", "bias": {"cfg": 10, "nested": 4}}],
    "case_outputs_differ": [{"family": "conditional"}, {"bias": {"conditional": 6}}],
    "case_out_of_range": [{"family": "conditional"}, {"bias": {"conditional": 6}}],
    "case_twice": [{"family": "conditional"}, {"bias": {"conditional": 6}}],
    "exit_unbuilt": [{"family": "conditional"}, {"bias": {"conditional": 6}}],
    "exit_mismatch": [{"family": "cfg"}, {"family": "dfg", "bias": {"cfg": 10}}],
    "declared_mismatch": [{"family": "module"}, {"family": "function"}],
    "poly_no_inst": [{"family": "module", "bias": {"call": 5}}],
    "poly_wrong_count": [{"family": "module", "bias": {"call": 5}}],
    "non_function": [{"family": "module", "bias": {"call": 4}}],
    "non_dataflow_port": [{}],
    "int_untracked": [{}],
    "untracked_index": [{"family": "tracked"}],
    "serialize_incomplete": [{}],
}


def _wf(rng, opts):
    return gen_prog.gen_wf_program(rng, rng.randint(3, 30), opts)


def _injected(rng, cls):
    for _ in range(12):
        opts = rng.choice(OPTS[cls])
        if cls == "untracked_index" and rng.random() < 0.5:
            p = gen_prog.gen_tracked_circuit(rng, rng.randint(1, 6), rng.randint(1, 25), {"bad": 0.0})
        else:
            p = _wf(rng, opts)
        inj = gen_prog.inject_inconsistency(rng, p, cls)
        if inj is not None:
            return {"prog": inj["prog"], "inject": {"cls": cls, "pos": inj["pos"], "expect": inj["expect"]}}
    return None


_B = ["@unit", 2]
_G = ["@sum", [[_B], []]]
_BV = ["@bool", True]
_GV = ["@vsum", 0, _G, [["@bool", True]]]


def _lookalike_scripts():
    """Rows of equal length that differ by a look-alike pair only — Bool (a unit sum of 2) against a general sum with two
    variants — in both orders, at the three places where the builders compare rows with `!=` (conditional cases, declared
    function outputs, the exit type of a CFG).  Seeded change C13-13 (asymmetric `Sum.__eq__`) is accepted in one order
    per builder only."""
    out = []
    for first, second in ((_BV, _GV), (_GV, _BV)):
        ft, st = (_B, _G) if first is _BV else (_G, _B)
        out.append(("case_outputs_differ", [
            ["Conditional", "c", ["@usum", 2], []],
            ["add_case", "c", "k0", 0], ["load", "k0", "v0", ["val", first, None]], ["set_outputs", "k0", [["out", "v0", 0]]],
            ["add_case", "c", "k1", 1], ["load", "k1", "v1", ["val", second, None]], ["set_outputs", "k1", [["out", "v1", 0]]],
        ]))
        out.append(("declared_mismatch", [
            ["Function", "f", "main", [], []], ["declare_outputs", "f", [ft]],
            ["load", "f", "v", ["val", second, None]], ["set_outputs", "f", [["out", "v", 0]]],
        ]))
        out.append(("exit_mismatch", [
            ["Cfg", "g", []], ["add_entry", "g", "e"], ["load", "e", "v", ["val", first, None]],
            ["set_single_succ_outputs", "e", [["out", "v", 0]]], ["branch_exit", "g", ["out", ["b", "e"], 0]],
            ["add_block", "g", "x", []], ["load", "x", "u", ["val", second, None]],
            ["set_single_succ_outputs", "x", [["out", "u", 0]]], ["branch_exit", "g", ["out", ["b", "x"], 0]],
        ]))
        del st
    # the same three places with a definition-backed extension type against the OPAQUE form of the same definition at
    # other type arguments — what a HUGR loaded from JSON carries: int<5> (resolved) against int<6> (unresolved), both
    # orders (seeded change C13-15: `ExtType.__eq__` taking an unresolved type of the same definition as equal without
    # looking at the arguments)
    I5 = gen_prog.INT(5)
    d = I5[1]  # ["@def", extension, name, description, params, bound]
    O6 = ["@opaque", d[2], "@C", [["@nat", 6]], d[1]]
    I5V = ["@int", 3, 5]
    O6V = ["@vext", "c", O6, ["@json", {"log_width": 6, "value": 3}], []]
    for first, second, ft in ((I5V, O6V, I5), (O6V, I5V, O6)):
        out.append(("case_outputs_differ", [
            ["Conditional", "c", ["@usum", 2], []],
            ["add_case", "c", "k0", 0], ["load", "k0", "v0", ["val", first, None]], ["set_outputs", "k0", [["out", "v0", 0]]],
            ["add_case", "c", "k1", 1], ["load", "k1", "v1", ["val", second, None]], ["set_outputs", "k1", [["out", "v1", 0]]],
        ]))
        out.append(("declared_mismatch", [
            ["Function", "f", "main", [], []], ["declare_outputs", "f", [ft]],
            ["load", "f", "v", ["val", second, None]], ["set_outputs", "f", [["out", "v", 0]]],
        ]))
        out.append(("exit_mismatch", [
            ["Cfg", "g", []], ["add_entry", "g", "e"], ["load", "e", "v", ["val", first, None]],
            ["set_single_succ_outputs", "e", [["out", "v", 0]]], ["branch_exit", "g", ["out", ["b", "e"], 0]],
            ["add_block", "g", "x", []], ["load", "x", "u", ["val", second, None]],
            ["set_single_succ_outputs", "x", [["out", "u", 0]]], ["branch_exit", "g", ["out", ["b", "x"], 0]],
        ]))
    return [{"prog": p, "inject": {"cls": cls, "pos": len(p) - 1, "expect": gen_prog.EXPECT[cls]}} for cls, p in out]


def cases(rng, tier):
    yield from _lookalike_scripts()
    n_inj, n_clean = {"quick": (1350, 450), "thorough": (36000, 12000), "search": (6000, 2000)}[tier]
    k = 0
    while k < n_inj:
        cls = gen_prog.CLASSES[k % len(gen_prog.CLASSES)]
        spec = _injected(rng, cls)
        k += 1
        if spec is not None:
            yield spec
    for _ in range(n_clean):
        yield {"prog": _wf(rng, rng.choice([{}, {}, {"family": "module"}, {"family": "cfg"}, {"bias": {"cfg": 4}}])),
               "inject": None}


def payload(spec):
    try:
        return "build.run", progs.prog_sexp(spec["prog"])
    except progs.ProgError:
        return None


def run_impl(spec):
    return progs.observation(spec["prog"])


def compare(spec, impl_obs, model_obs):
    if impl_obs.startswith("outside:"):
        return True
    return progs.same_observation(impl_obs, model_obs)


# ----------------------------------------------------------------------------- oracle


def oracle(spec):
    prog, inj = spec["prog"], spec.get("inject")
    try:
        r = progs.run_program(prog)
    except progs.ProgError:
        return []
    outs = r["outcomes"]
    raised = next((i for i, o in enumerate(outs) if o[0] == "err"), None)
    if inj is None:
        if raised is not None:
            c = prog[raised]
            return [Failure(c[0], "well-formed-program-raises", f"command {raised}: {outs[raised][1]}")]
        return []
    pos, cls = inj["pos"], inj["cls"]
    site = prog[pos][0] if pos < len(prog) else "?"
    if raised is None or raised > pos:
        return [Failure(site, f"{cls}:silently-accepted",
                        f"command {pos} {json.dumps(prog[pos])[:300]} did not raise (expected {inj['expect']})")]
    if raised < pos:
        return [Failure(prog[raised][0], "well-formed-prefix-raises", f"command {raised}: {outs[raised][1]}")]
    got = outs[raised][1]
    if got not in inj["expect"]:
        return [Failure(site, f"{cls}:wrong-class", f"command {pos} raised {got}, documented: {inj['expect']}")]
    return []


# ----------------------------------------------------------------------------- evidence


def nontrivial(spec, obs):
    return spec.get("inject") is not None


def stats(spec, obs, counters):
    inj = spec.get("inject")
    counters["class:" + (inj["cls"] if inj else "none")] += 1
    counters[f"len:{min(len(spec['prog']) // 10 * 10, 60)}+"] += 1
    try:
        o = json.loads(obs)["outcomes"]
    except Exception:  # noqa: BLE001
        return
    if o and o[-1][0] == "err":
        counters["raised:" + o[-1][1]] += 1
        if inj:
            counters["raising-command:" + spec["prog"][len(o) - 1][0]] += 1
    else:
        counters["raised:nothing"] += 1
    kinds = {c[0] for c in spec["prog"]}
    for fam, mark in (("module", "Module"), ("cfg", "add_entry"), ("conditional", "add_case"), ("if-else", "add_if"),
                      ("tail-loop", "set_loop_outputs"), ("tracked", "TrackedDfg"), ("nested", "add_nested"),
                      ("insert", "insert_nested"), ("call", "call"), ("load_function", "load_function")):
        if mark in kinds:
            counters["has:" + fam] += 1


def _model_outcomes(prog):
    """per-command outcomes of the MODEL for `prog` (None when outside the modelled fragment)"""
    try:
        line = "0\tbuild.run\t" + progs.prog_sexp(prog)
    except progs.ProgError:
        return None
    mo = core.run_driver([line], PROP).get("0", "!")
    if mo.startswith("!"):
        return None
    return json.loads(mo)["outcomes"]


def _still_the_case(spec):
    """A reduced program is a valid replay only if it still IS the case it claims to be: the model (the
    specification of the builders) says that nothing raises before `pos` and that command `pos` raises an error
    of the documented class — or, for the clean stream, that nothing raises at all."""
    outs = _model_outcomes(spec["prog"])
    if outs is None:
        return False
    inj = spec.get("inject")
    raised = next((i for i, o in enumerate(outs) if o[0] == "err"), None)
    if inj is None:
        return raised is None and len(outs) == len(spec["prog"])
    return raised == inj["pos"] and outs[raised][1] in inj["expect"]


def shrink(spec, pred):
    prog, inj = spec["prog"], spec.get("inject")
    tagged = [(c, inj is not None and i == inj["pos"]) for i, c in enumerate(prog)]

    def rebuild(items):
        if inj is None:
            return {"prog": [c for c, _ in items], "inject": None}
        pos = [i for i, (_, m) in enumerate(items) if m]
        if len(pos) != 1:
            return None
        return {"prog": [c for c, _ in items], "inject": dict(inj, pos=pos[0])}

    def fails(items):
        s = rebuild(items)
        if s is None:
            return False
        try:
            return bool(pred(s)) and _still_the_case(s)
        except progs.ProgError:
            return False

    if inj is not None:
        # commands after the injected one never matter
        tagged = tagged[: inj["pos"] + 1]
    if not fails(tagged):
        return spec
    out = core.ddmin(tagged, fails)
    return rebuild(out) or spec
