"""C20 — rendering draws every node, port and link of the HUGR exactly once.

Model: lean/HugrVerif/Render.lean (`render`), string conversions lean/HugrVerif/PyStr.lean; theorems
lean/HugrVerif/Props/C20.lean.  The HUGR reaches the model as its JSON document (`Hugr.to_json()` of a HUGR
built by the real builders); the driver loads it (`Serial.loadJson`, the model of `Hugr.load_json`) and renders
the store; the implementation renders `Hugr.load_json(h.to_json())` — the same in-memory structure including
the tracked port counters render.py reads — and the DOT source text is parsed back (harness/dotparse.py) into
the `RenderOut` dump the driver prints.  The oracle evaluates the property text on the ORIGINAL builder-built
HUGR.
"""
from __future__ import annotations

import atexit
import copy
import hashlib
import json
import os
import random
import shutil
import tempfile
from collections import Counter
from pathlib import Path

import dotparse
from core import Failure
from sexp import A, dumps

PROP = "C20"
TITLE = "Rendering draws every node, port and link of the HUGR exactly once"
LEAN_TARGETS = ["HugrVerif.Props.C20"]
DRIVE_TARGETS = ["HugrVerif.Drive.Render"]
RULE = (
    "HUGRs built by the real builders: random modules (props.C09.build_module(seed, size): declarations, definitions "
    "with constants, tuples, int ops, nested DFGs, if/else, tail loops, calls, string constants, non-ASCII names, "
    "metadata) and hand-written builder scripts (order edges out of LoadConst / Call / LoadFunc nodes into nested "
    "DFGs, CFGs with control-flow edges, static const/function edges, rich metadata incl. a graph name, deep nesting, "
    "multi-output operations with unused outputs, one wire feeding several ports; seeded random generators of "
    "non-local wires into nested DFGs/conditionals and of control-flow graphs with cross and back edges), each rendered under several "
    "render configurations (3 named palettes + a random custom palette, both name-qualification settings, and "
    "render_dot() without a configuration). "
    "Implementation observation = DOT source of Hugr.load_json(h.to_json()).render_dot(cfg) parsed back into the "
    "RenderOut structure, compared with the Lean model run on the same JSON document (the driver also evaluates the "
    "decidable store hypotheses of the theorems, RenderCheck.hypsB, on every loaded store: a false verdict counts as a "
    "divergence); oracle = the property text "
    "evaluated on h.render_dot(cfg).source of the original HUGR. Non-trivial = a HUGR with >= 6 nodes, >= 3 links and "
    ">= 1 node with children below the root; distinct by full spec. The corpus additionally validates the DOT parser "
    "on hand-written DOT texts."
)
TRUSTED = [
    "harness/dotparse.py: statement-level DOT parser (DOT lexical rules for quoted and HTML strings, subgraph nesting, "
    "node/edge/attribute statements) and the reading of render.py's HTML label templates (display name, PORT cells, "
    "metadata lines, colours); validated on hand-written DOT texts in corpus/C20",
    "Python str()/repr() of types, constant values and metadata values: modelled in PyStr.lean for the classes "
    "deserialize() produces (differentially tested through the display names and edge labels); str.isprintable of "
    "non-ASCII characters is supplied by the harness; the theorems hold for every choice of these string functions",
    "Serial.loadJson models Hugr.load_json (checked by C02/C05)",
]
ASSUMPTIONS = [
    "'port' of a node = the ports Hugr.num_in_ports / num_out_ports report (the tracked counters, documented in "
    "Hugr.num_ports: 'if port i is connected, then all ports 0..i are assumed to exist'); ports an operation's "
    "signature has beyond those (unused trailing outputs of operations added without num_outs, the function port of "
    "an uncalled FuncDefn/FuncDecl, the control-flow input of an entry block) have no cell — counted in "
    "input_distribution as ports.sig-more-than-tracked, not raised",
    "display name = op.name(); with qualify_op_name=False an extension operation shows op.op_def().name, i.e. the "
    "qualified name without the extension prefix and without the type-argument suffix name() appends (the project's "
    "own snapshot tests expect `idivmod_u` for `arithmetic.int.idivmod_u<5>`)",
    "HTML-special characters (<, >, &) in operation names and metadata are outside the generator: render.py does not "
    "escape them (noted, not raised)",
    "a truthy root metadata entry \"name\" that is not a string makes graphviz raise TypeError when .source is read "
    "(render_dot itself returns): outside the quantifier (builder programs name graphs by strings); the model has the "
    "error branch (Err.typeError, hypothesis GraphNameOk of render_succeeds) and the correspondence covers it",
]

NAMED = ["default", "nb", "zx"]

# ----------------------------------------------------------------------------- builder scripts


def _s_order_const(v):
    """a constant loaded outside, used inside a nested DFG: state-order edge out of a LoadConst node"""
    from hugr import tys, val
    from hugr.build.dfg import Dfg
    from hugr.std.logic import Not

    d = Dfg(tys.Bool)
    c = d.load(val.TRUE)
    with d.add_nested() as n:
        r = n.add_op(Not, c)
        if v % 2:
            r = n.add_op(Not, r)
        n.set_outputs(r)
    d.set_outputs(n[0], *d.inputs()) if v % 3 else d.set_outputs(n[0])
    return d.hugr


def _s_order_call(v):
    """results of a Call and of a LoadFunc used inside nested DFGs: order edges out of Call / LoadFunc nodes"""
    from hugr import ops, tys
    from hugr.build.function import Module
    from hugr.std.logic import Not

    mod = Module()
    ft = tys.FunctionType([tys.Bool], [tys.Bool])
    decl = mod.declare_function("ext_fn", tys.PolyFuncType([], ft))
    f = mod.define_function("main", [tys.Bool])
    (b,) = f.inputs()
    call = f.call(decl, b)
    with f.add_nested() as n:
        r = n.add_op(Not, call[0])
        n.set_outputs(r)
    outs = [n[0]]
    if v % 2:
        lf = f.load_function(decl)
        with f.add_nested(b) as n2:
            (x,) = n2.inputs()
            r2 = n2.add(ops.CallIndirect()(lf, x))
            n2.set_outputs(r2[0])
        outs.append(n2[0])
    f.set_outputs(*outs)
    if v % 3 == 0:
        mod.hugr[f.parent_node].metadata["doc"] = "calls ext_fn"
    return mod.hugr


def _s_cfg(v):
    """control-flow edges: entry block branching to two successors, both to the exit; optionally nested in a DFG"""
    from hugr import tys
    from hugr.build.cfg import Cfg
    from hugr.build.dfg import Dfg
    from hugr.std.int import INT_T, DivMod

    def fill(cfg):
        entry = cfg.add_entry()
        entry.set_block_outputs(*entry.inputs())
        m1 = cfg.add_successor(entry[0])
        m1.set_single_succ_outputs(*m1.inputs())
        m2 = cfg.add_successor(entry[1])
        (i,) = m2.inputs()
        n = m2.add(DivMod(i, i))
        m2.set_single_succ_outputs(n[v % 2])
        cfg.branch_exit(m1[0])
        cfg.branch_exit(m2[0])

    if v % 3 == 0:
        cfg = Cfg(tys.Bool, INT_T)
        fill(cfg)
        return cfg.hugr
    d = Dfg(tys.Bool, INT_T)
    cfg = d.add_cfg(*d.inputs())
    fill(cfg)
    d.set_outputs(cfg)
    return d.hugr


def _s_cfg_loop(v):
    """a CFG with a back edge (the entry block gets a control-flow input) and a dominator value edge"""
    from hugr import tys
    from hugr.build.cfg import Cfg

    cfg = Cfg(tys.Bool)
    with cfg.add_entry() as entry:
        (x,) = entry.inputs()
        entry.set_block_outputs(x)
    with cfg.add_successor(entry[1]) as b:
        b.set_single_succ_outputs(x)
    cfg.branch(b[0], entry)
    with cfg.add_successor(entry[0]) as last:
        last.set_single_succ_outputs(x)
    cfg.branch_exit(last[0])
    return cfg.hugr


def _s_metadata(v):
    """metadata of several shapes on several nodes, a graph name on the root"""
    from hugr import tys
    from hugr.build.dfg import Dfg
    from hugr.std.logic import Not

    vals = [
        "plain", 3, -7, 1.5, True, None, [1, "x", None], {"k": [1, 2], "q": "it's"}, "", 'say "hi"', "naïve ünï",
        2**70, [], {}, 0, 1e100, "a'b\"c", "tab\there", {"nested": {"deep": [True, 1.25]}},
    ]
    rng = random.Random(v)
    d = Dfg(tys.Bool)
    (b,) = d.inputs()
    x = b
    for i in range(1 + v % 4):
        md = {f"k{j}": rng.choice(vals) for j in range(rng.randint(1, 3))}
        x = d.add_op(Not, x, metadata=md)
    d.hugr[d.input_node].metadata["port"] = rng.choice(vals)
    if v % 2:
        d.hugr[d.hugr.root].metadata["name"] = rng.choice(["g", "my graph", "näme", "a-b", "digraph", "1x"])
    if v % 5 == 0:
        d.hugr[d.hugr.root].metadata["name"] = ""
    d.hugr[d.hugr.root].metadata["version"] = rng.choice(vals)
    d.set_outputs(x)
    return d.hugr


def _s_unused_outputs(v):
    """multi-output operations whose outputs are partly or wholly unused; one wire feeding several ports"""
    from hugr import ops, tys
    from hugr.build.dfg import Dfg
    from hugr.std.int import INT_T, DivMod

    d = Dfg(INT_T, INT_T, tys.Tuple(tys.Bool, INT_T))
    a, b, t = d.inputs()
    n1 = d.add(DivMod(a, b))  # both used below or not
    n2 = d.add(DivMod(a, a))  # second output unused
    n3 = d.add(DivMod(b, b))  # no output used
    u = d.add(ops.UnpackTuple()(t))
    outs = {
        0: [n1[0], n1[1], n2[0]],
        1: [n1[1], n2[0], n2[0]],
        2: [n2[0], u[1]],
        3: [u[0], u[0], u[1], a],
    }[v % 4]
    d.set_outputs(*outs)
    assert n3 is not None
    return d.hugr


def _s_same_def(v):
    """the same operation definition at several type arguments (integer widths) side by side, plus one of them
    twice: every node statement carries the name of its own operation"""
    from hugr.build.dfg import Dfg
    from hugr.std.int import _DivModDef, int_t

    widths = [[5, 6], [3, 5, 3], [6, 2, 5, 6], [4, 5]][v % 4]
    d = Dfg(*[int_t(w) for w in widths])
    outs = []
    for w, x in zip(widths, d.inputs()):
        n = d.add(_DivModDef(width=w)(x, x))
        outs += [n[0], n[1]] if (v + w) % 2 else [n[1]]
    d.set_outputs(*outs)
    return d.hugr


def _s_deep(v):
    """containers nested several levels deep, with a wire from the outermost level used at the innermost"""
    from hugr import tys
    from hugr.build.dfg import Dfg
    from hugr.std.logic import Not

    d = Dfg(tys.Bool)
    (b,) = d.inputs()
    depth = 2 + v % 4

    def nest(parent, k):
        with parent.add_nested() as n:
            if k == 0:
                r = n.add_op(Not, b)
            else:
                inner = nest(n, k - 1)
                r = n.add_op(Not, inner[0])
            n.set_outputs(r)
        return n

    top = nest(d, depth)
    d.set_outputs(top[0])
    return d.hugr


def _s_static(v):
    """static edges: module-level constants loaded in functions, a function calling itself and another"""
    from hugr import tys, val
    from hugr.build.function import Module
    from hugr.std.int import IntVal

    mod = Module()
    c = mod.add_const(val.TRUE if v % 2 else IntVal(5, 3))
    t = tys.Bool if v % 2 else IntVal(5, 3).type_()
    f = mod.define_function("f", [t], [t])
    (x,) = f.inputs()
    k = f.load(c)
    rec = f.call(f, k) if v % 3 else None
    f.set_outputs(rec[0] if rec is not None else x)
    g = mod.define_function("g", [t])
    r = g.call(f, *g.inputs())
    g.set_outputs(r[0], g.load(c))
    mod.declare_function("unused_decl", tys.PolyFuncType([], tys.FunctionType([t], [])))
    return mod.hugr


def _s_cond_loop(v):
    """conditional with two cases and a tail loop, nested"""
    from hugr import ops, tys
    from hugr.build.dfg import Dfg
    from hugr.std.int import INT_T
    from hugr.std.logic import Not

    d = Dfg(tys.Bool, INT_T)
    c, x = d.inputs()
    with d.add_if(c, x) as if_:
        if_.set_outputs(if_.inputs()[0])
    with if_.add_else() as else_:
        else_.set_outputs(else_.inputs()[0])
    y = else_.conditional_node[0]
    with d.add_tail_loop([], [y]) as tl:
        (z,) = tl.inputs()
        nc = tl.add_op(Not, c)
        either = tys.Either([], [])
        brk = tl.add((ops.Break if v % 2 else ops.Continue)(either)())
        tl.set_loop_outputs(brk, z)
        assert nc is not None
    d.set_outputs(tl[0])
    return d.hugr


def _s_single(v):
    """degenerate HUGRs: a module with nothing in it / with one leaf child"""
    from hugr import tys, val
    from hugr.build.function import Module
    from hugr.hugr import Hugr

    if v % 3 == 0:
        return Hugr()
    mod = Module()
    if v % 3 == 1:
        mod.add_const(val.Tuple(val.TRUE, val.FALSE))
    else:
        mod.declare_function("λ", tys.PolyFuncType([tys.TypeTypeParam(tys.TypeBound.Any)], tys.FunctionType([tys.Variable(0, tys.TypeBound.Any)], [])))
    return mod.hugr


def _s_nonlocal(v):
    """random nesting in which inner operations use wires of enclosing regions: state-order edges out of
    LoadConst, Call, LoadFunc and ordinary nodes into nested DFGs, conditionals and loops at several depths"""
    from hugr import ops, tys, val
    from hugr.build.function import Module
    from hugr.std.int import INT_T, DivMod, IntVal
    from hugr.std.logic import Not

    rng = random.Random(v)
    mod = Module()
    decl = mod.declare_function("ext", tys.PolyFuncType([], tys.FunctionType([tys.Bool], [tys.Bool, INT_T])))
    f = mod.define_function(rng.choice(["main", "f", "名"]), [tys.Bool, INT_T])
    pool = [(w, t) for w, t in zip(f.inputs(), [tys.Bool, INT_T])]

    def pick(pl, t):
        c = [w for w, tt in pl if tt == t]
        return rng.choice(c) if c else None

    def body(b, pl, depth):
        """`pl` holds every wire visible here (own and enclosing regions)"""
        for _ in range(rng.randint(1, 4)):
            k = rng.randrange(8)
            md = {"m": rng.choice([1, "x", [1, 2], None])} if rng.random() < 0.2 else None
            if k == 0:
                pl.append((b.load(rng.choice([val.TRUE, val.FALSE])), tys.Bool))
            elif k == 1:
                pl.append((b.load(IntVal(rng.randrange(8), 5)), INT_T))
            elif k == 2:
                w = pick(pl, tys.Bool)
                n = b.call(decl, w)
                pl.append((n[0], tys.Bool))
                pl.append((n[1], INT_T))
            elif k == 3:
                w = pick(pl, tys.Bool)
                pl.append((b.add_op(Not, w, metadata=md), tys.Bool))
            elif k == 4:
                a, c = pick(pl, INT_T), pick(pl, INT_T)
                n = b.add(DivMod(a, c), metadata=md)
                pl.append((n[0], INT_T))
                if rng.random() < 0.5:
                    pl.append((n[1], INT_T))
            elif k == 5 and depth < 3:
                with b.add_nested() as n:
                    inner = list(pl)
                    body(n, inner, depth + 1)
                    outs = rng.sample(inner, min(len(inner), rng.randint(1, 2)))
                    n.set_outputs(*[w for w, _ in outs])
                for i, (_, t) in enumerate(outs):
                    pl.append((n[i], t))
            elif k == 6 and depth < 3:
                lf = b.load_function(decl)
                with b.add_nested() as n:
                    x = pick(pl, tys.Bool)
                    r = n.add(ops.CallIndirect()(lf, x))
                    n.set_outputs(r[0])
                pl.append((n[0], tys.Bool))
            elif k == 7 and depth < 3:
                c, x = pick(pl, tys.Bool), pick(pl, INT_T)
                with b.add_if(c, x) as if_:
                    inner = list(pl) + [(if_.inputs()[0], INT_T)]
                    body(if_, inner, depth + 1)
                    if_.set_outputs(pick(inner, INT_T))
                with if_.add_else() as else_:
                    else_.set_outputs(else_.inputs()[0])
                pl.append((else_.conditional_node[0], INT_T))

    body(f, pool, 0)
    outs = rng.sample(pool, min(len(pool), rng.randint(0, 3)))
    f.set_outputs(*[w for w, _ in outs])
    if rng.random() < 0.3:
        mod.hugr[mod.hugr.root].metadata["name"] = rng.choice(["g", "G 1", "ö"])
    return mod.hugr


def _s_rand_cfg(v):
    """a random control-flow graph: 2-way and 1-way blocks, forward, cross and back edges, several
    predecessors of one block, branches to the exit; at the root or nested in a function body"""
    from hugr import tys, val
    from hugr.build.cfg import Cfg
    from hugr.build.function import Module
    from hugr.std.int import INT_T, DivMod

    rng = random.Random(v)
    nested = rng.random() < 0.5
    if nested:
        mod = Module()
        f = mod.define_function("main", [tys.Bool, INT_T])
        cfg = f.add_cfg(*f.inputs())
    else:
        cfg = Cfg(tys.Bool, INT_T)
    budget = rng.randint(1, 6)
    with cfg.add_entry() as entry:
        b, i = entry.inputs()
        entry.set_block_outputs(b, i)
    todo = [entry[0], entry[1]]
    blocks = []
    exited = False
    while todo:
        port = todo.pop(rng.randrange(len(todo)))
        r = rng.random()
        if budget > 0 and (r < 0.6 or not blocks):
            budget -= 1
            with cfg.add_successor(port) as blk:
                (x,) = blk.inputs()
                if rng.random() < 0.4:
                    x = blk.add(DivMod(x, x))[rng.randrange(2)]
                if rng.random() < 0.6:
                    blk.set_block_outputs(blk.load(rng.choice([val.TRUE, val.FALSE])), x)
                    todo += [blk[0], blk[1]]
                else:
                    blk.set_single_succ_outputs(x)
                    todo.append(blk[0])
            blocks.append(blk)
        elif r < 0.8 and blocks and (todo or exited):  # the exit must be branched to, else the CFG has no output types
            cfg.branch(port, rng.choice(blocks))
        else:
            cfg.branch_exit(port)
            exited = True
    if nested:
        f.set_outputs(cfg)
        return mod.hugr
    return cfg.hugr


def _s_badname(v):
    """a root whose "name" metadata entry is not a string: graphviz raises TypeError when the source text is
    produced (falsy values give an unnamed graph) — correspondence only, outside the oracle's quantifier"""
    from hugr import tys
    from hugr.build.dfg import Dfg

    d = Dfg(tys.Bool)
    d.set_outputs(*d.inputs())
    d.hugr[d.hugr.root].metadata["name"] = [5, ["x"], {"a": 1}, 2.5, True, 0, None, False, [], {}, 0.0, ""][v % 12]
    return d.hugr


def _s_loadfn_poly(v):
    """a polymorphic function loaded at a concrete instantiation, the loaded value used by a CallIndirect: the wire out
    of the LoadFunction is labelled with the INSTANTIATED function type (seeded change C20-13: the label taken from the
    polymorphic body)"""
    from hugr import ops, tys
    from hugr.build.function import Module

    T = [tys.Qubit, tys.Bool, tys.USize(), tys.Tuple(tys.Bool, tys.Bool)][v % 4]
    m = Module()
    v0 = tys.Variable(0, tys.TypeBound.Any)
    f = m.declare_function("id", tys.PolyFuncType([tys.TypeTypeParam(tys.TypeBound.Any)], tys.FunctionType([v0], [v0])))
    main = m.define_function("main", [T], [T])
    (x,) = main.inputs()
    lf = main.load_function(f, tys.FunctionType([T], [T]), [T.type_arg()])
    if v % 3 == 0:
        with main.add_nested(x) as n:
            ci = n.add_op(ops.CallIndirect(), lf, n.inputs()[0])
            n.set_outputs(ci[0])
        main.set_outputs(n[0])
    else:
        ci = main.add_op(ops.CallIndirect(), lf, x)
        main.set_outputs(ci[0])
    return m.hugr


def _s_explicit_sig(v):
    """an extension operation whose own signature does not list its extension among the requirements — given explicitly
    (`ExtOp(op_def, signature)`) or as a document written elsewhere has it, loaded and resolved: drawing it, with
    qualified names or without, leaves it as it is (seeded change C20-14: the requirement list extended in place by the
    first look at the display name)"""
    from hugr import ext, ops, tys
    from hugr.build.dfg import Dfg
    from hugr.hugr import Hugr

    e = ext.Extension("verif.draw", ext.Version(0, 1, 0))
    od = e.add_op_def(ext.OpDef("g", ext.OpDefSig(tys.FunctionType([tys.Bool], [tys.Bool])), description="d"))
    d = Dfg(tys.Bool)
    if v % 2 == 0:
        n = d.add_op(ops.ExtOp(od, tys.FunctionType([tys.Bool], [tys.Bool])), d.inputs()[0])
        d.set_outputs(n[0])
        return d.hugr
    n = d.add_op(ops.Custom("g", tys.FunctionType([tys.Bool], [tys.Bool]), extension="verif.draw"), d.inputs()[0])
    d.set_outputs(n[0])
    h = Hugr.load_json(d.hugr.to_json())
    reg = ext.ExtensionRegistry()
    reg.add_extension(e)
    h.resolve_extensions(reg)
    return h


def _s_custom_asextop(v):
    """an operation class of the user's own that implements the `AsExtOp` interface directly (neither `ExtOp` nor a
    `RegisteredOp`), as the package's documentation and tests do for gates: its node carries the bare definition name when
    names are not qualified (seeded change C20-16: the renderer testing for the two concrete classes only)"""
    from dataclasses import dataclass

    from hugr import ext, ops, tys
    from hugr.build.dfg import Dfg

    e = ext.Extension("verif.gates", ext.Version(0, 1, 0))
    names = ["H", "Rz", "g.h"][: 1 + v % 3]
    for nm in names:
        e.add_op_def(ext.OpDef(nm, ext.OpDefSig(tys.FunctionType([tys.Qubit], [tys.Qubit])), description="gate " + nm))

    @dataclass(frozen=True)
    class Gate(ops.AsExtOp):
        which: str

        def op_def(self):
            return e.operations[self.which]

    d = Dfg(tys.Qubit)
    w = d.inputs()[0]
    for nm in names * (1 + v % 2):
        w = d.add_op(Gate(nm), w)[0]
    d.set_outputs(w)
    return d.hugr


SCRIPTS = {
    "custom_asextop": _s_custom_asextop,
    "loadfn_poly": _s_loadfn_poly,
    "explicit_sig": _s_explicit_sig,
    "order_const": _s_order_const,
    "order_call": _s_order_call,
    "cfg": _s_cfg,
    "cfg_loop": _s_cfg_loop,
    "metadata": _s_metadata,
    "unused_outputs": _s_unused_outputs,
    "same_def": _s_same_def,
    "deep": _s_deep,
    "static": _s_static,
    "cond_loop": _s_cond_loop,
    "single": _s_single,
    "nonlocal": _s_nonlocal,
    "rand_cfg": _s_rand_cfg,
    "badname": _s_badname,
}
SCRIPT_VARIANTS = 12

# ----------------------------------------------------------------------------- building, configs


def _build(spec):
    if spec["kind"] == "prog":
        # the HUGR of a generated well-formed builder program (harness/gen_prog.py, every builder family)
        from props import C02

        return C02._prog_hugr(spec["prog"])
    if spec["kind"] == "raw":
        # a HUGR edited through the mutators after building: deleted nodes, reused indices (children lists
        # that are not in index order), multi-links, order links — complete operations throughout
        from props import C02

        h = C02.build(spec["spec"])
        if h is None:
            raise ValueError("history outside the domain")
        return h
    if spec["kind"] == "mod":
        from props import C09

        return C09.build_module(spec["seed"], spec["size"])
    return SCRIPTS[spec["name"]](spec["v"])


def _palette(p):
    from hugr.hugr.render import Palette

    if isinstance(p, list):
        return Palette(*p[1:])
    return Palette.named(p)


def _config(c):
    from hugr.hugr.render import RenderConfig

    if c["palette"] is None:
        return None  # `render_dot()` without a configuration
    return RenderConfig(palette=_palette(c["palette"]), qualify_op_name=c["qualify"])


def _cfg_sx(c):
    p = c["palette"]
    if p is None:
        return [A("none"), False]
    return [[A("custom"), *p[1:]] if isinstance(p, list) else p, bool(c["qualify"])]


def _rand_colour(rng):
    return rng.choice(["red", "#%06x" % rng.randrange(1 << 24), "#%06X" % rng.randrange(1 << 24), "gray42", "navy blue"])


def _rand_palette(rng):
    return ["custom", *[_rand_colour(rng) for _ in range(8)]]


def _all_configs(rng):
    cs = [{"palette": p, "qualify": q} for p in NAMED for q in (False, True)]
    cs.append({"palette": _rand_palette(rng), "qualify": rng.random() < 0.5})
    cs.append({"palette": None, "qualify": False})
    return cs


def _json_to_sx(v):
    """as bridge.json_to_sx, but every float keeps its Python repr as the literal (the model prints it back)"""
    if v is None:
        return A("null")
    if v is True:
        return A("true")
    if v is False:
        return A("false")
    if isinstance(v, int):
        return [A("i"), v]
    if isinstance(v, float):
        return [A("n"), repr(v)]
    if isinstance(v, str):
        return [A("s"), v]
    if isinstance(v, list):
        return [A("a")] + [_json_to_sx(x) for x in v]
    if isinstance(v, dict):
        return [A("o")] + [[str(k), _json_to_sx(x)] for k, x in v.items()]
    raise TypeError(type(v))


def _nonprintable(v, acc):
    if isinstance(v, str):
        for ch in v:
            if ord(ch) > 126 and not ch.isprintable():
                acc.add(ord(ch))
    elif isinstance(v, list):
        for x in v:
            _nonprintable(x, acc)
    elif isinstance(v, dict):
        for k, x in v.items():
            _nonprintable(k, acc)
            _nonprintable(x, acc)


ERR_CLASSES = ("KeyError", "IncompleteOp", "InvalidPort", "ValueError", "IndexError", "TypeError", "RecursionError",
               "DotError", "AssertionError")


def _cls(e):
    for t in type(e).__mro__:
        if t.__name__ in ERR_CLASSES:
            return t.__name__
    return "Exception"


def _canon(v):
    return json.dumps(v, sort_keys=True, ensure_ascii=False, separators=(",", ":"))


def _render(h, cfg):
    """parsed RenderOut dump of h.render_dot(cfg).source (never .render()/.pipe(): no dot binary is involved)"""
    src = h.render_dot(cfg).source
    return dotparse.render_out(dotparse.parse(src))


# ----------------------------------------------------------------------------- per-spec evaluation (cached)

_TMP = tempfile.mkdtemp(prefix="c20-")
_TMP_OWNER = os.getpid()


def _cleanup():
    if os.getpid() == _TMP_OWNER:
        shutil.rmtree(_TMP, ignore_errors=True)


atexit.register(_cleanup)

_cache = [None, None]


def _key(spec):
    return hashlib.sha1(json.dumps(spec, sort_keys=True).encode()).hexdigest()


def _eval(spec):
    """everything the hooks need for one spec: (obs, failures, payload text | None, stats dict)"""
    key = _key(spec)
    if _cache[0] == key:
        return _cache[1]
    if spec["kind"] == "dot":
        res = _eval_dot(spec)
    elif spec["kind"] == "palette":
        res = _eval_palette(spec)
    else:
        res = _eval_hugr(spec)
    _cache[:] = [key, res]
    if res[2] is not None:
        try:
            Path(_TMP, key).write_text(res[2])
        except OSError:
            pass
    return res


def _eval_dot(spec):
    fails = []
    try:
        got = dotparse.render_out(dotparse.parse(spec["source"])) if spec.get("as") != "tree" else dotparse.parse(spec["source"])
        got = json.loads(_canon(got))
    except dotparse.DotError as e:
        got = {"error": "DotError", "detail": str(e)[:80]}
    want = spec["expect"]
    if "error" in want:
        ok = got.get("error") == want["error"]
    else:
        ok = _canon(got) == _canon(want)
    if not ok:
        fails.append(Failure("dotparse", "parser-result-differs", f"{_canon(got)[:600]}"))
    return _canon(got), fails, None, {"nodes": 0, "links": 0, "parents": 0}


def _eval_palette(spec):
    """`Palette.named(name)` of an unknown name"""
    try:
        _palette(spec["name"])
        obs = {"error": None}
    except Exception as e:  # noqa: BLE001
        obs = {"error": _cls(e)}
    pl = dumps([[[spec["name"], False]], [], _json_to_sx({"nodes": [], "edges": []})])
    return _canon([obs]), [], pl, {"nodes": 0, "links": 0, "parents": 0}


def _eval_hugr(spec):
    from hugr.hugr import Hugr

    st = {"nodes": 0, "links": 0, "parents": 0}
    try:
        h = _build(spec)
        text = h.to_json()
    except Exception as e:  # noqa: BLE001
        return _canon({"build-failed": type(e).__name__}), [], None, st
    doc = json.loads(text)
    # ---- implementation observation: the reloaded HUGR under every config
    outs = []
    try:
        h2 = Hugr.load_json(text)
    except Exception as e:  # noqa: BLE001
        h2 = None
        outs = [{"error": "Load:" + type(e).__name__}] * len(spec["configs"])
    if h2 is not None:
        for c in spec["configs"]:
            try:
                outs.append(_render(h2, _config(c)))
            except Exception as e:  # noqa: BLE001
                outs.append({"error": _cls(e)})
    np = set()
    _nonprintable(doc, np)
    pl = dumps([[_cfg_sx(c) for c in spec["configs"]], sorted(np), _json_to_sx(doc)])
    fails = _oracle(h, spec, st)
    return _canon({"outs": outs, "st": st}), fails, pl, st


# ----------------------------------------------------------------------------- oracle


def _snapshot(h):
    """Everything a HUGR holds: nodes with operation, parent, ordered children, metadata, tracked port counts;
    links with sub-offsets in order; free list; root."""
    nodes = []
    for i, nd in enumerate(h._nodes):
        if nd is None:
            nodes.append(None)
            continue
        try:
            op = nd.op._to_serial(nd.parent or h.root).model_dump_json()
        except Exception as e:  # noqa: BLE001
            op = "unserialisable:" + type(e).__name__
        nodes.append((type(nd.op).__name__, op, repr(nd.op), nd.parent.idx if nd.parent else None,
                      [(c.idx, c._num_out_ports) for c in nd.children], copy.deepcopy(nd.metadata), nd._num_inps, nd._num_outs))
    links = [((s.port.node.idx, s.port.offset, s.sub_offset), (t.port.node.idx, t.port.offset, t.sub_offset))
             for s, t in h._links.items()]
    back = [((t.port.node.idx, t.port.offset, t.sub_offset), (s.port.node.idx, s.port.offset, s.sub_offset))
            for t, s in h._links.bck.items()]
    return nodes, links, back, [n.idx for n in h._free_nodes], h.root.idx


def _sig_ports(op):
    """(inputs, outputs) the operation's own layout gives it, or None where that is not determined."""
    from hugr import ops

    try:
        if isinstance(op, ops.Call):
            return len(op.instantiation.input) + 1, len(op.instantiation.output)
        if isinstance(op, (ops.LoadConst, ops.LoadFunc)):
            return 1, 1
        if isinstance(op, ops.DataflowOp):
            sig = op.outer_signature()
            return len(sig.input), len(sig.output)
        if isinstance(op, (ops.FuncDefn, ops.FuncDecl, ops.Const)):
            return 0, 1
        if isinstance(op, ops.DataflowBlock):
            return 1, len(op.sum_ty.variant_rows)
        if isinstance(op, ops.ExitBlock):
            return 1, 0
        if isinstance(op, (ops.Module, ops.Case, ops.AliasDecl, ops.AliasDefn)):
            return 0, 0
    except Exception:  # noqa: BLE001
        return None
    return None


def _expected_tree(h, node):
    """the hierarchy below `node` as nested (idx, [children…])"""
    return (node.idx, [_expected_tree(h, c) for c in h.children(node)])


def _drawn_tree(item):
    """a drawn item as (idx, [child trees…]) — a cluster stands for the node it is named after; its own node
    statement must be one of its direct members"""
    if "node" in item:
        return (item["node"]["id"], None)
    subs = [_drawn_tree(x) for x in item["body"]]
    return (item["cluster"], subs)


def _check_tree(h, item, node, fails, site):
    """`item` draws exactly the hierarchy below `node`."""
    kids = h.children(node)
    if not kids:
        if "node" not in item or item["node"]["id"] != str(node.idx):
            fails.append(Failure(site, "leaf-not-drawn-as-plain-node", f"node {node.idx}: {_shape(item)}"))
        return
    if "cluster" not in item or item["cluster"] != f"cluster{node.idx}":
        fails.append(Failure(site, "parent-without-its-cluster", f"node {node.idx}: {_shape(item)}"))
        return
    own = [x for x in item["body"] if "node" in x and x["node"]["id"] == str(node.idx)]
    rest = [x for x in item["body"] if not ("node" in x and x["node"]["id"] == str(node.idx))]
    if len(own) != 1:
        fails.append(Failure(site, "cluster-without-own-node-statement", f"node {node.idx}: {len(own)}"))
        return
    want = Counter(str(k.idx) for k in kids)
    got = Counter((x["node"]["id"] if "node" in x else (x["cluster"] or "")[len("cluster"):]) for x in rest)
    if want != got:
        fails.append(Failure(site, "cluster-members-differ-from-children",
                             f"node {node.idx}: drawn {sorted(got.elements())} children {sorted(want.elements())}"))
        return
    by = {(x["node"]["id"] if "node" in x else x["cluster"][len("cluster"):]): x for x in rest}
    for k in kids:
        _check_tree(h, by[str(k.idx)], k, fails, site)


def _shape(item):
    return "node " + item["node"]["id"] if "node" in item else f"cluster {item['cluster']} with {len(item['body'])} members"


def _erase(out):
    """the drawing with colours and operation names erased (what must not depend on the configuration)"""

    def cell(c):
        return {"port": c["port"], "text": c["text"]}

    def item(it):
        if "node" in it:
            n = it["node"]
            return {"node": {"id": n["id"], "in": [cell(c) for c in n["in"]], "out": [cell(c) for c in n["out"]],
                             "meta": n["meta"], "attrs": n["attrs"]}}
        return {"cluster": it["cluster"], "attrs": {k: v for k, v in it["attrs"].items() if k != "color"},
                "body": [item(x) for x in it["body"]]}

    return {
        "name": out["name"],
        "graph": {k: v for k, v in out["graph"].items() if k != "bgcolor"},
        "items": [item(x) for x in dotparse.items_of(out)],
        "edges": [{"src": e["src"], "dst": e["dst"], "label": e["label"],
                   "attrs": {k: v for k, v in e["attrs"].items() if k != "color"}} for e in out["edges"]],
    }


def _names(out):
    return {n["id"]: n["name"] for n in dotparse.node_stmts(dotparse.items_of(out))}


_WARM = []


def _warm_hugr():
    """a small HUGR whose low node indices have other arities, names and metadata than most others"""
    if not _WARM:
        from hugr import ops, tys
        from hugr.build.dfg import Dfg

        d = Dfg(tys.Bool, tys.Qubit, tys.Bool)
        d.hugr[d.hugr.root].metadata["warm"] = [1, 2]
        a, q, b = d.inputs()
        n = d.add_op(ops.Noop(), a)
        d.hugr[n.to_node()].metadata["m"] = "x"
        d.set_outputs(n[0], q, b, a)
        _WARM.append(d.hugr)
    return _WARM[0]


def _oracle(h, spec, st):
    from hugr import ops, tys

    fails: list[Failure] = []
    site = "DotRenderer.render"
    nodes = list(h)
    links = list(h.links())
    st["nodes"], st["links"] = len(nodes), len(links)
    st["parents"] = sum(1 for n in nodes if h.children(n) and n != h.root)
    st["order_links"] = sum(1 for s, _ in links if s.offset == -1)
    st["order_from_static_user"] = sum(
        1 for s, _ in links if s.offset == -1 and isinstance(h[s.node].op, (ops.LoadConst, ops.Call, ops.LoadFunc)))
    st["cf_links"] = sum(1 for s, _ in links if isinstance(h[s.node].op, ops.DataflowBlock))
    st["static_links"] = sum(1 for s, _ in links if isinstance(h[s.node].op, (ops.Const, ops.FuncDefn, ops.FuncDecl)))
    st["with_metadata"] = sum(1 for n in nodes if h[n].metadata)
    st["sig_more_than_tracked"] = 0
    st["ext_ops"] = sum(1 for n in nodes if isinstance(h[n].op, ops.AsExtOp))
    name = h[h.root].metadata.get("name")
    if name and not isinstance(name, str):
        st["nonstring_graph_name"] = 1
        return fails  # ASSUMPTIONS: a graph name that is not a string is outside the quantifier
    before = _snapshot(h)
    erased = []
    for c in spec["configs"]:
        try:
            cfg = _config(c)
        except Exception as e:  # noqa: BLE001
            fails.append(Failure("RenderConfig", "config-raises", _cls(e)))
            continue
        # ---- rendering succeeds
        try:
            src = h.render_dot(cfg).source
        except Exception as e:  # noqa: BLE001
            fails.append(Failure(site, "render-raises", f"{type(e).__name__}: {str(e)[:120]}"))
            return fails
        try:
            out = dotparse.render_out(dotparse.parse(src))
        except dotparse.DotError as e:
            fails.append(Failure(site, "source-not-readable-as-dot", str(e)[:160]))
            return fails
        # ---- a renderer object that drew another HUGR before draws this one the same way
        try:
            from hugr.hugr.render import DotRenderer

            r = DotRenderer(cfg)
            r.render(_warm_hugr())
            src2 = r.render(h).source
            if src2 != src:
                fails.append(Failure(site, "drawing-depends-on-what-the-renderer-drew-before",
                                     _first_diff(json.loads(_canon(out)), json.loads(_canon(dotparse.render_out(dotparse.parse(src2)))))))
                return fails
        except dotparse.DotError as e:
            fails.append(Failure(site, "source-not-readable-as-dot", str(e)[:160]))
            return fails
        except Exception as e:  # noqa: BLE001
            fails.append(Failure(site, "render-raises", f"reused renderer: {type(e).__name__}: {str(e)[:120]}"))
            return fails
        items = dotparse.items_of(out)
        # ---- one node statement per node, with the display name and one cell per port
        stmts = dotparse.node_stmts(items)
        ids = Counter(s["id"] for s in stmts)
        want_ids = Counter(str(n.idx) for n in nodes)
        if ids != want_ids:
            missing = sorted((want_ids - ids).elements())
            extra = sorted((ids - want_ids).elements())
            fails.append(Failure("DotRenderer._viz_node", "node-statements-differ-from-nodes", f"missing {missing[:5]} extra/duplicate {extra[:5]}"))
            return fails
        by_id = {s["id"]: s for s in stmts}
        used_in, used_out = {}, {}
        for s, t in links:
            used_out[s.node.idx] = max(used_out.get(s.node.idx, 0), s.offset + 1)
            used_in[t.node.idx] = max(used_in.get(t.node.idx, 0), t.offset + 1)
        for n in nodes:
            s = by_id[str(n.idx)]
            op = h[n].op
            full = op.name()
            if isinstance(op, ops.AsExtOp) and not c["qualify"]:
                bare = op.op_def().name
                ext = op.op_def()._extension
                prefix = (ext.name + ".") if ext is not None and ext.name else ""
                ok = s["name"] == bare and _unqualifies(bare, full, prefix)
            else:
                ok = s["name"] == full
            if not ok:
                fails.append(Failure("DotRenderer._viz_node", "wrong-display-name", f"node {n.idx}: drawn {s['name']!r}, operation {full!r}"))
                return fails
            n_in, n_out = h.num_in_ports(n), h.num_out_ports(n)
            want_in = [(f"in.{k}", str(k)) for k in range(n_in)]
            want_out = [(f"out.{k}", str(k)) for k in range(n_out)]
            got_in = [(x["port"], x["text"]) for x in s["in"]]
            got_out = [(x["port"], x["text"]) for x in s["out"]]
            if got_in != want_in or got_out != want_out:
                fails.append(Failure("DotRenderer._viz_node", "cells-differ-from-ports",
                                     f"node {n.idx} ({full}): in {[p for p, _ in got_in]} out {[p for p, _ in got_out]}; ports {n_in} in {n_out} out"))
                return fails
            if len(got_in) < used_in.get(n.idx, 0) or len(got_out) < used_out.get(n.idx, 0):
                fails.append(Failure("DotRenderer._viz_node", "linked-port-without-cell", f"node {n.idx}"))
                return fails
            sp = _sig_ports(op)
            if sp is not None and c is spec["configs"][0] and (sp[0] > n_in or sp[1] > n_out):
                st["sig_more_than_tracked"] += 1
        # ---- one cluster per node with children, nested as the hierarchy
        if len(items) != 1:
            fails.append(Failure("DotRenderer._viz_node", "not-one-top-level-item", str(len(items))))
            return fails
        _check_tree(h, items[0], h.root, fails, "DotRenderer._viz_node")
        if fails:
            return fails
        # ---- one edge statement per link with the right endpoints; value edges labelled by their type
        want_e = Counter((f"{s.node.idx}:out.{s.offset}", f"{t.node.idx}:in.{t.offset}") for s, t in links)
        got_e = Counter((e["src"], e["dst"]) for e in out["edges"])
        if want_e != got_e:
            fails.append(Failure("DotRenderer._viz_link", "edge-statements-differ-from-links",
                                 f"missing {sorted((want_e - got_e).elements())[:3]} extra {sorted((got_e - want_e).elements())[:3]}"))
            return fails
        want_l = Counter()
        for s, t in links:
            ty = h.port_type(s) if s.offset >= 0 else None
            kind = h.port_kind(s)
            if isinstance(kind, tys.ValueKind):
                if ty is None:
                    ty = kind.ty
                want_l[(f"{s.node.idx}:out.{s.offset}", f"{t.node.idx}:in.{t.offset}", str(ty))] += 1
        got_l = Counter((e["src"], e["dst"], e["label"]) for e in out["edges"])
        if want_l - got_l:
            fails.append(Failure("DotRenderer._viz_link", "value-edge-not-labelled-by-its-type", f"{sorted((want_l - got_l).elements())[:3]}"))
            return fails
        erased.append((c, _erase(out), _names(out)))
    # ---- independent of palette and name qualification except colours and the extension prefix of names
    if erased:
        c0, e0, n0 = erased[0]
        for c, e, nm in erased[1:]:
            if e != e0:
                fails.append(Failure(site, "drawing-depends-on-config", f"{_cfg_sx(c0)} vs {_cfg_sx(c)}: {_first_diff(e0, e)}"))
                return fails
            for i in n0:
                a, b = n0[i], nm[i]
                if c["qualify"] == c0["qualify"]:
                    if a != b:
                        fails.append(Failure(site, "name-depends-on-palette", f"node {i}: {a!r} vs {b!r}"))
                        return fails
                else:
                    short, long_ = (a, b) if c["qualify"] else (b, a)
                    op = h[_node(h, int(i))].op
                    if isinstance(op, ops.AsExtOp):
                        ext = op.op_def()._extension
                        prefix = (ext.name + ".") if ext is not None and ext.name else ""
                        ok = _unqualifies(short, long_, prefix)
                    else:
                        ok = short == long_
                    if not ok:
                        fails.append(Failure(site, "name-differs-by-more-than-extension-prefix", f"node {i}: {short!r} vs {long_!r}"))
                        return fails
    # ---- a renderer made WITHOUT a configuration has a configuration of its own: editing it afterwards does not change
    # what later default renders draw (seeded change C20-15: one module-level default shared by every renderer)
    try:
        from hugr.hugr.render import DotRenderer

        src0 = h.render_dot().source
        r0 = DotRenderer()
        r0.config.qualify_op_name = not r0.config.qualify_op_name
        src1 = h.render_dot().source
        r0.config.qualify_op_name = not r0.config.qualify_op_name  # put back whatever the object was
        if src1 != src0:
            fails.append(Failure(site, "default-rendering-depends-on-another-renderer's-edited-configuration", _first_diff(src0, src1)))
            return fails
    except Exception as e:  # noqa: BLE001
        fails.append(Failure(site, "raises", f"default render: {type(e).__name__}"))
        return fails
    # ---- rendering does not modify the HUGR
    after = _snapshot(h)
    if after != before:
        fails.append(Failure(site, "hugr-modified-by-rendering", _first_diff(before, after)))
    return fails


def _unqualifies(short, long_, prefix):
    """`long_` is `short` with at most the extension prefix in front and the `<type args>` suffix `name()` appends"""
    for p in ("", prefix):
        if long_.startswith(p + short):
            rest = long_[len(p + short):]
            if rest == "" or (rest.startswith("<") and rest.endswith(">")):
                return True
    return False


def _node(h, idx):
    for n in h:
        if n.idx == idx:
            return n
    raise KeyError(idx)


def _first_diff(a, b, path="$"):
    if type(a) is not type(b):
        return f"{path}: {a!r:.80} vs {b!r:.80}"
    if isinstance(a, dict):
        for k in sorted(set(a) | set(b), key=str):
            if k not in a or k not in b:
                return f"{path}.{k}: only on one side"
            d = _first_diff(a[k], b[k], f"{path}.{k}")
            if d:
                return d
        return ""
    if isinstance(a, (list, tuple)):
        if len(a) != len(b):
            return f"{path}: length {len(a)} vs {len(b)}"
        for i, (x, y) in enumerate(zip(a, b)):
            d = _first_diff(x, y, f"{path}[{i}]")
            if d:
                return d
        return ""
    return "" if a == b else f"{path}: {a!r:.80} vs {b!r:.80}"


# ----------------------------------------------------------------------------- hooks


def cases(rng, tier):
    n_mod, n_cfg, n_var = {"quick": (300, 2, 3), "thorough": (6000, 8, SCRIPT_VARIANTS)}.get(tier, (3000, 3, SCRIPT_VARIANTS))
    # hand-written builder scripts first
    for name in SCRIPTS:
        if name in ("nonlocal", "rand_cfg"):
            continue
        for v in range(n_var):
            allc = _all_configs(rng)
            cs = allc if tier != "quick" else rng.sample(allc, 3)
            if not any(c["qualify"] for c in cs):
                cs = cs[:-1] + [rng.choice([c for c in allc if c["qualify"]])]
            yield {"kind": "script", "name": name, "v": v, "configs": cs}
    for i in range(n_mod):
        allc = _all_configs(rng)
        cs = allc if n_cfg >= len(allc) else rng.sample(allc, n_cfg)
        if i % 4 == 0:
            yield {"kind": "script", "name": "nonlocal", "v": rng.randrange(10**9), "configs": cs}
            continue
        if i % 8 == 1:
            yield {"kind": "script", "name": "rand_cfg", "v": rng.randrange(10**9), "configs": cs}
            continue
        if i % 8 == 2:
            from props import C02

            yield {"kind": "raw", "spec": C02._gen_raw(rng), "configs": cs}
            continue
        if i % 8 in (3, 5):
            from props import C02

            yield {"kind": "prog", "prog": [rng.randrange(2**31), rng.randint(3, 24), rng.choice(C02.PROG_FAMILIES)], "configs": cs}
            continue
        size = rng.choice([0, 1, 2, 3, 4, 6, 8, 10]) if i % 7 else rng.choice([12, 16])
        yield {"kind": "mod", "seed": rng.randrange(10**9), "size": size, "configs": cs}


def corpus():
    return [{"kind": "palette", "name": "nosuch"}]


def run_impl(spec):
    return _eval(spec)[0]


def oracle(spec):
    return _eval(spec)[1]


def payload(spec):
    f = Path(_TMP, _key(spec))
    if f.exists():
        return "render.run", f.read_text()
    pl = _eval(spec)[2]
    return None if pl is None else ("render.run", pl)


def _outs(obs):
    v = json.loads(obs)
    return v["outs"] if isinstance(v, dict) and "outs" in v else v


def compare(spec, impl_obs, model_obs):
    try:
        m = json.loads(model_obs)
        if isinstance(m, dict):
            # the loaded store must satisfy the store hypotheses of the theorems (RenderCheck.hypsB)
            if m.get("hyps") is not True:
                return False
            m = m["outs"]
        return _canon(_outs(impl_obs)) == _canon(m)
    except ValueError:
        return False


def nontrivial(spec, obs):
    if spec["kind"] in ("dot", "palette"):
        return False
    try:
        outs = _outs(obs)
    except ValueError:
        return False
    if not isinstance(outs, list) or not outs or "error" in outs[0]:
        return False
    o = outs[0]
    items = dotparse.items_of(o)
    n_nodes = len(dotparse.node_stmts(items))
    n_clusters = json.dumps(o).count('"cluster":')
    return n_nodes >= 6 and len(o["edges"]) >= 3 and n_clusters >= 2


def stats(spec, obs, counters):
    counters[f"kind.{spec['kind']}"] += 1
    if spec["kind"] in ("dot", "palette"):
        return
    if spec["kind"] == "script":
        counters[f"script.{spec['name']}"] += 1
    for c in spec["configs"]:
        p = c["palette"]
        counters[f"palette.{'custom' if isinstance(p, list) else 'no-config' if p is None else p}"] += 1
        counters[f"qualify.{c['qualify']}"] += 1
    try:
        outs = _outs(obs)
        for k, x in json.loads(obs).get("st", {}).items():
            counters["hugr." + k] += x
    except (ValueError, AttributeError):
        return
    if not isinstance(outs, list) or not outs:
        return
    o = outs[0]
    if "error" in o:
        counters["render.error." + str(o["error"])] += 1
        return
    stmts = dotparse.node_stmts(dotparse.items_of(o))
    counters["nodes"] += len(stmts)
    counters["edges"] += len(o["edges"])
    counters["edges.order"] += sum(1 for e in o["edges"] if e["src"].endswith("out.-1"))
    counters["edges.labelled"] += sum(1 for e in o["edges"] if e["label"])
    counters["clusters"] += json.dumps(o).count('"cluster":')
    counters["nodes.with-metadata"] += sum(1 for s in stmts if s["meta"])
    counters["hugrs.with-graph-name"] += bool(o["name"])
    counters["cells"] += sum(len(s["in"]) + len(s["out"]) for s in stmts)
    counters["nodes.Const"] += sum(1 for s in stmts if s["name"].startswith("Const("))


def shrink(spec, pred):
    if spec["kind"] in ("dot", "palette"):
        return spec
    s = dict(spec)
    # fewer configurations
    for c in spec["configs"]:
        cand = {**s, "configs": [c]}
        if pred(cand):
            s = cand
            break
    else:
        for i, a in enumerate(spec["configs"]):
            done = False
            for b in spec["configs"][i + 1:]:
                cand = {**s, "configs": [a, b]}
                if pred(cand):
                    s, done = cand, True
                    break
            if done:
                break
    # a smaller program
    if s["kind"] == "mod":
        for size in range(0, s["size"]):
            for seed in (s["seed"], 0, 1, 2, 3, 4, 5):
                cand = {**s, "size": size, "seed": seed}
                if pred(cand):
                    return cand
    elif s["kind"] == "raw":
        from props import C02

        inner = C02.shrink(s["spec"], lambda sp: pred({**s, "spec": sp}))
        s = {**s, "spec": inner}
    else:
        for name in SCRIPTS:
            for v in range(4):
                cand = {**s, "name": name, "v": v}
                if _size(cand) < _size(s) and pred(cand):
                    s = cand
    return s


def _size(spec):
    try:
        return len(list(_build(spec)))
    except Exception:  # noqa: BLE001
        return 10**9
