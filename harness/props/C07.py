"""C07 — a type is reported copyable only if all of its constituents are.

Case kinds (field "k" of a spec):
  type      a type expression (bridge spec syntax + the sugar heads @tuple/@option/@either):
            type_bound(), _to_serial_root() encoding, decode + re-encode
  poly      a PolyFuncType as a *field* (`_to_serial()` shape; as a Type root it is not serialisable)
  arg/param a type argument / type parameter: encoding, decode + re-encode
  std       std.collections Array / List / StaticArray over an element type: constructor outcome,
            overriding type_bound(), generic ExtType.type_bound, encoding
  stddef    a type definition of a file under specification/std_extensions, loaded by the real
            extension loader and instantiated with generated arguments
  dec       a (possibly malformed) JSON document decoded as Type / TypeArg / TypeParam /
            PolyFuncType / FunctionType / SumType  (stream tys.dec, shared with C05)
"""
from __future__ import annotations

import ast
import copy
import json
import os
from pathlib import Path

import bridge
from bridge import spec_sexp
from core import REPO, Failure
from sexp import A, dumps

PROP = "C07"
TITLE = "A type is reported copyable only if all of its constituents are"
LEAN_TARGETS = ["HugrVerif.Props.C07"]
DRIVE_TARGETS = ["HugrVerif.Drive.Tys"]
RULE = (
    "random type expressions to nesting depth 6 over every constructor (sums incl. Tuple/Option/Either sugar, "
    "unit sums, variables, row variables, usize, aliases, function and polymorphic function types, extension "
    "types over random definitions with explicit or from-parameters bounds whose index lists contain repeated, "
    "negative and out-of-range positions, opaque types, qubit); about 40% of the cases are biased towards "
    "copyable leaves so that both verdicts are frequent; std Array/List/StaticArray over random element types "
    "(linear ones included) with every kind of size argument; thorough: every type definition of every file "
    "under specification/std_extensions instantiated with matching and mismatching argument lists; plus type "
    "arguments, parameters, polymorphic signatures and mutated documents for the decoder. Non-trivial = the type "
    "has at least one constituent (not a leaf) or the constructor/decoder outcome is an error class; distinct by "
    "full spec. A complete small scope of from-parameters bounds is enumerated: every index list of length <= 2 "
    "(thorough: <= 3) over positions -3..2 (thorough: -4..3) x every argument list of length <= 2 (thorough: <= 3) "
    "over {linear type, copyable type, non-type argument}."
)
TRUSTED = [
    "pydantic: model_dump_json / model_validate of the serialisation models (structural validation as configured)",
    "translator harness/props/C07.py: bundled extension JSON -> Lean TypeDefRef terms; AST facts of the three "
    "std.collections classes (extension name, type name, element index, type_bound body)",
]
ASSUMPTIONS = [
    "type variable indices, unit-sum sizes are non-negative (the model uses Nat); JSON objects have distinct keys",
    "decoder inputs avoid pydantic's lax scalar coercions ('7' for 7, true for 1, 7.0 for 7) and negative indices",
]

STD_REL = "hugr-py/src/hugr/std/_json_defs"
SPEC_REL = "specification/std_extensions"

# ----------------------------------------------------------------------------- translate


def _lean_str(s: str) -> str:
    out = []
    for ch in s:
        if ch == "\\":
            out.append("\\\\")
        elif ch == '"':
            out.append('\\"')
        elif ch == "\n":
            out.append("\\n")
        elif ch == "\t":
            out.append("\\t")
        elif ch == "\r":
            out.append("\\r")
        elif ord(ch) < 32:
            out.append("\\x%02x" % ord(ch))
        else:
            out.append(ch)
    return '"' + "".join(out) + '"'


def _lean_param(p) -> str:
    tp = p["tp"]
    if tp == "Type":
        return f"(.type {'.copyable' if p['b'] == 'C' else '.any'})"
    if tp == "BoundedNat":
        b = p.get("bound")
        return "(.boundedNat none)" if b is None else f"(.boundedNat (some {int(b)}))"
    if tp == "String":
        return ".string"
    if tp == "List":
        return f"(.list {_lean_param(p['param'])})"
    if tp == "Tuple":
        return "(.tuple [" + ", ".join(_lean_param(x) for x in p["params"]) + "])"
    if tp == "Extensions":
        return ".extensions"
    raise ValueError(p)


def _lean_typedef(ext: str, td) -> str:
    b = td["bound"]
    if b["b"] == "Explicit":
        bs = f".explicit {'.copyable' if b['bound'] == 'C' else '.any'}"
    else:
        bs = ".fromParams [" + ", ".join(("(%d)" % int(i)) for i in b["indices"]) + "]"
    return (
        "{ ext := " + _lean_str(ext) + ", name := " + _lean_str(td["name"]) + ", description := "
        + _lean_str(td["description"]) + ",\n    params := [" + ", ".join(_lean_param(p) for p in td["params"])
        + "], bound := " + bs + " }"
    )


def _class_facts(path: Path, cls: str):
    """AST facts of a std.collections class: (extension name, type name, element index, problems)."""
    problems = []
    tree = ast.parse(path.read_text())
    ext_name = None
    for node in tree.body:
        if isinstance(node, ast.Assign) and any(isinstance(t, ast.Name) and t.id == "EXTENSION" for t in node.targets):
            v = node.value
            if isinstance(v, ast.Call) and getattr(v.func, "id", None) == "_load_extension" and v.args:
                ext_name = ast.literal_eval(v.args[0])
    c = next((n for n in tree.body if isinstance(n, ast.ClassDef) and n.name == cls), None)
    if c is None or ext_name is None:
        return None, None, None, [f"{path.name}: class {cls} / EXTENSION not found"]
    type_name = idx = None
    bound_ok = False
    for fn in [n for n in c.body if isinstance(n, ast.FunctionDef)]:
        if fn.name == "__init__":
            for n in ast.walk(fn):
                if (isinstance(n, ast.Assign) and isinstance(n.targets[0], ast.Attribute) and n.targets[0].attr == "type_def"
                        and isinstance(n.value, ast.Subscript)):
                    type_name = ast.literal_eval(n.value.slice)
        if fn.name == "ty":
            for n in ast.walk(fn):
                if (isinstance(n, ast.Return) and isinstance(n.value, ast.Attribute) and n.value.attr == "ty"
                        and isinstance(n.value.value, ast.Subscript)):
                    idx = ast.literal_eval(n.value.value.slice)
        if fn.name == "type_bound":
            body = [s for s in fn.body if not (isinstance(s, ast.Expr) and isinstance(s.value, ast.Constant))]
            bound_ok = len(body) == 1 and ast.unparse(body[0]) == "return self.ty.type_bound()"
    if type_name is None:
        problems.append(f"{path.name}: {cls}.__init__ does not set type_def = EXTENSION.types[<literal>]")
    if idx is None:
        problems.append(f"{path.name}: {cls}.ty is not `self.args[<literal>].ty`")
    if not bound_ok:
        problems.append(f"{path.name}: {cls}.type_bound is not `return self.ty.type_bound()` (the modelled override)")
    return ext_name, type_name, idx, problems


_PROBE = r"""
import importlib, json, sys
from hugr import tys
m = importlib.import_module(sys.argv[1]); cls = getattr(m, sys.argv[2])
probe = tys.Bool
try:
    obj = cls(probe, 3)
except TypeError:
    obj = cls(probe)
idx = [i for i, a in enumerate(obj.args) if isinstance(a, tys.TypeTypeArg) and a.ty is probe]
td = obj.type_def
print(json.dumps({"ext": td._extension.name, "type": td.name, "idx": idx, "ty": obj.ty is probe}))
"""


def _class_facts_by_running(repo: Path, module: str, cls: str):
    """The same facts obtained by instantiating the class (used when the syntax of the class is not the one the
    AST reader knows: a refactoring).  The override `type_bound = element's bound` is then not read off the
    source at all: the `c07.std` stream compares the model's bound with the class's on every element type."""
    import subprocess
    import sys

    try:
        p = subprocess.run([sys.executable, "-c", _PROBE, module, cls], capture_output=True, text=True, timeout=120,
                           env={**os.environ, "PYTHONPATH": str(repo / "hugr-py/src")})
        r = json.loads(p.stdout.strip().splitlines()[-1])
    except Exception:  # noqa: BLE001
        return None
    if len(r["idx"]) != 1 or not r["ty"]:
        return None
    return r["ext"], r["type"], r["idx"][0]


def _std_files(repo: Path, rel: str):
    root = repo / rel
    return sorted(p for p in root.rglob("*.json"))


def translate(repo, gen_dir):
    repo = Path(repo)
    problems: list[str] = []
    defs = {}  # extension name -> {type name -> json}
    all_terms = []
    for f in _std_files(repo, STD_REL):
        doc = json.loads(f.read_text())
        for name, td in doc.get("types", {}).items():
            defs.setdefault(doc["name"], {})[name] = td
            all_terms.append(_lean_typedef(doc["name"], td))
    out = [
        "/- REGENERATED on every run by harness/props/C07.py from the extension files bundled under",
        f"   {STD_REL} (what `hugr.std._load_extension` reads) and from the AST of",
        "   hugr/std/collections/{array,list,static_array}.py.  Do not edit. -/",
        "import HugrVerif.Tys",
        "namespace HugrVerif.Gen.StdTypeDefs",
        "open HugrVerif",
        "",
    ]
    coll = repo / "hugr-py/src/hugr/std/collections"
    for lean_name, file, cls in [("array", "array.py", "Array"), ("list", "list.py", "List"), ("staticArray", "static_array.py", "StaticArray")]:
        ext_name, type_name, idx, probs = _class_facts(coll / file, cls)
        if probs:
            got = _class_facts_by_running(repo, "hugr.std.collections." + file[:-3], cls)
            if got is not None:
                ext_name, type_name, idx = got
                probs = [f"note: {file}: {cls} is not written the way the AST reader expects ({'; '.join(probs)}); "
                         "extension, type name and element index obtained by instantiating the class, the bound "
                         "override is left to the correspondence stream c07.std"]
        problems += probs
        td = defs.get(ext_name, {}).get(type_name)
        if td is None:
            problems.append(f"{file}: type {type_name!r} of extension {ext_name!r} not found in the bundled files")
            td = {"name": str(type_name), "description": "", "params": [], "bound": {"b": "Explicit", "bound": "A"}}
        out.append(f"/-- `{cls}`: `EXTENSION.types[{type_name!r}]` of `{ext_name}` -/")
        out.append(f"def {lean_name}Def : TypeDefRef :=\n  {_lean_typedef(str(ext_name), td)}")
        out.append(f"/-- `{cls}.ty` reads `self.args[{idx}]` -/")
        out.append(f"def {lean_name}TyIndex : Nat := {int(idx) if idx is not None else 0}")
        out.append("")
    out.append("/-- every type definition of every bundled extension file -/")
    out.append("def allStd : List TypeDefRef := [\n  " + ",\n  ".join(all_terms) + "]")
    out.append("")
    out.append("end HugrVerif.Gen.StdTypeDefs")
    text = "\n".join(out) + "\n"
    f = Path(gen_dir) / "StdTypeDefs.lean"
    if not f.exists() or f.read_text() != text:
        f.write_text(text)
    # the files under specification/std_extensions are the ones the thorough tier instantiates; the bundled
    # copies are what the library loads: report when they define different types
    for f in _std_files(repo, SPEC_REL):
        g = repo / STD_REL / f.relative_to(repo / SPEC_REL)
        if g.exists() and json.loads(f.read_text()).get("types") != json.loads(g.read_text()).get("types"):
            problems.append(f"{f.relative_to(repo)}: type definitions differ from the bundled copy")
    return problems


# ----------------------------------------------------------------------------- specs: sugar, walking


def desugar(s):
    """Spec with the sugar heads replaced by the general sum (what the model sees)."""
    if isinstance(s, list):
        if s and s[0] == "@tuple":
            return ["@sum", [[desugar(t) for t in s[1]]]]
        if s and s[0] == "@option":
            return ["@sum", [[], [desugar(t) for t in s[1]]]]
        if s and s[0] == "@either":
            return ["@sum", [[desugar(t) for t in s[1]], [desugar(t) for t in s[2]]]]
        return [desugar(x) for x in s]
    return s


def build_type(s):
    """bridge.build_type + the sugar classes (nested anywhere)."""
    from hugr import tys

    if isinstance(s, list) and s:
        k = s[0]
        if k == "@tuple":
            return tys.Tuple(*[build_type(t) for t in s[1]])
        if k == "@option":
            return tys.Option(*[build_type(t) for t in s[1]])
        if k == "@either":
            # `Either(left: Iterable[Type], right: Iterable[Type])`: rows are handed over as lists, tuples or one-shot
            # iterators (chosen by the spec, so a replay rebuilds the same call) — seeded change C07-14
            return tys.Either(bridge._iterable(s[1], [build_type(t) for t in s[1]]),
                              bridge._iterable(s[2], [build_type(t) for t in s[2]]))
        if k == "@sum":
            return tys.Sum([[build_type(t) for t in row] for row in s[1]])
        if k == "@fn":
            return tys.FunctionType([build_type(t) for t in s[1]], [build_type(t) for t in s[2]], list(s[3]))
        if k == "@poly":
            return tys.PolyFuncType(
                [bridge.build_param(p) for p in s[1]],
                tys.FunctionType([build_type(t) for t in s[2]], [build_type(t) for t in s[3]], list(s[4])),
            )
        if k == "@ext":
            return tys.ExtType(bridge.build_typedef(s[1]), [build_arg(a) for a in s[2]])
        if k == "@opaque":
            return tys.Opaque(id=s[1], bound=bridge._mk_b(s[2]), args=[build_arg(a) for a in s[3]], extension=s[4])
    return bridge.build_type(s)


def build_arg(s):
    from hugr import tys

    if s[0] == "@ty":
        return tys.TypeTypeArg(build_type(s[1]))
    if s[0] == "@seq":
        return tys.SequenceArg([build_arg(a) for a in s[1]])
    return bridge.build_arg(s)


def spec_size(s) -> int:
    return 1 + sum(spec_size(x) for x in s) if isinstance(s, list) else 1


# ----------------------------------------------------------------------------- generation


def gen_type(rng, depth):
    """bridge.gen_type with sugar sums mixed in."""
    if depth > 0 and rng.random() < 0.12:
        k = rng.randrange(3)
        if k == 0:
            return ["@tuple", [gen_type(rng, depth - 1) for _ in range(rng.randint(0, 3))]]
        if k == 1:
            return ["@option", [gen_type(rng, depth - 1) for _ in range(rng.randint(0, 3))]]
        return ["@either", [gen_type(rng, depth - 1) for _ in range(rng.randint(0, 2))], [gen_type(rng, depth - 1) for _ in range(rng.randint(0, 2))]]
    t = bridge.gen_type(rng, depth)
    for _ in range(2):  # fewer bare leaves where nesting was asked for
        if depth >= 2 and not (isinstance(t, list) and t[0] in ("@sum", "@fn", "@ext", "@opaque") and spec_size(t) > 6):
            t = bridge.gen_type(rng, depth)
    if isinstance(t, list) and t[0] in ("@sum", "@fn") and depth > 1 and rng.random() < 0.3:
        # graft a sugar sum somewhere in the first row
        rows = t[1] if t[0] == "@fn" else (t[1][0] if t[1] else None)
        if rows is not None:
            rows.append(gen_type(rng, depth - 1))
    return t


def copyableise(rng, s, p=0.92):
    """Bias towards copyable constituents: qubit -> usize, declared Any -> Copyable (each with prob. p)."""
    if s == "@qubit":
        return "@usize" if rng.random() < p else s
    if s == "@A":
        return "@C" if rng.random() < p else s
    if isinstance(s, list):
        if s and s[0] == "@def":
            return s[:4] + [s[4], copyableise(rng, s[5], p)]  # params untouched, explicit bound biased
        return [copyableise(rng, x, p) for x in s]
    return s


def gen_case_type(rng, maxdepth=6):
    for _ in range(20):
        d = rng.choice([0, 1, 1, 2, 2, 3, 3, 4, 5, 6][: maxdepth + 4])
        t = gen_type(rng, min(d, maxdepth))
        if spec_size(t) <= 600:
            break
    if rng.random() < 0.4:
        t = copyableise(rng, t)
    return t


def gen_size_arg(rng):
    k = rng.randrange(8)
    if k < 3:
        return rng.choice([0, 1, 5, 2**20])  # plain int
    if k == 3:
        return ["@nat", rng.choice([0, 3, 64])]
    if k == 4:
        return ["@varg", rng.randint(0, 3), ["@pnat", rng.choice(["@none", 7])]]
    if k == 5:
        return ["@varg", rng.randint(0, 3), rng.choice(["@pstr", ["@ptype", "@C"], "@pexts", ["@plist", ["@pnat", "@none"]]])]
    if k == 6:
        return rng.choice([["@str", "n"], ["@seq", []], ["@exts", []]])
    return ["@ty", gen_case_type(rng, 1)]


def gen_case_std(rng):
    c = rng.choice(["array", "list", "static"])
    t = gen_case_type(rng, 4)
    if c == "static" and rng.random() < 0.5:
        t = copyableise(rng, t, 1.0)
    s = {"k": "std", "c": c, "t": t}
    if c == "array":
        s["size"] = gen_size_arg(rng)
    return s


def _arg_for_param(rng, p, depth, good=True):
    """An argument matching parameter spec `p` (or deliberately any argument)."""
    if not good:
        return bridge.gen_arg(rng, depth)
    if p == "@pstr":
        return ["@str", rng.choice(["", "s", "名"])]
    if p == "@pexts":
        return ["@exts", [rng.choice(bridge.EXTS) for _ in range(rng.randint(0, 2))]]
    if p[0] == "@ptype":
        t = gen_case_type(rng, depth)
        if p[1] == "@C" and rng.random() < 0.7:
            t = copyableise(rng, t, 1.0)
        return ["@ty", t]
    if p[0] == "@pnat":
        hi = 64 if p[1] == "@none" else p[1]
        return ["@nat", rng.randint(0, hi)] if rng.random() < 0.8 else ["@varg", rng.randint(0, 2), p]
    if p[0] == "@plist":
        return ["@seq", [_arg_for_param(rng, p[1], depth - 1) for _ in range(rng.randint(0, 3))]]
    if p[0] == "@ptuple":
        return ["@seq", [_arg_for_param(rng, q, depth - 1) for q in p[1]]]
    raise ValueError(p)


_SPEC_DEFS = None


def spec_defs():
    """[(relative file, type name, [param specs])] for every type def under specification/std_extensions."""
    global _SPEC_DEFS
    if _SPEC_DEFS is None:
        out = []
        for f in _std_files(REPO, SPEC_REL):
            doc = json.loads(f.read_text())
            for name, td in doc.get("types", {}).items():
                out.append((str(f.relative_to(REPO / SPEC_REL)), name, [bridge._param_json_to_spec(p) for p in td["params"]]))
        _SPEC_DEFS = out
    return _SPEC_DEFS


def gen_case_stddef(rng, which=None):
    file, name, params = which if which is not None else rng.choice(spec_defs())
    r = rng.random()
    if r < 0.7:
        args = [_arg_for_param(rng, p, 3) for p in params]
    elif r < 0.85:
        args = [_arg_for_param(rng, p, 2, good=False) for p in params]
    else:  # wrong arity
        n = rng.choice([0, len(params) + 1, max(0, len(params) - 1)])
        args = [bridge.gen_arg(rng, 2) for _ in range(n)]
    return {"k": "stddef", "file": file, "name": name, "args": args}


def gen_case_poly(rng):
    return {
        "k": "poly",
        "t": ["@poly", [bridge.gen_param(rng, 2) for _ in range(rng.randint(0, 3))],
              [gen_case_type(rng, 3) for _ in range(rng.randint(0, 3))],
              [gen_case_type(rng, 3) for _ in range(rng.randint(0, 3))],
              [rng.choice(bridge.EXTS) for _ in range(rng.randint(0, 2))]],
    }


# ---- documents for the decoder

WRONG_KIND = [None, [], {}, [[]], {"x": 1}]


def _paths(doc, path=()):
    """paths of all JSON objects in doc"""
    if isinstance(doc, dict):
        yield path
        for k, v in doc.items():
            yield from _paths(v, path + (k,))
    elif isinstance(doc, list):
        for i, v in enumerate(doc):
            yield from _paths(v, path + (i,))


def _get(doc, path):
    for p in path:
        doc = doc[p]
    return doc


def mutate_doc(rng, doc):
    doc = copy.deepcopy(doc)
    objs = list(_paths(doc))
    if not objs:
        return rng.choice(WRONG_KIND)
    o = _get(doc, rng.choice(objs))
    keys = list(o)
    m = rng.randrange(7)
    if m == 0 and keys:  # drop a field (required, defaulted or discriminator)
        del o[rng.choice(keys)]
    elif m == 1 and keys:  # wrong JSON kind
        o[rng.choice(keys)] = copy.deepcopy(rng.choice(WRONG_KIND))
    elif m == 2:  # unknown discriminator / tag value
        for k in ("t", "tya", "tp", "s", "b", "bound"):
            if k in o and rng.random() < 0.6:
                o[k] = rng.choice(["X", "", "sum", "Q ", "c"])
                break
        else:
            o["extra"] = 1
    elif m == 3:  # unknown fields are ignored
        o[rng.choice(["extra", "input_extensions", "T", "Bound", "é"])] = copy.deepcopy(rng.choice([1, "x", None, {"t": "Q"}, [1]]))
    elif m == 4:  # defaults
        o.pop("runtime_reqs", None)
        o.pop("extension_reqs", None)
    elif m == 5 and keys:  # a different valid tag on the same fields
        for k, alts in (("t", ["Q", "I", "V", "R", "G", "Sum", "Opaque", "Alias"]), ("tya", ["Type", "BoundedNat", "String", "Sequence", "Extensions", "Variable"]),
                        ("tp", ["Type", "BoundedNat", "String", "List", "Tuple", "Extensions"]), ("s", ["Unit", "General"])):
            if k in o:
                o[k] = rng.choice(alts)
                break
    else:  # replace a whole object by a wrong kind
        return mutate_whole(rng, doc, objs)
    return doc


def mutate_whole(rng, doc, objs):
    path = rng.choice(objs)
    if not path:
        return copy.deepcopy(rng.choice(WRONG_KIND))
    parent = _get(doc, path[:-1])
    parent[path[-1]] = copy.deepcopy(rng.choice(WRONG_KIND + ["Q"]))
    return doc


def _has_lax_scalars(doc) -> bool:
    """True if the document contains values whose verdict depends on pydantic's lax coercions."""
    if isinstance(doc, bool):
        return True
    if isinstance(doc, float):
        return True
    if isinstance(doc, int):
        return doc < 0
    if isinstance(doc, dict):
        return any(_has_lax_scalars(v) for v in doc.values())
    if isinstance(doc, list):
        return any(_has_lax_scalars(v) for v in doc)
    return False


def gen_case_dec(rng):
    what = rng.choice(["type", "type", "type", "arg", "param", "poly", "functype", "sumtype"])
    try:
        if what == "type":
            t = gen_case_type(rng, 4)
            doc = json.loads(build_type(t)._to_serial_root().model_dump_json())
        elif what == "arg":
            doc = json.loads(build_arg(bridge.gen_arg(rng, 3))._to_serial_root().model_dump_json())
        elif what == "param":
            doc = json.loads(bridge.build_param(bridge.gen_param(rng, 3))._to_serial_root().model_dump_json())
        elif what == "poly":
            doc = json.loads(build_type(gen_case_poly(rng)["t"])._to_serial().model_dump_json())
        elif what == "functype":
            t = ["@fn", [gen_case_type(rng, 2) for _ in range(rng.randint(0, 3))], [gen_case_type(rng, 2) for _ in range(rng.randint(0, 2))], []]
            doc = json.loads(build_type(t)._to_serial().model_dump_json())
            if rng.random() < 0.5:
                doc.pop("t")
        else:
            t = rng.choice([["@unit", rng.randint(0, 3)], ["@sum", [[gen_case_type(rng, 2) for _ in range(rng.randint(0, 2))] for _ in range(rng.randint(0, 3))]]])
            doc = json.loads(build_type(t)._to_serial().model_dump_json())
            if rng.random() < 0.5:
                doc.pop("t")
    except Exception:  # noqa: BLE001  (unserialisable random type: use a fixed small document)
        doc = {"t": "Sum", "s": "Unit", "size": 2}
        what = "type"
    for _ in range(rng.choice([0, 1, 1, 1, 2])):
        doc = mutate_doc(rng, doc)
    if _has_lax_scalars(doc):
        doc = {"t": "G", "input": [], "output": [{"t": "Q"}]}
        what = "type"
    return {"k": "dec", "what": what, "doc": doc}


def small_scope(tier):
    """Complete small scope for from-parameters bounds: every index list up to a length over a range of
    positions (negative, repeated, out of range) x every argument list over {linear type, copyable type,
    non-type argument} up to a length."""
    import itertools

    if tier == "thorough":
        rng_ix, max_ix, max_args = range(-4, 4), 3, 3
    else:
        rng_ix, max_ix, max_args = range(-3, 3), 2, 2
    atoms = [["@ty", "@qubit"], ["@ty", "@usize"], ["@nat", 1]]
    for na in range(max_args + 1):
        for args in itertools.product(atoms, repeat=na):
            for ni in range(max_ix + 1):
                for ix in itertools.product(rng_ix, repeat=ni):
                    d = ["@def", "e", "T", "", [["@ptype", "@A"] if a[0] == "@ty" else ["@pnat", "@none"] for a in args], ["@from", *ix]]
                    yield {"k": "type", "t": ["@ext", d, [list(a) for a in args]]}


def cases(rng, tier):
    if tier == "quick":
        n_type, n_std, n_def, n_misc, n_dec = 20000, 3000, 800, 900, 2500
    elif tier == "thorough":
        n_type, n_std, n_def, n_misc, n_dec = 500000, 80000, 0, 15000, 50000
        for which in spec_defs():  # every definition of every file, many argument lists each
            for _ in range(2500):
                yield gen_case_stddef(rng, which)
    else:  # search
        n_type, n_std, n_def, n_misc, n_dec = 60000, 12000, 4000, 0, 0
    for which in spec_defs():
        yield gen_case_stddef(rng, which)
    yield from small_scope(tier)
    for i in range(n_type // 40):  # the general streams (shared with C05) on the same kind of input
        yield {"k": "gen", "stream": ("tys.bound", "tys.enc", "tys.roundtrip")[i % 3], "t": gen_case_type(rng)}
    for _ in range(n_type):
        yield {"k": "type", "t": gen_case_type(rng)}
    for _ in range(n_std):
        yield gen_case_std(rng)
    for _ in range(n_def):
        yield gen_case_stddef(rng)
    for i in range(n_misc):
        r = i % 3
        if r == 0:
            yield gen_case_poly(rng)
        elif r == 1:
            yield {"k": "arg", "a": bridge.gen_arg(rng, rng.randint(0, 4))}
        else:
            yield {"k": "param", "p": bridge.gen_param(rng, rng.randint(0, 4))}
    for _ in range(n_dec):
        yield gen_case_dec(rng)


def corpus():
    q, u = "@qubit", "@usize"
    d_from = lambda *ix: ["@def", "e", "T", "", [["@ptype", "@A"], ["@pnat", "@none"]], ["@from", *ix]]  # noqa: E731
    return [
        {"k": "type", "t": ["@sum", []]},
        {"k": "type", "t": ["@sum", [[u], [u, q]]]},
        {"k": "type", "t": ["@tuple", [["@unit", 2], ["@unit", 2]]]},
        {"k": "type", "t": ["@tuple", [q, ["@unit", 2]]]},
        {"k": "type", "t": ["@option", [["@fn", [q], [q], []]]]},
        {"k": "type", "t": ["@either", [u], [["@var", 0, "@A"]]]},
        {"k": "type", "t": ["@ext", d_from(0), [["@ty", q], ["@nat", 3]]]},
        {"k": "type", "t": ["@ext", d_from(1, -1, 1), [["@ty", q], ["@nat", 3]]]},
        {"k": "type", "t": ["@ext", d_from(-2, 0), [["@ty", u], ["@nat", 3]]]},
        {"k": "type", "t": ["@ext", d_from(2), [["@ty", u], ["@nat", 3]]]},
        {"k": "type", "t": ["@ext", d_from(-3), [["@ty", u], ["@nat", 3]]]},
        {"k": "type", "t": ["@sum", [[["@ext", d_from(5), []]]]]},
        {"k": "type", "t": ["@fn", [["@ext", d_from(5), []]], [], []]},
        {"k": "type", "t": ["@sum", [[["@poly", [], [], [], []]]]]},
        {"k": "type", "t": ["@poly", [["@ptype", "@A"]], [q], [q], []]},
        {"k": "std", "c": "static", "t": q},
        {"k": "std", "c": "static", "t": u},
        {"k": "std", "c": "array", "t": q, "size": 3},
        {"k": "std", "c": "list", "t": ["@tuple", [u, q]]},
        {"k": "dec", "what": "type", "doc": {"t": "G", "input": [], "output": []}},
        {"k": "dec", "what": "functype", "doc": {"input": [], "output": [{"t": "Q", "extra": 1}]}},
    ]


# ----------------------------------------------------------------------------- payload


def payload(spec):
    k = spec["k"]
    if k == "type":
        return "c07.type", spec_sexp(desugar(spec["t"]))
    if k == "gen":
        return spec["stream"], spec_sexp(desugar(spec["t"]))
    if k == "poly":
        return "c07.poly", spec_sexp(desugar(spec["t"]))
    if k == "arg":
        return "c07.arg", spec_sexp(desugar(spec["a"]))
    if k == "param":
        return "c07.param", spec_sexp(spec["p"])
    if k == "std":
        c = spec["c"]
        t = desugar(spec["t"])
        if c == "array":
            size = spec["size"]
            size = ["@nat", size] if isinstance(size, int) else desugar(size)
            return "c07.std", spec_sexp(["@array", t, size])
        return "c07.std", spec_sexp(["@" + c, t])
    if k == "stddef":
        td = _loaded_def(spec["file"], spec["name"])
        return "c07.type", spec_sexp(["@ext", bridge.typedef_to_spec(td), desugar(spec["args"])])
    if k == "dec":
        return "tys.dec", dumps([A(spec["what"]), bridge.json_to_sx(spec["doc"])])
    raise ValueError(k)


# ----------------------------------------------------------------------------- implementation


def _cls(e: BaseException) -> str:
    import pydantic

    if isinstance(e, pydantic.ValidationError):
        return "ValidationError"
    if isinstance(e, IndexError):
        return "IndexError"
    if isinstance(e, ValueError):
        return "ValueError"
    return "Exception"


def _bname(b) -> str:
    from hugr.tys import TypeBound

    return "C" if b == TypeBound.Copyable else "A"


def _bound_obs(t) -> str:
    try:
        return _bname(t.type_bound())
    except Exception as e:  # noqa: BLE001
        return _cls(e)


def _rt_type(js: str):
    """decode + re-encode a serialised Type"""
    import hugr._serialization.tys as stys

    obj = stys.Type.model_validate(json.loads(js)).deserialize()
    return obj, [spec_sexp(bridge.type_to_spec(obj)), "J:" + obj._to_serial_root().model_dump_json()]


def obs_type(t) -> list[str]:
    parts = [_bound_obs(t)]
    try:
        js = t._to_serial_root().model_dump_json()
    except Exception as e:  # noqa: BLE001
        return parts + [_cls(e)]
    parts.append("J:" + js)
    try:
        _, rt = _rt_type(js)
        parts += rt
    except Exception as e:  # noqa: BLE001
        parts.append("dec:" + _cls(e))
    return parts


_LOADED: dict = {}


def _loaded_def(file, name):
    """The TypeDef object produced by the real extension loader from specification/std_extensions/<file>."""
    if file not in _LOADED:
        from hugr._serialization.extension import Extension as PdExtension

        _LOADED[file] = PdExtension.model_validate_json((REPO / SPEC_REL / file).read_text()).deserialize()
    return _LOADED[file].types[name]


def _mk_std(spec):
    from hugr.std.collections.array import Array
    from hugr.std.collections.list import List
    from hugr.std.collections.static_array import StaticArray

    t = build_type(spec["t"])
    c = spec["c"]
    if c == "array":
        size = spec["size"]
        return Array(t, size if isinstance(size, int) else build_arg(size))
    if c == "list":
        return List(t)
    return StaticArray(t)


def run_impl(spec) -> str:
    import hugr._serialization.tys as stys
    from hugr import tys

    k = spec["k"]
    try:
        if k == "type":
            return "\t".join(obs_type(build_type(spec["t"])))
        if k == "gen":
            parts = obs_type(build_type(spec["t"]))
            return {"tys.bound": parts[0], "tys.enc": parts[1], "tys.roundtrip": "\t".join(parts[1:])}[spec["stream"]]
        if k == "stddef":
            td = _loaded_def(spec["file"], spec["name"])
            return "\t".join(obs_type(td.instantiate([build_arg(a) for a in spec["args"]])))
        if k == "poly":
            p = build_type(spec["t"])
            parts = [_bound_obs(p)]
            try:
                js = p._to_serial().model_dump_json()
            except Exception as e:  # noqa: BLE001
                return "\t".join(parts + [_cls(e)])
            obj = stys.PolyFuncType.model_validate(json.loads(js)).deserialize()
            return "\t".join(parts + ["J:" + js, spec_sexp(bridge.type_to_spec(obj)), "J:" + obj._to_serial().model_dump_json()])
        if k == "arg":
            a = build_arg(spec["a"])
            try:
                js = a._to_serial_root().model_dump_json()
            except Exception as e:  # noqa: BLE001
                return _cls(e)
            obj = stys.TypeArg.model_validate(json.loads(js)).deserialize()
            return "\t".join(["J:" + js, spec_sexp(bridge.arg_to_spec(obj)), "J:" + obj._to_serial_root().model_dump_json()])
        if k == "param":
            p = bridge.build_param(spec["p"])
            js = p._to_serial_root().model_dump_json()
            obj = stys.TypeParam.model_validate(json.loads(js)).deserialize()
            return "\t".join(["J:" + js, spec_sexp(bridge.param_to_spec(obj)), "J:" + obj._to_serial_root().model_dump_json()])
        if k == "std":
            try:
                a = _mk_std(spec)
            except Exception as e:  # noqa: BLE001
                return _cls(e)
            try:
                generic = _bname(tys.ExtType.type_bound(a))
            except Exception as e:  # noqa: BLE001
                generic = _cls(e)
            return "\t".join(["ok", _bound_obs(a), generic] + obs_type(a)[1:])
        if k == "dec":
            what, doc = spec["what"], spec["doc"]
            try:
                if what == "type":
                    return spec_sexp(bridge.type_to_spec(stys.Type.model_validate(doc).deserialize()))
                if what == "arg":
                    return spec_sexp(bridge.arg_to_spec(stys.TypeArg.model_validate(doc).deserialize()))
                if what == "param":
                    return spec_sexp(bridge.param_to_spec(stys.TypeParam.model_validate(doc).deserialize()))
                if what == "poly":
                    return spec_sexp(bridge.type_to_spec(stys.PolyFuncType.model_validate(doc).deserialize()))
                if what == "functype":
                    return spec_sexp(bridge.type_to_spec(stys.FunctionType.model_validate(doc).deserialize()))
                if what == "sumtype":
                    return spec_sexp(bridge.type_to_spec(stys.SumType.model_validate(doc).deserialize()))
            except Exception as e:  # noqa: BLE001
                return _cls(e)
    except Exception as e:  # noqa: BLE001  (construction of the object itself failed)
        return "build:" + _cls(e)
    raise ValueError(k)


def compare(spec, impl_obs: str, model_obs: str) -> bool:
    a, b = impl_obs.split("\t"), model_obs.split("\t")
    if len(a) != len(b):
        return False
    for x, y in zip(a, b):
        if x.startswith("J:") and y.startswith("J:"):
            try:
                if json.loads(x[2:]) != json.loads(y[2:]):
                    return False
            except ValueError:
                return False
        elif x != y:
            return False
    return True


# ----------------------------------------------------------------------------- oracle (from the property text)


class NoClaim(Exception):
    """The definition names a position outside the argument list: the property states nothing."""


def _named(args, idx):
    """the argument at position idx of the list (positions count from the end when negative)"""
    n = len(args)
    if idx >= n or idx < -n:
        raise NoClaim
    return args[idx if idx >= 0 else n + idx]


def all_copyable(s) -> bool:
    """Can every value of the type be copied?  Written from the statement of C07."""
    if s == "@qubit":
        return False
    if s == "@usize":
        return True
    k = s[0]
    if k == "@sum":  # least upper bound of the element bounds; the empty sum is copyable
        return all([all_copyable(t) for row in s[1] for t in row])
    if k in ("@tuple", "@option"):
        return all([all_copyable(t) for t in s[1]])
    if k == "@either":
        return all([all_copyable(t) for t in s[1] + s[2]])
    if k == "@unit":
        return True
    if k in ("@fn", "@poly"):  # function types are copyable
        return True
    if k in ("@var", "@rowvar", "@alias"):  # declared bound
        return s[2] == "@C"
    if k == "@opaque":
        return s[2] == "@C"
    if k == "@ext":
        bound = s[1][5]
        if bound[0] == "@explicit":
            return bound[1] == "@C"
        named = [_named(s[2], i) for i in bound[1:]]  # the type arguments the definition names
        return all([all_copyable(a[1]) for a in named if a[0] == "@ty"])
    raise ValueError(s)


def _ext_subspecs(s, out):
    """every extension-type sub-expression (the serialised form of each carries a bound)"""
    if isinstance(s, list):
        if s and s[0] == "@ext":
            out.append(s)
        if s and s[0] == "@def":
            return
        for x in s:
            _ext_subspecs(x, out)


def _expect(site, spec_t, obj, fails, check_serial=True):
    """bound of obj (built from spec_t) is Copyable exactly when all constituents are"""
    from hugr.tys import TypeBound

    try:
        want = all_copyable(spec_t)
    except NoClaim:
        return
    try:
        got = obj.type_bound()
    except Exception as e:  # noqa: BLE001
        fails.append(Failure(site, "bound-raises", f"{type(e).__name__} where every named position exists"))
        return
    if (got == TypeBound.Copyable) != want:
        fails.append(Failure(site, "copyable-with-linear-constituent" if not want else "linear-with-copyable-constituents",
                             f"type_bound()={got} all_copyable={want}"))
    if check_serial and spec_t[0] == "@ext":
        try:
            ser = obj._to_serial()
        except Exception:  # noqa: BLE001  (an argument that cannot be serialised: no serialised bound to check)
            return
        if ser.bound != got:  # "the bound written into a serialized extension type equals the computed one"
            fails.append(Failure("ExtType._to_opaque", "serialised-bound-differs", f"serialised {ser.bound}, computed {got}"))


SITE = {
    "@sum": "Sum.type_bound", "@tuple": "Sum.type_bound", "@option": "Sum.type_bound", "@either": "Sum.type_bound",
    "@unit": "Sum.type_bound", "@fn": "FunctionType.type_bound", "@poly": "PolyFuncType.type_bound",
    "@var": "Variable.type_bound", "@rowvar": "RowVariable.type_bound", "@alias": "Alias.type_bound",
    "@opaque": "Opaque.type_bound", "@ext": "ExtType.type_bound", "@qubit": "_QubitDef.type_bound", "@usize": "USize.type_bound",
}


def _site(s):
    return SITE[s if isinstance(s, str) else s[0]]


def _subtypes(s, out):
    """all type sub-expressions (post-order: the smallest failing one is reported first)"""
    if isinstance(s, list) and s:
        k = s[0]
        if k == "@sum":
            for row in s[1]:
                for t in row:
                    _subtypes(t, out)
        elif k in ("@tuple", "@option"):
            for t in s[1]:
                _subtypes(t, out)
        elif k == "@either":
            for t in s[1] + s[2]:
                _subtypes(t, out)
        elif k == "@fn":
            for t in s[1] + s[2]:
                _subtypes(t, out)
        elif k == "@poly":
            for t in s[2] + s[3]:
                _subtypes(t, out)
        elif k in ("@ext", "@opaque"):
            for a in (s[2] if k == "@ext" else s[3]):
                _subargs(a, out)
    out.append(s)


def _subargs(a, out):
    if a[0] == "@ty":
        _subtypes(a[1], out)
    elif a[0] == "@seq":
        for x in a[1]:
            _subargs(x, out)


def oracle(spec):
    from hugr.tys import TypeBound

    fails: list[Failure] = []
    k = spec["k"]
    try:
        if k in ("type", "poly", "gen"):
            subs: list = []
            _subtypes(spec["t"], subs)
            seen = set()
            for s in subs:
                key = json.dumps(s)
                if key in seen:
                    continue
                seen.add(key)
                _expect(_site(s), s, build_type(s), fails)
                if fails:
                    break
            if not fails and k in ("type", "gen"):
                # the bound survives the codec (what a reader of the document sees)
                t = build_type(spec["t"])
                try:
                    js = t._to_serial_root().model_dump_json()
                    want = all_copyable(spec["t"])
                except Exception:  # noqa: BLE001
                    js = None
                if js is not None:
                    try:
                        obj, _ = _rt_type(js)
                        got = obj.type_bound()
                    except Exception as e:  # noqa: BLE001
                        fails.append(Failure("Type.deserialize", "own-encoding-rejected", type(e).__name__))
                    else:
                        if (got == TypeBound.Copyable) != want:
                            fails.append(Failure("Opaque.type_bound", "decoded-bound-differs", ""))
                        else:
                            # … and a resolution that finds nothing (empty registry) leaves the reported bound alone:
                            # opaque types keep reporting their declared bound
                            try:
                                from hugr.ext import ExtensionRegistry

                                got2 = obj.resolve(ExtensionRegistry()).type_bound()
                            except Exception as e:  # noqa: BLE001
                                fails.append(Failure("Opaque.resolve", "raises-on-empty-registry", type(e).__name__))
                            else:
                                if got2 != got:
                                    fails.append(Failure("Opaque.resolve", "bound-changed-by-a-resolution-that-found-nothing", f"{got} -> {got2}"))
            if not fails and k == "type" and isinstance(spec["t"], list) and spec["t"][0] in ("@sum", "@tuple", "@option", "@either"):
                # a sum that was asked for its bound (and serialised) once, then EDITED IN PLACE — a linear field appended
                # to its last row, and taken out again — reports the bound of what it holds at the time (seeded change
                # C07-15: the bound memoised on the sum object)
                from hugr import tys
                from hugr.std.collections.array import Array

                try:
                    t = build_type(spec["t"])
                    base = all_copyable(spec["t"])
                    t.type_bound()
                    t._to_serial_root().model_dump_json()
                    rows = t.variant_rows
                except Exception:  # noqa: BLE001
                    rows = None
                if rows:
                    rows[-1].append(tys.Qubit)
                    try:
                        b1, a1 = t.type_bound(), Array(t, 2)._to_serial().bound
                        rows[-1].pop()
                        b2 = t.type_bound()
                    except Exception as e:  # noqa: BLE001
                        fails.append(Failure("Sum.type_bound", "bound-raises", f"after an in-place edit: {type(e).__name__}"))
                    else:
                        if b1 == TypeBound.Copyable or a1 == TypeBound.Copyable:
                            fails.append(Failure("Sum.type_bound", "copyable-with-linear-constituent",
                                                 f"a qubit appended to the last row after the bound had been asked: type_bound()={b1}, array over it serialised {a1}"))
                        elif (b2 == TypeBound.Copyable) != base:
                            fails.append(Failure("Sum.type_bound", "bound-does-not-follow-an-in-place-edit",
                                                 f"the qubit removed again: type_bound()={b2}, all_copyable={base}"))
        elif k == "stddef":
            td = _loaded_def(spec["file"], spec["name"])
            s = ["@ext", bridge.typedef_to_spec(td), spec["args"]]
            _expect("ExtType.type_bound", s, td.instantiate([build_arg(a) for a in spec["args"]]), fails)
        elif k == "std":
            c = spec["c"]
            try:
                elem_copyable = all_copyable(spec["t"])
            except NoClaim:
                return fails
            ctor = {"array": "Array.__init__", "list": "List.__init__", "static": "StaticArray.__init__"}[c]
            try:
                a = _mk_std(spec)
            except ValueError:
                a = None
            except Exception as e:  # noqa: BLE001  (every named position exists: nothing may raise)
                return [Failure(ctor, "constructor-raises", type(e).__name__)]
            if c == "static":
                # containers that require copyable elements reject linear ones
                if a is not None and not elem_copyable:
                    fails.append(Failure("StaticArray.__init__", "accepts-linear-element", ""))
                if a is None and elem_copyable:
                    fails.append(Failure("StaticArray.__init__", "rejects-copyable-element", ""))
            if a is not None:
                site = {"array": "Array.type_bound", "list": "List.type_bound", "static": "StaticArray.type_bound"}[c]
                try:
                    got = a.type_bound()
                except Exception as e:  # noqa: BLE001
                    return [Failure(site, "bound-raises", type(e).__name__)]
                if (got == TypeBound.Copyable) != elem_copyable:
                    fails.append(Failure(site, "container-bound-ignores-element", f"type_bound()={got} element copyable={elem_copyable}"))
                try:
                    ser = a._to_serial()
                except Exception:  # noqa: BLE001  (an unserialisable element type: nothing is written)
                    ser = None
                if ser is not None and ser.bound != got:
                    fails.append(Failure("ExtType._to_opaque", "serialised-bound-differs", f"serialised {ser.bound}, computed {got}"))
    except NoClaim:
        pass
    return fails


# ----------------------------------------------------------------------------- bookkeeping


def nontrivial(spec, obs):
    k = spec["k"]
    if k in ("type", "poly", "gen"):
        return isinstance(spec["t"], list) and spec_size(spec["t"]) > 4
    if k == "dec":
        return True
    return True


def stats(spec, obs, counters):
    k = spec["k"]
    counters[f"kind.{k}"] += 1
    first = obs.split("\t", 1)[0]
    if k in ("type", "stddef", "poly", "gen"):
        counters[f"bound.{first if len(first) < 16 else 'other'}"] += 1
        t = spec.get("t")
        if isinstance(t, list):
            counters[f"root.{t[0][1:]}"] += 1
            sz = spec_size(t)
            counters["size.<10" if sz < 10 else "size.<50" if sz < 50 else "size.<200" if sz < 200 else "size.200+"] += 1
        if "\tValidationError" in obs or "\tIndexError" in obs:
            counters["enc.error"] += 1
    elif k == "std":
        counters[f"std.{spec['c']}.{first}"] += 1
    elif k == "dec":
        counters[f"dec.{spec['what']}.{'ValidationError' if obs == 'ValidationError' else 'ok'}"] += 1


def _shrink_cands(s):
    """smaller type specs: sub-expressions, and the spec with one list element removed"""
    if not isinstance(s, list) or not s:
        return
    subs: list = []
    _subtypes(s, subs)
    for x in subs[:-1]:
        yield x
    k = s[0]

    def without(lst):
        for i in range(len(lst)):
            yield lst[:i] + lst[i + 1:]

    def replaced(lst):
        for i, t in enumerate(lst):
            for c in _shrink_cands(t):
                yield lst[:i] + [c] + lst[i + 1:]
            for leaf in ("@usize", "@qubit"):
                if t != leaf and isinstance(t, list):
                    yield lst[:i] + [leaf] + lst[i + 1:]

    if k == "@sum":
        for rows in without(s[1]):
            yield ["@sum", rows]
        for i, row in enumerate(s[1]):
            for r in list(without(row)) + list(replaced(row)):
                yield ["@sum", s[1][:i] + [r] + s[1][i + 1:]]
    elif k in ("@tuple", "@option"):
        for r in list(without(s[1])) + list(replaced(s[1])):
            yield [k, r]
    elif k == "@fn":
        for r in list(without(s[1])) + list(replaced(s[1])):
            yield [k, r, s[2], s[3]]
        for r in list(without(s[2])) + list(replaced(s[2])):
            yield [k, s[1], r, s[3]]
        for r in without(s[3]):
            yield [k, s[1], s[2], r]
    elif k == "@opaque":
        for r in without(s[3]):
            yield [k, s[1], s[2], r, s[4]]
    elif k == "@ext":
        args = s[2]
        for i, a in enumerate(args):
            if a[0] == "@ty":
                for c in _shrink_cands(a[1]):
                    yield [k, s[1], args[:i] + [["@ty", c]] + args[i + 1:]]
                for leaf in ("@usize", "@qubit"):
                    if a[1] != leaf:
                        yield [k, s[1], args[:i] + [["@ty", leaf]] + args[i + 1:]]
            elif a[0] != "@nat":
                yield [k, s[1], args[:i] + [["@nat", 0]] + args[i + 1:]]
        d = s[1]
        if d[5][0] == "@from":
            for ix in without(d[5][1:]):
                yield [k, d[:5] + [["@from"] + ix], args]


def shrink(spec, pred):
    k = spec["k"]
    if k == "stddef":
        try:
            cand = {"k": "type", "t": ["@ext", bridge.typedef_to_spec(_loaded_def(spec["file"], spec["name"])), spec["args"]]}
            if pred(cand):
                return shrink(cand, pred)
        except Exception:  # noqa: BLE001
            pass
        return spec
    field = {"type": "t", "poly": "t", "std": "t", "gen": "t"}.get(k)
    if field is None:
        return spec
    cur = spec
    for _ in range(200):
        for c in _shrink_cands(cur[field]):
            cand = {**cur, field: c}
            if k == "poly" and not (isinstance(c, list) and c[0] == "@poly"):
                cand = {"k": "type", "t": c}
            try:
                if spec_size(c) < spec_size(cur[field]) and pred(cand):
                    cur = cand
                    field = "t"
                    k = cur["k"]
                    break
            except Exception:  # noqa: BLE001
                continue
        else:
            break
    return cur
